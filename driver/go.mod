module driver

go 1.23
