// Command driver implements `/verif/check <ID> [--tier quick|thorough] [--replay FILE]`.
//
// scratch copy of /repo's working tree -> instrument -> build harness (go1.26.8, -tags verif) ->
// spawn worker processes with derived seeds -> merge -> replay every new violation in a fresh
// process -> evidence file -> remove scratch.
//
// Exit 0: property held on everything explored (known findings are printed, not alarms).
// Exit 1: "VIOLATION property=<id> replay=<path>" printed for a violation that replays exactly.
// Exit 2: build / instrumenter / watchdog / nondeterminism trouble. Never a VIOLATION line.
package main

import (
	"encoding/json"
	"fmt"
	"os"
	"os/exec"
	"path/filepath"
	"sort"
	"strconv"
	"strings"
	"sync"
	"time"
)

const verif = "/verif"

type propCfg struct {
	Level      string
	QuickS     int
	ThoroughS  int
	Race       bool
	Rule       string
	Assume     []string
	MinimiseS  int
}

var props = map[string]propCfg{}

func defProp(id, level string, quick, thorough int, rule string) {
	props[id] = propCfg{Level: level, QuickS: quick, ThoroughS: thorough, Rule: rule}
}

var commonAssume = []string{
	"sampling, not proof: a clean batch is evidence that the property held on the explored scenarios and schedules only",
	"real code: samber/ro core (and the plugin under test) compiled from /repo's current working tree after the mechanical rewrite of sync/atomic/time/go/channel/select to rosim shims; samber/lo and all other dependencies unmodified",
	"stubbed: who runs next (token scheduler), blocking on mutexes and channels (park + retry), select's choice among ready cases, sync.Map iteration order, the clock (kernel event heap mirrored onto the testing/synctest bubble clock)",
	"the instrumenter preserves the meaning of the code it rewrites (checked by the transparency self-test: ro's own suite on the instrumented copy in pass-through mode)",
	"bounds: scripts <= 8 notifications, <= 4 sources/producers, <= 5 stages, step cap per run (capped runs are counted, not judged, unless the property promises progress)",
}

func init() {
	defProp("C01", "exploration", 25, 900, "seeded pipelines (every catalogue stage alone, random chains, subjects) x producer scripts with illegal suffixes x concurrent producers x schedules; distinct = distinct <scenario class, interleaving hash> with >=1 scheduling point where >=2 actors were enabled (sequential sub-mode: distinct <scenario>)")
	defProp("C02", "exploration", 25, 900, "multi-producer operator (+ pass-through stages) x scripts x schedules with a yield inside every observer callback; distinct = distinct <scenario class, interleaving hash> over points where >=2 actors were enabled")
	defProp("C03", "fault_enumeration", 25, 900, "pipeline x ending x cut position (all positions of each generated script are enumerated) x terminal/Unsubscribe/Add races x panicking teardowns, under seeded schedules; distinct = distinct <scenario class+cut, interleaving hash>")
	defProp("C04", "exploration", 25, 900, "stage x boundary-biased parameters x scripts over a 3-value alphabet with the three endings, variants/aliases/Pipe forms, random chains; oracle = executable reference model (set valued); distinct = distinct <stage, params, script>")
	defProp("C05", "exploration", 25, 900, "multi-source operator x source scripts x arrival order (sequential sub-mode: model(arrival order) exactly) or schedule (concurrent sub-mode: exists a compatible linear extension); distinct = distinct <operator, scripts, arrival order | interleaving hash>")
	defProp("C06", "exploration", 25, 900, "pipeline x cut point x number of concurrent Unsubscribe/Wait callers x schedules; step-stamped history rules; distinct = distinct <scenario class, interleaving hash>")
	defProp("C07", "fault_enumeration", 25, 900, "pipeline x <callback position, invocation, fault kind>: every single fault of each generated pipeline is enumerated, pairs sampled; distinct = distinct <pipeline, fault tuple>")
	defProp("C08", "exploration", 25, 900, "sync pipelines: quiescence-after-each-Next; hand-off operators: capacity x stalls x schedules with FIFO/bound invariants; distinct = distinct <scenario, interleaving hash>")
	defProp("C09", "exploration", 25, 900, "pipeline x context marker placement (subscription, mid-pipeline, per item) x script; distinct = distinct <scenario>")
	defProp("C10", "exploration", 25, 900, "subject kind x buffer x operation sequence: sequential against the model (exact), concurrent (2-4 clients) checked with porcupine; distinct = distinct <kind, ops, interleaving hash>")
	defProp("C11", "exploration", 25, 900, "Share/connectable config cube x connector x event sequences, sequential against a model and concurrent with invariants; distinct = distinct <config, events, interleaving hash>")
	defProp("C12", "exploration", 25, 900, "cold pipeline x k re-subscriptions / concurrent subscribers / operator value applied to several sources, differential against a freshly built pipeline; distinct = distinct <scenario, interleaving hash>")
	defProp("C13", "exploration", 40, 900, "concurrent scenarios of C02/C03/C05/C06/C10/C11 executed with real goroutines under the Go race detector with seeded jitter at every shim point; distinct = distinct scenario classes executed")
	defProp("C14", "fault_enumeration", 25, 900, "never-ending timed source x stage x terminator x every cut position; bounded liveness oracle evaluated at quiescence without advancing the clock; distinct = distinct <scenario class+cut, interleaving hash>")
	defProp("C15", "exploration", 25, 900, "attempt outcome sequences x retry/repeat configuration x loop condition values x cancellation point; distinct = distinct <scenario>")
	defProp("C16", "exploration", 25, 900, "time-driven operator x durations x seeded timelines x stall faults x cut instants on the simulated clock; distinct = distinct <scenario, interleaving hash>")
	defProp("C17", "exploration", 25, 900, "bridge x script x capacity x consumer/producer behaviour x cut; distinct = distinct <scenario, interleaving hash>")
	defProp("C18", "exploration", 25, 900, "I/O plugins over fault-injecting readers/writers; lifts compared item by item with the wrapped stdlib call; distinct = distinct <operator, input>")
	defProp("C19", "exploration", 25, 900, "PipeN arity x chain x script x (re/concurrent) subscriptions x licence, differential against the plain pipeline plus counter equalities; distinct = distinct <scenario, interleaving hash>")
	defProp("C20", "exploration", 25, 900, "quota x window x keys x timeline x stalls on the simulated clock; distinct = distinct <scenario, interleaving hash>")
	c := props["C13"]
	c.Race = true
	props["C13"] = c
}

type violation struct {
	Prop   string `json:"prop"`
	FP     string `json:"fp"`
	Clause string `json:"clause"`
	Msg    string `json:"msg"`
}

type replayFile struct {
	Property string          `json:"property"`
	Scenario json.RawMessage `json:"scenario"`
	Sched    json.RawMessage `json:"sched"`
	Viol     violation       `json:"violation"`
	LogHash  string          `json:"log_hash"`
	Seed     uint64          `json:"seed"`
	Note     string          `json:"note,omitempty"`
}

type workerOut struct {
	Property        string            `json:"property"`
	Worker          int               `json:"worker"`
	Runs            int               `json:"runs"`
	Capped          int               `json:"capped"`
	Deadlocks       int               `json:"deadlocks"`
	SimSeconds      float64           `json:"sim_seconds"`
	Steps           int64             `json:"steps"`
	Decisions       int64             `json:"decisions"`
	Switches        int64             `json:"switches"`
	WallS           float64           `json:"wall_s"`
	DistinctKeys    []string          `json:"distinct_keys"`
	Probes          map[string]int    `json:"probes"`
	Faults          map[string]int    `json:"faults_fired"`
	PerFamily       map[string]int    `json:"per_family"`
	PerClass        map[string]int    `json:"per_class"`
	Known           map[string]int    `json:"known"`
	KnownWhat       map[string]string `json:"known_what"`
	Violations      []replayFile      `json:"violations"`
	Samples         []json.RawMessage `json:"samples"`
	HarnessErr      string            `json:"harness_err"`
	BubbleDeadlocks int               `json:"bubble_deadlocks"`
	KindCount       map[string]int64  `json:"kind_count"`
	Extra           map[string]int64  `json:"extra"`
	Survey          map[string]int    `json:"survey"`
	SurveyMsg       map[string]string `json:"survey_msg"`
}

func die2(format string, a ...interface{}) {
	fmt.Fprintf(os.Stderr, "check: "+format+"\n", a...)
	os.Exit(2)
}

func envInt(name string, def int) int {
	if v := os.Getenv(name); v != "" {
		if n, err := strconv.Atoi(v); err == nil {
			return n
		}
	}
	return def
}

func main() {
	args := os.Args[1:]
	if len(args) < 1 {
		die2("usage: check <ID> [--tier quick|thorough] [--replay FILE]")
	}
	id := args[0]
	tier := os.Getenv("VERIF_TIER")
	replay := ""
	for i := 1; i < len(args); i++ {
		switch args[i] {
		case "--tier":
			i++
			tier = args[i]
		case "--replay":
			i++
			replay = args[i]
		}
	}
	if tier == "" {
		tier = "quick"
	}
	switch id {
	case "selftest-determinism":
		os.Exit(selftestDeterminism())
	case "selftest-transparency":
		os.Exit(selftestTransparency())
	}
	cfg, ok := props[id]
	if !ok {
		die2("unknown property %s", id)
	}
	seed := uint64(1)
	if v := os.Getenv("VERIF_SEED"); v != "" {
		if n, err := strconv.ParseUint(v, 10, 64); err == nil {
			seed = n
		} else if n, err := strconv.ParseInt(v, 10, 64); err == nil {
			seed = uint64(n)
		}
	}
	start := time.Now()
	// development aid: VERIF_REUSE=<dir> keeps (and reuses) a built scratch directory
	if reuse := os.Getenv("VERIF_REUSE"); reuse != "" {
		noBuild = fileExists(filepath.Join(reuse, "worker.test")) && os.Getenv("VERIF_REBUILD") == ""
		os.MkdirAll(reuse, 0o755)
		os.Exit(run(id, cfg, tier, seed, replay, reuse, start))
	}
	// a fixed scratch path per property lets the Go build cache reuse the instrumented packages
	// between runs; fall back to a unique one when it is taken (concurrent run or stale leftovers)
	scratch := "/tmp/rosim-" + id
	if err := os.Mkdir(scratch, 0o755); err != nil {
		var err2 error
		scratch, err2 = os.MkdirTemp("/tmp", "rosim-"+id+"-")
		if err2 != nil {
			die2("mktemp: %v", err2)
		}
	}
	defer os.RemoveAll(scratch)
	code := run(id, cfg, tier, seed, replay, scratch, start)
	os.RemoveAll(scratch)
	os.Exit(code)
}

var noBuild bool

func fileExists(p string) bool { _, err := os.Stat(p); return err == nil }

func build(scratch string, race bool) {
	if noBuild {
		return
	}
	a := []string{scratch}
	if race {
		a = append(a, "race")
	}
	cmd := exec.Command(verif+"/scripts/build_worker.sh", a...)
	cmd.Stdout = os.Stderr
	cmd.Stderr = os.Stderr
	if err := cmd.Run(); err != nil {
		os.RemoveAll(scratch)
		die2("build failed: %v", err)
	}
}

func workerEnv(extra ...string) []string {
	env := os.Environ()
	env = append(env, "GOTRACEBACK=single")
	return append(env, extra...)
}

func run(id string, cfg propCfg, tier string, seed uint64, replay, scratch string, start time.Time) int {
	build(scratch, cfg.Race)
	bin := filepath.Join(scratch, "worker.test")
	known := verif + "/known_findings.json"
	if v := os.Getenv("VERIF_KNOWN_FILE"); v != "" {
		known = v // development aid: triage with a reduced list
	}
	if replay != "" {
		return doReplay(bin, id, replay, true)
	}
	budget := cfg.QuickS
	if tier == "thorough" {
		budget = cfg.ThoroughS
	}
	budget = envInt("VERIF_BUDGET_S", budget)
	nw := envInt("VERIF_WORKERS", 16)
	var wg sync.WaitGroup
	outs := make([]*workerOut, nw)
	errs := make([]error, nw)
	logs := make([]string, nw)
	for w := 0; w < nw; w++ {
		w := w
		wg.Add(1)
		go func() {
			defer wg.Done()
			outPath := filepath.Join(scratch, fmt.Sprintf("out-%d.json", w))
			cmd := exec.Command(bin, "-test.run", "^TestWorker$", "-test.timeout", "12h")
			cmd.Dir = scratch
			cmd.Env = workerEnv("VERIF_PROP="+id, "VERIF_TIER="+tier, fmt.Sprintf("VERIF_SEED=%d", seed), fmt.Sprintf("VERIF_WORKER=%d", w), fmt.Sprintf("VERIF_NWORKERS=%d", nw), fmt.Sprintf("VERIF_BUDGET_S=%d", budget), "VERIF_OUT="+outPath, "VERIF_KNOWN="+known, "VERIF_MODE=explore")
			if cfg.Race {
				rl := filepath.Join(scratch, fmt.Sprintf("race-%d", w))
				// one P per worker: the parked actors poll a plain word (no happens-before edge) and
				// would otherwise burn every core; the detector does not need real parallelism
				cmd.Env = append(cmd.Env, "GORACE=halt_on_error=0 log_path="+rl, "VERIF_RACELOG="+rl, "GOMAXPROCS=1")
			}
			b, err := cmd.CombinedOutput()
			logs[w] = string(b)
			if err != nil {
				// a -race test binary exits 1 when the detector reported anything (harness memory included):
				// the worker's own output file is what counts
				if ee, ok := err.(*exec.ExitError); !(cfg.Race && ok && ee.ExitCode() == 1 && fileExists(outPath)) {
					errs[w] = err
					return
				}
			}
			data, err := os.ReadFile(outPath)
			if err != nil {
				errs[w] = err
				return
			}
			var o workerOut
			if err := json.Unmarshal(data, &o); err != nil {
				errs[w] = err
				return
			}
			outs[w] = &o
		}()
	}
	wg.Wait()
	for w := 0; w < nw; w++ {
		if errs[w] != nil {
			fmt.Fprintf(os.Stderr, "worker %d failed: %v\n%s\n", w, errs[w], tail(logs[w], 4000))
			return 2
		}
		if outs[w].HarnessErr != "" {
			fmt.Fprintf(os.Stderr, "worker %d harness error: %s\n", w, outs[w].HarnessErr)
			return 2
		}
	}
	// merge
	tot := &workerOut{Probes: map[string]int{}, Faults: map[string]int{}, PerFamily: map[string]int{}, PerClass: map[string]int{}, Known: map[string]int{}, KnownWhat: map[string]string{}, KindCount: map[string]int64{}, Extra: map[string]int64{}}
	distinct := map[string]bool{}
	var viols []replayFile
	seenFP := map[string]bool{}
	for _, o := range outs {
		tot.Runs += o.Runs
		tot.Capped += o.Capped
		tot.Deadlocks += o.Deadlocks
		tot.SimSeconds += o.SimSeconds
		tot.Steps += o.Steps
		tot.Decisions += o.Decisions
		tot.Switches += o.Switches
		tot.BubbleDeadlocks += o.BubbleDeadlocks
		for _, k := range o.DistinctKeys {
			distinct[k] = true
		}
		for k, v := range o.Probes {
			tot.Probes[k] += v
		}
		for k, v := range o.Faults {
			tot.Faults[k] += v
		}
		for k, v := range o.PerFamily {
			tot.PerFamily[k] += v
		}
		for k, v := range o.PerClass {
			tot.PerClass[k] += v
		}
		for k, v := range o.Known {
			tot.Known[k] += v
			tot.KnownWhat[k] = o.KnownWhat[k]
		}
		for k, v := range o.KindCount {
			tot.KindCount[k] += v
		}
		for k, v := range o.Extra {
			tot.Extra[k] += v
		}
		if len(tot.Samples) < 3 {
			tot.Samples = append(tot.Samples, o.Samples...)
		}
		for _, v := range o.Violations {
			if !seenFP[v.Viol.FP] {
				seenFP[v.Viol.FP] = true
				viols = append(viols, v)
			}
		}
	}
	if len(tot.Samples) > 3 {
		tot.Samples = tot.Samples[:3]
	}
	if os.Getenv("VERIF_SURVEY") != "" {
		// development aid: list every violation fingerprint with a count and one example (no minimisation)
		sv, sm := map[string]int{}, map[string]string{}
		for _, o := range outs {
			for k, v := range o.Survey {
				sv[k] += v
				if _, ok := sm[k]; !ok {
					sm[k] = o.SurveyMsg[k]
				}
			}
		}
		keys := make([]string, 0, len(sv))
		for k := range sv {
			keys = append(keys, k)
		}
		sort.Strings(keys)
		for _, k := range keys {
			fmt.Printf("SURVEY %6d %s\n        %s\n", sv[k], k, sm[k])
		}
		fmt.Printf("survey: runs=%d distinct fingerprints=%d known=%v\n", tot.Runs, len(keys), tot.Known)
		return 0
	}
	// quick determinism spot check: the same seeds in two fresh processes at different GOMAXPROCS
	if !cfg.Race {
		if msg := spotDeterminism(bin, id, seed, scratch); msg != "" {
			fmt.Fprintln(os.Stderr, "check: determinism spot check failed:", msg)
			return 2
		}
	}
	// known findings
	kids := make([]string, 0, len(tot.Known))
	for k := range tot.Known {
		kids = append(kids, k)
	}
	sort.Strings(kids)
	for _, k := range kids {
		fmt.Printf("KNOWN-FINDING: property=%s %s: %s (seen %d times)\n", id, k, tot.KnownWhat[k], tot.Known[k])
	}
	// violations: replay each in a fresh process before reporting
	exit := 0
	sort.Slice(viols, func(i, j int) bool { return viols[i].Viol.FP < viols[j].Viol.FP })
	reported := 0
	unreplayed := 0
	for n, v := range viols {
		if reported >= 5 {
			break
		}
		if v.Note != "" {
			fmt.Fprintf(os.Stderr, "check: violation %s could not be replayed by the worker that found it: %s\n", v.Viol.FP, v.Note)
			return 2
		}
		os.MkdirAll(verif+"/replays", 0o755)
		path := fmt.Sprintf("%s/replays/%s-%d-%d.json", verif, id, seed, n)
		b, _ := json.MarshalIndent(v, "", " ")
		if err := os.WriteFile(path, b, 0o644); err != nil {
			die2("write replay: %v", err)
		}
		if rc := doReplay(bin, id, path, false); rc != 1 {
			if cfg.Race {
				// the schedule replays exactly, but whether the detector still holds the earlier access in
				// its bounded shadow history can differ between processes: a report that does not come
				// back is not reported (never a violation that cannot be replayed)
				fmt.Fprintf(os.Stderr, "check: race report %s did not come back when replayed in a fresh process: not reported\n", v.Viol.FP)
				os.Remove(path)
				unreplayed++
				continue
			}
			fmt.Fprintf(os.Stderr, "check: violation %s did not reproduce exactly in a fresh process (nondeterminism in harness)\n", v.Viol.FP)
			return 2
		}
		fmt.Printf("VIOLATION property=%s replay=%s\n", v.Viol.Prop, path)
		fmt.Printf("  fingerprint: %s\n  %s\n", v.Viol.FP, v.Viol.Msg)
		reported++
		exit = 1
	}
	tot.Extra["race_reports_not_reproduced_on_replay"] += int64(unreplayed)
	wall := time.Since(start).Seconds()
	writeEvidence(id, cfg, tier, seed, tot, len(distinct), len(viols), wall, nw, budget)
	fmt.Printf("check %s tier=%s seed=%d: runs=%d distinct=%d capped=%d known=%d violations=%d wall=%.1fs\n", id, tier, seed, tot.Runs, len(distinct), tot.Capped, len(tot.Known), len(viols), wall)
	return exit
}

func tail(s string, n int) string {
	if len(s) > n {
		return s[len(s)-n:]
	}
	return s
}

func doReplay(bin, id, path string, verbose bool) int {
	out := path + ".result"
	defer os.Remove(out)
	cmd := exec.Command(bin, "-test.run", "^TestWorker$", "-test.timeout", "1h")
	cmd.Dir = filepath.Dir(bin)
	env := []string{"VERIF_PROP=" + id, "VERIF_MODE=replay", "VERIF_REPLAY=" + path, "VERIF_OUT=" + out}
	if verbose {
		env = append(env, "VERIF_TRACE=1")
	}
	race := props[id].Race
	if race {
		rl := path + ".race"
		env = append(env, "GORACE=halt_on_error=0 log_path="+rl, "VERIF_RACELOG="+rl)
		defer func() {
			m, _ := filepath.Glob(rl + ".*")
			for _, f := range m {
				os.Remove(f)
			}
		}()
	}
	cmd.Env = workerEnv(env...)
	b, err := cmd.CombinedOutput()
	if err != nil {
		if ee, ok := err.(*exec.ExitError); !(race && ok && ee.ExitCode() == 1 && fileExists(out)) {
			fmt.Fprintf(os.Stderr, "replay process failed: %v\n%s\n", err, tail(string(b), 3000))
			return 2
		}
	}
	data, err := os.ReadFile(out)
	if err != nil {
		return 2
	}
	var r struct {
		Reproduced bool        `json:"reproduced"`
		SameLog    bool        `json:"same_log"`
		Viols      []violation `json:"violations"`
		HarnessErr string      `json:"harness_err"`
		Trace      []string    `json:"trace"`
	}
	if err := json.Unmarshal(data, &r); err != nil {
		return 2
	}
	if r.HarnessErr != "" {
		fmt.Fprintln(os.Stderr, "replay: harness error:", r.HarnessErr)
		return 2
	}
	if verbose {
		for _, l := range r.Trace {
			fmt.Println(l)
		}
		for _, v := range r.Viols {
			fmt.Printf("violation: %s\n  %s\n", v.FP, v.Msg)
		}
		fmt.Printf("reproduced=%v same_event_log=%v\n", r.Reproduced, r.SameLog)
		if r.Reproduced {
			fmt.Printf("VIOLATION property=%s replay=%s\n", id, path)
		}
	}
	if r.Reproduced && r.SameLog {
		return 1
	}
	if r.Reproduced {
		return 3
	}
	return 0
}

func spotDeterminism(bin, id string, seed uint64, scratch string) string {
	var outs [2]string
	for i, procs := range []string{"1", "8"} {
		p := filepath.Join(scratch, fmt.Sprintf("det-%d.txt", i))
		cmd := exec.Command(bin, "-test.run", "^TestWorker$", "-test.timeout", "1h")
		cmd.Dir = scratch
		cmd.Env = workerEnv("VERIF_PROP="+id, "VERIF_MODE=determinism", fmt.Sprintf("VERIF_SEED=%d", seed), "VERIF_MAXRUNS=6", "VERIF_OUT="+p, "GOMAXPROCS="+procs)
		if b, err := cmd.CombinedOutput(); err != nil {
			return fmt.Sprintf("process failed: %v %s", err, tail(string(b), 2000))
		}
		b, _ := os.ReadFile(p)
		outs[i] = string(b)
	}
	if outs[0] != outs[1] {
		a, b := strings.Split(outs[0], "\n"), strings.Split(outs[1], "\n")
		for i := range a {
			if i >= len(b) || a[i] != b[i] {
				return fmt.Sprintf("first divergence: %q vs %q", a[i], safeIdx(b, i))
			}
		}
		return "outputs differ"
	}
	if strings.Contains(outs[0], "herr=true") {
		return "harness error during determinism runs"
	}
	return ""
}

func safeIdx(a []string, i int) string {
	if i < len(a) {
		return a[i]
	}
	return ""
}

func writeEvidence(id string, cfg propCfg, tier string, seed uint64, tot *workerOut, distinct, nviol int, wall float64, nw, budget int) {
	samples := make([]interface{}, 0, len(tot.Samples))
	for _, s := range tot.Samples {
		var v interface{}
		json.Unmarshal(s, &v)
		samples = append(samples, v)
	}
	if len(samples) == 0 {
		samples = append(samples, "no sample recorded")
	}
	type kv struct {
		K string
		V int
	}
	var classes []kv
	for k, v := range tot.PerClass {
		classes = append(classes, kv{k, v})
	}
	sort.Slice(classes, func(i, j int) bool { return classes[i].V > classes[j].V || (classes[i].V == classes[j].V && classes[i].K < classes[j].K) })
	top := map[string]int{}
	for i, c := range classes {
		if i >= 25 {
			break
		}
		top[c.K] = c.V
	}
	runsPerHour := 0.0
	if wall > 0 {
		runsPerHour = float64(tot.Runs) / wall * 3600
	}
	cov := map[string]interface{}{
		"evaluations":          tot.Runs,
		"distinct_nontrivial":  distinct,
		"rule":                 cfg.Rule,
		"samples":              samples,
		"runs_per_hour":        runsPerHour,
		"seeds":                fmt.Sprintf("VERIF_SEED=%d -> per-run seeds splitmix(seed, worker 0..%d, run index)", seed, nw-1),
		"workers":              nw,
		"budget_s_per_worker":  budget,
		"simulated_seconds":    tot.SimSeconds,
		"scheduling_decisions": tot.Decisions,
		"scheduling_points":    tot.Steps,
		"context_switches":     tot.Switches,
		"capped_runs":          tot.Capped,
		"deadlock_reports":     tot.Deadlocks,
		"faults_fired":         tot.Faults,
		"probes":               tot.Probes,
		"runs_per_family":      tot.PerFamily,
		"scenario_classes":     len(tot.PerClass),
		"top_scenario_classes": top,
		"scheduling_point_kinds": tot.KindCount,
		"known_findings_seen":  tot.Known,
		"extra":                tot.Extra,
		"components":           map[string]string{"real": "samber/ro core + plugin under test from the working tree (instrumented copy), samber/lo, Go channels/timers/atomics, std context", "stub": "scheduler token, mutex blocking, select choice, sync.Map order, clock origin, sources/observers/readers/writers (harness actors)"},
	}
	ev := map[string]interface{}{
		"property_id": id,
		"tier":        tier,
		"seed":        seed,
		"level":       cfg.Level,
		"coverage":    cov,
		"assumptions": append(append([]string{}, commonAssume...), cfg.Assume...),
		"wall_s":      wall,
		"violations":  nviol,
	}
	b, _ := json.MarshalIndent(ev, "", " ")
	evDir := verif + "/evidence"
	if r := os.Getenv("VERIF_REPO"); r != "" && r != "/repo" {
		// development aid (sensitivity runs against a patched scratch copy): committed evidence only ever
		// describes /repo itself
		evDir = r + "/.verif-evidence"
	}
	os.MkdirAll(evDir, 0o755)
	if err := os.WriteFile(fmt.Sprintf("%s/%s.json", evDir, id), b, 0o644); err != nil {
		die2("write evidence: %v", err)
	}
}
