package main

import (
	"fmt"
	"os"
	"os/exec"
	"path/filepath"
	"strings"
	"sync"
)

// selftestDeterminism: many seeds x every family, each in 3 fresh processes at GOMAXPROCS 1/4/16; the
// event-log hashes, decision-list hashes, step counts and verdicts must be identical. Also scans the
// instrumented copy for constructs that escaped the rewrite.
func selftestDeterminism() int {
	scratch, err := os.MkdirTemp("/tmp", "rosim-det-")
	if err != nil {
		die2("mktemp: %v", err)
	}
	defer os.RemoveAll(scratch)
	build(scratch, false)
	if msg := scanResidual(filepath.Join(scratch, "ro")); msg != "" {
		fmt.Fprintln(os.Stderr, "selftest-determinism: residual nondeterminism sources in the instrumented copy:\n"+msg)
		return 2
	}
	bin := filepath.Join(scratch, "worker.test")
	nseeds := envInt("VERIF_DET_SEEDS", 40)
	runs := envInt("VERIF_DET_RUNS", 12)
	procs := []string{"1", "4", "16"}
	type job struct{ seed, pi int }
	jobs := make(chan job, nseeds*len(procs))
	outs := make([][]string, nseeds)
	for i := range outs {
		outs[i] = make([]string, len(procs))
	}
	var mu sync.Mutex
	failed := ""
	var wg sync.WaitGroup
	for w := 0; w < 16; w++ {
		wg.Add(1)
		go func() {
			defer wg.Done()
			for j := range jobs {
				p := filepath.Join(scratch, fmt.Sprintf("det-%d-%d.txt", j.seed, j.pi))
				cmd := exec.Command(bin, "-test.run", "^TestWorker$", "-test.timeout", "1h")
				cmd.Dir = scratch
				cmd.Env = workerEnv("VERIF_PROP=ALL", "VERIF_MODE=determinism", fmt.Sprintf("VERIF_SEED=%d", 1000+j.seed), fmt.Sprintf("VERIF_MAXRUNS=%d", runs), "VERIF_OUT="+p, "GOMAXPROCS="+procs[j.pi])
				b, err := cmd.CombinedOutput()
				mu.Lock()
				if err != nil && failed == "" {
					failed = fmt.Sprintf("seed %d GOMAXPROCS=%s: %v\n%s", j.seed, procs[j.pi], err, tail(string(b), 2000))
				}
				data, _ := os.ReadFile(p)
				outs[j.seed][j.pi] = string(data)
				mu.Unlock()
				os.Remove(p)
			}
		}()
	}
	for s := 0; s < nseeds; s++ {
		for pi := range procs {
			jobs <- job{s, pi}
		}
	}
	close(jobs)
	wg.Wait()
	if failed != "" {
		fmt.Fprintln(os.Stderr, "selftest-determinism: process failure:", failed)
		return 2
	}
	total := 0
	for s := 0; s < nseeds; s++ {
		lines := strings.Split(outs[s][0], "\n")
		total += len(lines) - 1
		if strings.Contains(outs[s][0], "herr=true") {
			fmt.Fprintf(os.Stderr, "selftest-determinism: harness error in seed %d\n", s)
			return 2
		}
		for pi := 1; pi < len(procs); pi++ {
			if outs[s][pi] != outs[s][0] {
				other := strings.Split(outs[s][pi], "\n")
				for i := range lines {
					if i >= len(other) || lines[i] != other[i] {
						fmt.Fprintf(os.Stderr, "selftest-determinism: DIVERGENCE seed=%d GOMAXPROCS %s vs %s:\n  %s\n  %s\n", 1000+s, procs[0], procs[pi], lines[i], safeIdx(other, i))
						break
					}
				}
				return 2
			}
		}
	}
	fmt.Printf("selftest-determinism: %d seeds x %d processes, %d runs each compared: identical event logs, decision lists and verdicts\n", nseeds, len(procs), total)
	return 0
}

// scanResidual looks for raw constructs in the instrumented (non-test) sources of the core.
func scanResidual(dir string) string {
	var bad []string
	files, _ := filepath.Glob(filepath.Join(dir, "*.go"))
	more, _ := filepath.Glob(filepath.Join(dir, "internal", "*", "*.go"))
	files = append(files, more...)
	for _, f := range files {
		if strings.HasSuffix(f, "_test.go") {
			continue
		}
		b, err := os.ReadFile(f)
		if err != nil {
			continue
		}
		if strings.Contains(string(b), "//go:build !go1.") {
			continue // excluded by its build constraint under the toolchains in use: never compiled
		}
		for i, line := range strings.Split(string(b), "\n") {
			t := strings.TrimSpace(line)
			if strings.HasPrefix(t, "//") {
				continue
			}
			switch {
			case strings.HasPrefix(t, "go ") || strings.Contains(t, "\tgo func"):
				bad = append(bad, fmt.Sprintf("%s:%d bare go statement: %s", f, i+1, t))
			case strings.HasPrefix(t, "select {"):
				bad = append(bad, fmt.Sprintf("%s:%d select: %s", f, i+1, t))
			case strings.Contains(t, "<-") && !strings.Contains(t, "chan") && !strings.Contains(t, "\""):
				bad = append(bad, fmt.Sprintf("%s:%d raw channel operation: %s", f, i+1, t))
			case strings.HasPrefix(t, "close("):
				bad = append(bad, fmt.Sprintf("%s:%d builtin close: %s", f, i+1, t))
			case t == `"sync"` || t == `"sync/atomic"`:
				bad = append(bad, fmt.Sprintf("%s:%d import of %s", f, i+1, t))
			case strings.Contains(t, ".Range(") && !strings.Contains(string(b), "simsync"):
				bad = append(bad, fmt.Sprintf("%s:%d Range on an un-shimmed map type: %s", f, i+1, t))
			}
		}
	}
	return strings.Join(bad, "\n")
}

// selftestTransparency: ro's own test suite on the instrumented copy with the shims in pass-through mode.
func selftestTransparency() int {
	scratch, err := os.MkdirTemp("/tmp", "rosim-transp-")
	if err != nil {
		die2("mktemp: %v", err)
	}
	defer os.RemoveAll(scratch)
	cmd := exec.Command(verif+"/scripts/transparency.sh", scratch)
	cmd.Stdout = os.Stdout
	cmd.Stderr = os.Stderr
	if err := cmd.Run(); err != nil {
		if ee, ok := err.(*exec.ExitError); ok {
			return ee.ExitCode()
		}
		return 2
	}
	return 0
}
