package roverif

import (
	"fmt"
	"strconv"
	"strings"

	"github.com/samber/ro"
)

// genIllegalScript: a script over {N,E,C} that may continue after its terminal.
func genIllegalScript(g *Gen, base int) []Step {
	n := g.Range(0, 8)
	if g.Tier == "thorough" {
		n = g.Range(0, 12)
	}
	var sc []Step
	v := base
	for i := 0; i < n; i++ {
		switch x := g.Intn(10); {
		case x < 6:
			sc = append(sc, Step{K: "N", V: v})
			v++
		case x < 8:
			sc = append(sc, Step{K: "C"})
		default:
			sc = append(sc, Step{K: "E", V: g.Intn(4)})
		}
	}
	return sc
}

func noHotNoAux(d *StageDef) bool { return !d.Hot }

func init() {
	Register(&Family{
		Name:   "C01.chain",
		Props:  []string{"C01", "C07"},
		Weight: 5,
		Gen: func(g *Gen) *Scn {
			sc := &Scn{Family: "C01.chain"}
			mode := g.Pick("sync", "sync", "async", "timed")
			ctor := g.Pick("unsafe", "safe", "default", "eventually")
			script := genIllegalScript(g, 10)
			if mode == "timed" {
				for i := range script {
					script[i].Gap = g.PickInt(0, 1, 2)
				}
			}
			if mode == "sync" && g.Bool(0.3) {
				// the subscribe function panics somewhere in (or after) its script: before a terminal the
				// library turns that into the Error notification, after one it is a late notification
				at := g.Range(0, len(script))
				script = append(script[:at:at], append([]Step{{K: "P", V: 7}}, script[at:]...)...)
			}
			sc.Sources = []SrcSpec{{Mode: mode, Ctor: ctor, CtorAPI: g.PickInt(0, 0, 1, 2), Script: script}}
			n := g.PickInt(0, 1, 1, 1, 2, 3, 4, 5)
			sc.Sub = "chain"
			if n == 0 {
				sc.Sub = "bare"
			}
			genChain(g, sc, n, nvalues(script), g.Pick("sync", "async"), noHotNoAux)
			sc.SetInt("raw", g.PickInt(0, 0, 1, 1, 2, 3))
			return sc
		},
		Run: func(e *Env) {
			o, srcs := e.Pipeline()
			rec := e.NewRec("o")
			h := e.Subscribe(o, rec.Obs(), nil)
			e.Settle()
			FeedAll(srcs)
			e.SettleFor(300 * Unit)
			_ = h
			checkGrammar(e, rec)
			if e.Sc.Sub == "bare" {
				checkLate(e, srcs[0], []*Rec{rec}, true)
				// a subscribe function that panics after it has terminated the stream: nobody can receive
				// that failure as a notification, so it surfaces - once - through a hook (as a dropped Error
				// notification or as an unhandled error), with its cause
				script := e.Sc.Sources[0].Script
				term, p := -1, -1
				for i, st := range script {
					if st.K != "N" && st.K != "P" && term < 0 {
						term = i
					}
					if st.K == "P" && p < 0 {
						p = i
					}
				}
				if e.Sc.Sources[0].Mode == "sync" && term >= 0 && p > term && !e.K.Capped() {
					n := 0
					for _, d := range append(append([]string(nil), e.Dropped...), e.Unhandled...) {
						if strings.Contains(d, ScriptError(script[p].V).Error()) {
							n++
						}
					}
					if n != 1 {
						msg := fmt.Sprintf("the subscribe function emitted %s and then panicked with %v: that failure reached the hooks %d times (want exactly 1; dropped=%v unhandled=%v)", script[term].K, ScriptError(script[p].V), n, e.Dropped, e.Unhandled)
						e.Violate("C07", "late-failure-unreported", msg)
						e.Violate("C01", "late-not-dropped-once", msg)
					}
				}
			}
		},
	})

	Register(&Family{
		Name:   "C01.concurrent",
		Props:  []string{"C01", "C13"},
		Weight: 4,
		Gen: func(g *Gen) *Scn {
			sc := &Scn{Family: "C01.concurrent"}
			ctor := g.Pick("safe", "default", "serialize", "eventually")
			sc.Sub = ctor
			c := ctor
			if ctor == "serialize" {
				c = "unsafe"
				sc.Stages = append(sc.Stages, StageSpec{Op: "Serialize"})
			}
			script := genIllegalScript(g, 10)
			sc.Sources = []SrcSpec{{Mode: "async", Ctor: c, CtorAPI: g.PickInt(0, 0, 1, 2), Producers: g.Range(2, 4), Script: script}}
			n := g.PickInt(0, 0, 1, 2, 3)
			if n == 0 && ctor != "serialize" {
				sc.Sub = ctor + "-bare"
			}
			genChain(g, sc, n, nvalues(script), "sync", noHotNoAux)
			sc.SetInt("raw", g.PickInt(0, 0, 1, 1, 2, 3))
			return sc
		},
		Run: func(e *Env) {
			o, srcs := e.Pipeline()
			rec := e.NewRec("o")
			e.Subscribe(o, rec.Obs(), nil)
			e.SettleFor(300 * Unit)
			checkGrammar(e, rec)
			if len(e.Sc.Stages) == 0 {
				checkLate(e, srcs[0], []*Rec{rec}, true)
			}
		},
	})

	Register(&Family{
		Name:   "C01.subject",
		Props:  []string{"C01", "C13"},
		Weight: 4,
		Gen: func(g *Gen) *Scn {
			sc := &Scn{Family: "C01.subject"}
			sc.Sub = subjectKinds[g.Intn(len(subjectKinds))]
			sc.SetInt("buf", g.Range(1, 3))
			sc.SetInt("observers", g.Range(1, 2))
			sc.SetInt("late", g.Intn(2))
			sc.Sources = []SrcSpec{{Mode: "hot", Producers: g.Range(1, 4), Script: genIllegalScript(g, 10)}}
			n := g.PickInt(0, 0, 0, 1, 2)
			genChain(g, sc, n, 4, "sync", noHotNoAux)
			sc.SetInt("raw", g.PickInt(0, 0, 1, 1, 2, 3))
			return sc
		},
		Run: func(e *Env) {
			sc := e.Sc
			s := e.NewSrc(sc.Sources[0])
			s.Subject = newSubject(sc.Sub, sc.Int("buf", 2))
			// auxiliary sources of the chain
			var aux []*Src
			for _, sp := range sc.Sources[1:] {
				aux = append(aux, e.NewSrc(sp))
			}
			auxOf := func(i int) ro.Observable[int] {
				if i >= 1 && i-1 < len(aux) {
					return aux[i-1].Obs()
				}
				return ro.Empty[int]()
			}
			nobs := sc.Int("observers", 1)
			if sc.Sub == "unicast" {
				nobs = 1
			}
			var recs []*Rec
			for i := 0; i < nobs; i++ {
				rec := e.NewRec(fmt.Sprintf("o%d", i))
				recs = append(recs, rec)
				e.Subscribe(e.BuildChain(s.Obs(), sc.Stages, auxOf), rec.Obs(), nil)
			}
			e.Settle()
			s.Feed()
			if sc.Int("late", 0) == 1 && sc.Sub != "unicast" {
				rec := e.NewRec("late")
				recs = append(recs, rec)
				e.Subscribe(e.BuildChain(s.Obs(), sc.Stages, auxOf), rec.Obs(), nil)
			}
			e.SettleFor(300 * Unit)
			if len(sc.Stages) == 0 && sc.Sub != "unicast" && !e.K.Capped() {
				// one more observer arrives when everything is over: what it is handed as the subject's
				// terminal is the terminal the subject really ended with, not a later (discarded) one
				post := e.NewRec("post")
				e.Subscribe(s.Obs(), post.Obs(), nil)
				e.Settle()
				checkGrammar(e, post)
				var first *Ev
				for _, r := range recs {
					for i := range r.Events {
						if r.Events[i].K != 'N' && first == nil {
							first = &r.Events[i]
						}
					}
				}
				for i := range post.Events {
					pe := post.Events[i]
					if pe.K != 'N' && first != nil && (pe.K != first.K || pe.Err != first.Err) {
						e.Violate("C01", "late-terminal-replayed", fmt.Sprintf("%s subject: the observers present at the time received %s as the terminal notification; an observer subscribing afterwards is handed %s: a notification emitted after the terminal was kept and delivered", sc.Sub, first.String(), pe.String()))
					}
				}
			}
			for _, r := range recs {
				checkGrammar(e, r)
			}
			if len(sc.Stages) == 0 {
				checkLate(e, s, recs, sc.Sub == "publish" || sc.Sub == "behavior")
			}
		},
	})
}

func checkGrammar(e *Env, rec *Rec) {
	if msg := rec.GrammarError(); msg != "" {
		e.Violate("C01", "grammar", fmt.Sprintf("observer %s: %s", rec.Name, msg))
	}
}

// checkLate: a notification whose producer call was invoked after some terminal call had returned is
// never delivered; for bare observables/subjects it reaches the dropped hook exactly once, and every
// call is either delivered or dropped (conservation) when `conserve` is set.
func checkLate(e *Env, s *Src, recs []*Rec, conserve bool) {
	termRet := -1
	for _, c := range s.Calls {
		if c.Step.K != "N" && c.Return > 0 && c.Panic == nil {
			if termRet < 0 || c.Return < termRet {
				termRet = c.Return
			}
		}
	}
	droppedNext, droppedE, droppedC := parseDropped(e.Dropped)
	droppedCount := map[string]int{}
	for _, d := range droppedNext {
		droppedCount[d]++
	}
	delivered := map[int]int{}
	for _, r := range recs {
		for _, v := range r.Values() {
			delivered[v]++
		}
	}
	lateN, lateT := 0, 0
	if termRet >= 0 {
		for _, c := range s.Calls {
			if c.Invoke <= termRet || c.Return == 0 {
				continue
			}
			if c.Step.K == "N" {
				lateN++
				if delivered[c.Step.V] > 0 && uniqueValue(s, c.Step.V) {
					e.Violate("C01", "late-delivered", fmt.Sprintf("value %d was delivered although its Next call began at step %d, after a terminal call had returned at step %d", c.Step.V, c.Invoke, termRet))
				}
				if uniqueValue(s, c.Step.V) && droppedCount[strconv.Itoa(c.Step.V)] != 1 && e.Sc.Sub != "replay" && e.Sc.Sub != "unicast" {
					e.Violate("C01", "late-not-dropped-once", fmt.Sprintf("late Next(%d) reached the dropped-notification hook %d times (want 1); dropped=%v", c.Step.V, droppedCount[strconv.Itoa(c.Step.V)], e.Dropped))
				}
			} else {
				lateT++
			}
		}
		if lateT > 0 {
			e.Probe("late-terminal")
			if droppedE+droppedC < lateT {
				e.Violate("C01", "late-not-dropped-once", fmt.Sprintf("%d late terminal calls but only %d terminal notifications reached the dropped hook", lateT, droppedE+droppedC))
			}
		}
		if lateN > 0 {
			e.Probe("late-next")
		}
	}
	_ = conserve
}

func uniqueValue(s *Src, v int) bool {
	n := 0
	for _, c := range s.Calls {
		if c.Step.K == "N" && c.Step.V == v {
			n++
		}
	}
	return n == 1
}

// C01.reentrant — the contract also holds when the producer is poked again from inside one of the observer's
// own callbacks (an observer that, on completion, triggers something which makes the same producer emit):
// a terminal notification that is being delivered already counts; what is emitted from inside it is late.
// Lock-free constructors only (a blocking one would wait for its own caller).
func init() {
	Register(&Family{
		Name:   "C01.reentrant",
		Props:  []string{"C01"},
		Weight: 1,
		Gen: func(g *Gen) *Scn {
			sc := &Scn{Family: "C01.reentrant"}
			sc.Sub = g.Pick("unsafe", "eventually")
			sc.Sources = []SrcSpec{{Mode: "manual", Ctor: sc.Sub}}
			sc.SetInt("pre", g.Range(0, 2))      // values before the terminal
			sc.SetInt("term", g.Intn(2))         // 0 complete, 1 error
			sc.SetInt("inside", g.PickInt(1, 2)) // 1: emit from inside the terminal callback, 2: terminate from inside a Next callback
			sc.SetInt("stage", g.Intn(3))        // 0 bare, 1 Map, 2 Tap downstream
			sc.SetInt("raw", 1)
			sc.SetInt("seqmode", 1)
			return sc
		},
		Run: func(e *Env) {
			sc := e.Sc
			s := e.NewSrc(sc.Sources[0])
			o := s.Obs()
			switch sc.Int("stage", 0) {
			case 1:
				o = ro.Map(func(x int) int { return x })(o)
			case 2:
				o = ro.Tap(func(int) {}, func(error) {}, func() {})(o)
			}
			rec := e.NewRec("o")
			poked := false
			term := Step{K: "C"}
			if sc.Int("term", 0) == 1 {
				term = Step{K: "E", V: 1}
			}
			if sc.Int("inside", 1) == 1 {
				rec.OnTermHook = func(r *Rec, k byte) {
					if !poked {
						poked = true
						s.Push(Step{K: "N", V: 70})
						s.Push(Step{K: "E", V: 2})
						s.Push(Step{K: "C"})
					}
				}
			} else {
				rec.OnNextHook = func(r *Rec, v int) {
					if !poked {
						poked = true
						s.Push(term)
						s.Push(Step{K: "N", V: 71})
					}
				}
			}
			e.Subscribe(o, rec.Obs(), nil)
			e.Settle()
			done := false
			e.Go("producer", func() {
				for i := 0; i < sc.Int("pre", 0); i++ {
					s.Push(Step{K: "N", V: 10 + i})
				}
				s.Push(term)
				s.Push(Step{K: "N", V: 72})
				done = true
			})
			e.Settle()
			if e.K.Capped() || !done {
				return
			}
			checkGrammar(e, rec)
		},
	})
}
