package roverif

import (
	"context"
	"fmt"
	"time"

	"rosim/simcontext"

	"github.com/samber/ro"
)

// genScript draws a producer script of n values (distinct per source) with an ending.
func genScript(g *Gen, base, maxLen int, endings string, gaps bool) []Step {
	if g.Tier == "thorough" {
		maxLen += 2 // deeper bounds in the thorough tier
	}
	n := g.Range(0, maxLen)
	var sc []Step
	for i := 0; i < n; i++ {
		st := Step{K: "N", V: base + i}
		if gaps {
			st.Gap = g.PickInt(0, 0, 1, 1, 2, 3)
		}
		sc = append(sc, st)
	}
	switch endings[g.Intn(len(endings))] {
	case 'C':
		sc = append(sc, Step{K: "C"})
	case 'E':
		sc = append(sc, Step{K: "E", V: base % 10})
	}
	if gaps && len(sc) > 0 {
		sc[len(sc)-1].Gap = g.PickInt(0, 1, 2)
	}
	return sc
}

var passStages = []string{"StartWith", "TapOnSubscribe", "TapOnFinalize", "Defer", "Catch", "Serialize", "Map", "Tap", "EndWith", "Filter", "Scan", "MaterializeDematerialize", "TakeLast", "DefaultIfEmpty"}

var subjectKinds = []string{"publish", "behavior", "replay", "async", "unicast"}

func newSubject(kind string, buf int) ro.Subject[int] {
	switch kind {
	case "behavior":
		return ro.NewBehaviorSubject(900)
	case "replay":
		return ro.NewReplaySubject[int](buf)
	case "async":
		return ro.NewAsyncSubject[int]()
	case "unicast":
		return ro.NewUnicastSubject[int](buf)
	default:
		return ro.NewPublishSubject[int]()
	}
}

func init() {
	Register(&Family{
		Name:   "C02.multi",
		Props:  []string{"C02", "C13"},
		Weight: 5,
		Gen: func(g *Gen) *Scn {
			sc := &Scn{Family: "C02.multi"}
			name := combOrder[g.Intn(len(combOrder))]
			c := combs[name]
			sc.Sub = name
			k := g.Range(c.Min, c.Max)
			for i := 0; i < k; i++ {
				mode := g.Pick("async", "async", "async", "timed", "hot")
				sc.Sources = append(sc.Sources, SrcSpec{Mode: mode, Script: genScript(g, (i+1)*10, 3, "CCE-", mode == "timed")})
			}
			// 0..2 single-source stages after the combinator, biased to the pass-through ones
			ns := g.PickInt(0, 1, 1, 1, 2)
			for i := 0; i < ns; i++ {
				sc.Stages = append(sc.Stages, StageSpec{Op: passStages[g.Intn(len(passStages))], P: []int{1}})
			}
			sc.SetInt("raw", g.PickInt(0, 0, 1, 1, 2, 3))
			return sc
		},
		Run: func(e *Env) {
			sc := e.Sc
			c := combs[sc.Sub]
			var obs []ro.Observable[int]
			var srcs []*Src
			for _, sp := range sc.Sources {
				s := e.NewSrc(sp)
				srcs = append(srcs, s)
				obs = append(obs, s.Obs())
			}
			o := c.Apply(e, obs)
			o = e.BuildChain(o, sc.Stages, func(i int) ro.Observable[int] { return ro.Empty[int]() })
			rec := e.NewRec("o")
			e.Go("subscriber", func() { o.Subscribe(rec.Obs()) })
			e.Settle()
			for _, s := range srcs {
				s.Feed()
			}
			e.SettleFor(100 * Unit)
			checkNoOverlap(e, rec)
		},
	})

	Register(&Family{
		Name:   "C02.safe",
		Props:  []string{"C02", "C08", "C13"},
		Weight: 2,
		Gen: func(g *Gen) *Scn {
			sc := &Scn{Family: "C02.safe"}
			sc.Sub = g.Pick("safe", "default", "serialize", "eventually")
			ctor := sc.Sub
			if ctor == "serialize" {
				ctor = "unsafe"
				sc.Stages = append(sc.Stages, StageSpec{Op: "Serialize"})
			}
			sc.Sources = []SrcSpec{{Mode: "async", Ctor: ctor, CtorAPI: g.PickInt(0, 0, 1, 2), Producers: g.Range(2, 4), Script: genScript(g, 10, 3, "CE--", false)}}
			if ctor != "unsafe" && g.Bool(0.2) {
				sc.Sources[0].PanicAfterSpawn = true
				sc.Sources[0].Producers = g.Range(1, 2)
			}
			if g.Bool(0.5) {
				sc.Stages = append(sc.Stages, StageSpec{Op: g.Pick("Map", "Tap", "StartWith", "TapOnFinalize", "TapOnSubscribe", "Defer", "Catch", "Scan", "TakeLast"), P: []int{1}})
				if g.Bool(0.5) {
					// ... followed by an operator that keeps state without a lock of its own: it relies on the
					// serialisation the source's constructor promised (what the race detector looks at)
					sc.Stages = append(sc.Stages, StageSpec{Op: g.Pick("Scan", "MapI", "Distinct", "Pairwise", "Skip", "BufferWithCount"), P: []int{2}})
				}
			}
			sc.SetInt("raw", g.PickInt(0, 0, 1, 1, 2, 3))
			return sc
		},
		Run: func(e *Env) {
			sc := e.Sc
			s := e.NewSrc(sc.Sources[0])
			o := e.BuildChain(s.Obs(), sc.Stages, func(i int) ro.Observable[int] { return ro.Empty[int]() })
			rec := e.NewRec("o")
			// C08: these constructors serialise by blocking, they never drop: when a producer's Next returns
			// (no terminal having been issued by anybody yet) its value has been handled by the observer
			identity := sc.Sub != "eventually" // the eventually-safe constructor serialises by dropping
			for _, st := range sc.Stages {
				switch st.Op {
				case "Serialize", "Tap", "StartWith", "TapOnFinalize":
				default:
					identity = false
				}
			}
			termInvoked := false
			s.AfterCall = func(c *ProdCall) {
				if c.Step.K != "N" {
					return
				}
				if termInvoked || !identity || c.Panic != nil || rec.Terminal() != 0 {
					// (a terminal may also come from the subscribe function itself, when it panics)
					return
				}
				for _, ev := range rec.Events {
					if ev.K == 'N' && ev.V == c.Step.V && ev.Exit > 0 {
						return
					}
				}
				e.Violate("C08", "next-returned-before-delivery", fmt.Sprintf("producer %d's Next(%d) returned at step %d but the observer has not handled that value (trace %s): dropped or handed to somebody else", c.Prod, c.Step.V, e.Step(), rec.Trace()))
			}
			s.BeforeCall = func(st Step) {
				if st.K != "N" {
					termInvoked = true
				}
			}
			e.Go("subscriber", func() { o.Subscribe(rec.Obs()) })
			e.SettleFor(100 * Unit)
			checkNoOverlap(e, rec)
		},
	})

	Register(&Family{
		Name:   "C02.subject",
		Props:  []string{"C02", "C13"},
		Weight: 2,
		Gen: func(g *Gen) *Scn {
			sc := &Scn{Family: "C02.subject"}
			sc.Sub = subjectKinds[g.Intn(len(subjectKinds))]
			sc.SetInt("buf", g.Range(1, 3))
			sc.SetInt("observers", g.Range(1, 2))
			sc.SetInt("late", g.Intn(2))
			sc.Sources = []SrcSpec{{Mode: "hot", Producers: g.Range(1, 4), Script: genScript(g, 10, 3, "CE--", false)}}
			if g.Bool(0.4) {
				sc.Stages = append(sc.Stages, StageSpec{Op: g.Pick("Map", "StartWith", "TapOnFinalize", "Tap"), P: []int{1}})
			}
			sc.SetInt("raw", g.PickInt(0, 0, 1, 1, 2, 3))
			return sc
		},
		Run: func(e *Env) {
			sc := e.Sc
			s := e.NewSrc(sc.Sources[0])
			s.Subject = newSubject(sc.Sub, sc.Int("buf", 2))
			nobs := sc.Int("observers", 1)
			if sc.Sub == "unicast" {
				nobs = 1
			}
			var recs []*Rec
			for i := 0; i < nobs; i++ {
				o := e.BuildChain(s.Obs(), sc.Stages, func(i int) ro.Observable[int] { return ro.Empty[int]() })
				rec := e.NewRec(fmt.Sprintf("o%d", i))
				recs = append(recs, rec)
				e.Go("subscriber", func() { o.Subscribe(rec.Obs()) })
			}
			e.Settle()
			s.Feed()
			if sc.Int("late", 0) == 1 && sc.Sub != "unicast" {
				// one more observer arrives while the producers are emitting: the replay it gets and the
				// live values must not overlap in its callbacks either
				o := e.BuildChain(s.Obs(), sc.Stages, func(i int) ro.Observable[int] { return ro.Empty[int]() })
				rec := e.NewRec("late")
				recs = append(recs, rec)
				e.Go("late-subscriber", func() {
					e.Yield()
					o.Subscribe(rec.Obs())
				})
			}
			e.SettleFor(100 * Unit)
			for _, r := range recs {
				checkNoOverlap(e, r)
			}
		},
	})

	Register(&Family{
		Name:   "C02.time",
		Props:  []string{"C02", "C13", "C01"},
		Weight: 3,
		Gen: func(g *Gen) *Scn {
			sc := &Scn{Family: "C02.time"}
			sc.Sub = g.Pick("Delay", "Timeout", "ObserveOn", "SubscribeOn", "SampleTime", "BufferWithTime", "BufferWithTimeOrCount", "MergeInterval", "ThrowOnContextCancel", "DelayEach", "ThrottleTime")
			sc.Sources = []SrcSpec{{Mode: g.Pick("timed", "timed", "async"), Script: genScript(g, 10, 4, "CCE-", true)}}
			sc.SetInt("d", g.PickInt(1, 2, 3))
			if g.Bool(0.5) {
				sc.Stages = append(sc.Stages, StageSpec{Op: passStages[g.Intn(len(passStages))], P: []int{1}})
			}
			sc.SetInt("raw", g.PickInt(0, 0, 1, 1, 2, 3))
			// the subscription context is cancelled while the producers emit: the context watchers of the
			// library (ThrowOnContextCancel, timers bound to the context) are one more concurrent producer
			sc.SetInt("cancel", g.PickInt(-1, -1, 0, 0, 1, 2, 3))
			if sc.Sub == "ThrowOnContextCancel" && g.Bool(0.7) {
				sc.SetInt("cancel", g.PickInt(0, 0, 1, 2))
			}
			return sc
		},
		Run: func(e *Env) {
			sc := e.Sc
			s := e.NewSrc(sc.Sources[0])
			var o ro.Observable[int]
			d := sc.Int("d", 1)
			if sc.Sub == "MergeInterval" {
				iv := ro.Map(func(x int64) int { return 500 + int(x) })(ro.Take[int64](3)(ro.Interval(time.Duration(d) * Unit)))
				o = ro.Merge(s.Obs(), iv)
			} else {
				def := catalog[sc.Sub]
				o = def.Build(e, nil, []int{d, d})(s.Obs())
			}
			o = e.BuildChain(o, sc.Stages, func(i int) ro.Observable[int] { return ro.Empty[int]() })
			rec := e.NewRec("o")
			if at := sc.Int("cancel", -1); at >= 0 {
				ctx, cancel := simcontext.WithCancel(context.Background())
				e.Go("subscriber", func() { o.SubscribeWithContext(ctx, rec.Obs()) })
				e.Go("canceller", func() {
					if at > 0 {
						simSleep(time.Duration(at) * Unit)
					}
					e.Yield()
					cancel()
				})
			} else {
				e.Go("subscriber", func() { o.Subscribe(rec.Obs()) })
			}
			e.SettleFor(100 * Unit)
			checkNoOverlap(e, rec)
			if g := rec.GrammarError(); g != "" {
				e.Violate("C01", "grammar", fmt.Sprintf("%s with the library's own timers and context watchers emitting next to the source: %s (trace %s)", sc.Sub, g, rec.Trace()))
			}
		},
	})
}

func checkNoOverlap(e *Env, rec *Rec) {
	if rec.MaxInside > 1 {
		e.Violate("C02", "overlap", fmt.Sprintf("observer %s had %d callbacks inside at once: %v (trace %s)", rec.Name, rec.MaxInside, rec.Overlap, rec.Trace()))
	}
	for i := 1; i < len(rec.Events); i++ {
		if rec.Events[i].Enter < rec.Events[i-1].Exit {
			e.Violate("C02", "overlap", fmt.Sprintf("observer %s: callback %s entered at step %d before %s exited at step %d", rec.Name, rec.Events[i], rec.Events[i].Enter, rec.Events[i-1], rec.Events[i-1].Exit))
		}
	}
}
