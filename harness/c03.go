package roverif

import (
	"fmt"
	"rosim/simrt"

	"github.com/samber/ro"
)

func chainable(d *StageDef) bool { return !d.Hot }

// expandCuts enumerates every cut position of the scenario (fault enumeration).
func expandCuts(sc *Scn) []*Scn {
	n := 0
	if len(sc.Sources) > 0 {
		n = len(sc.Sources[0].Script)
	}
	var out []*Scn
	for k := -1; k <= n+1; k++ {
		c := cloneScn(sc)
		c.SetInt("cut", k)
		out = append(out, c)
	}
	return out
}

func init() {
	Register(&Family{
		Name:   "C03.chain",
		Props:  []string{"C03", "C13"},
		Weight: 6,
		Gen: func(g *Gen) *Scn {
			sc := &Scn{Family: "C03.chain"}
			mode := g.Pick("sync", "async", "async", "timed", "hot")
			script := genScript(g, 10, 4, "CCE--", mode == "timed")
			sc.Sources = []SrcSpec{{Mode: mode, Script: script}}
			if mode != "hot" && g.Bool(0.15) {
				sc.Sources[0].CtorAPI = 3 // the input is somebody else's implementation of Observable
			}
			n := g.PickInt(1, 1, 1, 2, 2, 3)
			genChain(g, sc, n, nvalues(script), g.Pick("sync", "async", "hot", "timed"), chainable)
			sc.Sub = g.Pick("inside", "outside")
			sc.SetInt("cut", g.Range(-1, len(script)+1))
			if g.Bool(0.25) {
				sc.SetInt("warm", 1)
			}
			if g.Bool(0.3) {
				sc.SetInt("handle", g.Range(1, 2))
				sc.SetInt("viahandle", g.Intn(2))
			}
			return sc
		},
		Expand: expandCuts,
		Run: func(e *Env) {
			runCut(e, "C03")
		},
	})

	Register(&Family{
		Name:   "C03.comb",
		Props:  []string{"C03", "C13"},
		Weight: 3,
		Gen: func(g *Gen) *Scn {
			sc := &Scn{Family: "C03.comb"}
			name := combOrder[g.Intn(len(combOrder))]
			c := combs[name]
			sc.SetInt("k", g.Range(c.Min, c.Max))
			for i := 0; i < sc.Int("k", 2); i++ {
				mode := g.Pick("sync", "async", "async", "timed", "hot")
				sc.Sources = append(sc.Sources, SrcSpec{Mode: mode, Script: genScript(g, (i+1)*10, 3, "CCE--", mode == "timed")})
			}
			sc.Sub = name
			sc.SetInt("outside", g.Intn(2))
			sc.SetInt("cut", g.Range(-1, 5))
			if g.Bool(0.4) {
				genChain(g, sc, 1, 3, "sync", func(d *StageDef) bool { return !d.Hot && d.Aux == 0 })
			}
			return sc
		},
		Run: func(e *Env) {
			runCut(e, "C03")
		},
	})

	Register(&Family{
		// a terminal notification issued by the producer itself - from one of several goroutines, through
		// every constructor flavour - must close the subscription and release the source once the call returned
		Name:   "C03.term",
		Props:  []string{"C03", "C06", "C07", "C13"},
		Weight: 2,
		Gen: func(g *Gen) *Scn {
			sc := &Scn{Family: "C03.term"}
			ctor := g.Pick("unsafe", "safe", "default", "eventually", "eventually")
			sc.Sub = ctor
			prods := 1
			if ctor != "unsafe" {
				prods = g.Range(1, 3)
			}
			sc.Sources = []SrcSpec{{Mode: "async", Ctor: ctor, CtorAPI: g.PickInt(0, 0, 1, 2), Producers: prods, TermFirst: prods > 1 && g.Bool(0.6), Script: genScript(g, 10, 3, "CE", false)}}
			ns := g.PickInt(0, 0, 1, 2)
			for i := 0; i < ns; i++ {
				sc.Stages = append(sc.Stages, StageSpec{Op: g.Pick("Map", "Tap", "Filter", "Scan", "StartWith", "TapOnFinalize", "TakeLast", "DefaultIfEmpty", "MaterializeDematerialize"), P: []int{1}})
			}
			sc.SetInt("slow", g.Intn(2))
			sc.SetInt("raw", g.PickInt(0, 0, 1, 1, 2, 3))
			if g.Bool(0.15) {
				sc.SetInt("nilobs", 1) // Subscribe(nil): nobody listens, the subscription still has to end
			}
			return sc
		},
		Run: func(e *Env) {
			o, srcs := e.Pipeline()
			rec := e.NewRec("o")
			if e.Sc.Int("slow", 0) == 1 {
				// a consumer that yields inside Next keeps the producer lock busy while the others arrive
				rec.OnNextHook = func(r *Rec, v int) { e.Yield(); e.Yield() }
			}
			nilobs := e.Sc.Int("nilobs", 0) == 1
			var obs ro.Observer[int] = rec.Obs()
			if nilobs {
				obs = nil
			}
			h := e.Subscribe(o, obs, nil)
			e.SettleFor(100 * Unit)
			if e.K.Capped() {
				return
			}
			s := srcs[0]
			termReturned := false
			for _, c := range s.Calls {
				if c.Return == 0 {
					return // a producer call is still in flight: nothing to judge yet
				}
				if c.Step.K != "N" && c.Panic == nil {
					termReturned = true
				}
			}
			if !termReturned {
				return
			}
			e.Probe("producer-terminated")
			if !h.Ret() || h.Sub() == nil {
				e.Violate("C03", "subscribe-blocked-after-terminal", "the producer's terminal call returned but Subscribe has not")
				return
			}
			if !h.Sub().IsClosed() {
				e.Violate("C06", "never-closed-after-terminal", fmt.Sprintf("the stream ended by itself (the producer's terminal call returned) but the subscription never reports closed: Wait and Collect would hang (trace %s)", rec.Trace()))
				e.Violate("C03", "open-after-terminal", fmt.Sprintf("every producer call returned, one of them a terminal notification, but the subscription is still open (trace %s)", rec.Trace()))
			}
			if s.Live != 0 || s.Teardowns != 1 {
				e.Violate("C03", "source-not-released", fmt.Sprintf("the producer's terminal call returned but the source teardown ran %d times (live=%d, trace %s)", s.Teardowns, s.Live, rec.Trace()))
			}
			if nilobs {
				return // nothing was recorded: the delivery oracles do not apply
			}
			for _, c := range s.Calls {
				if c.Step.K == "E" && c.Panic == nil && rec.Terminal() == 0 {
					e.Violate("C07", "source-error-lost", fmt.Sprintf("the source's Error call returned (no terminal had been sent before) but the subscriber never received an Error (trace %s)", rec.Trace()))
					break
				}
			}
			if rec.Terminal() == 0 {
				e.Violate("C03", "terminal-lost", fmt.Sprintf("the producer's terminal call returned but the observer never received a terminal notification (trace %s)", rec.Trace()))
			}
		},
	})

	Register(&Family{
		Name:   "C03.race",
		Props:  []string{"C03", "C13"},
		Weight: 3,
		Gen: func(g *Gen) *Scn {
			sc := &Scn{Family: "C03.race"}
			sc.Sub = g.Pick("subscription", "subscriber-safe", "subscriber-unsafe", "subscriber-eventually", "subscriber-default")
			sc.SetInt("teardowns", g.Range(1, 4))
			sc.SetInt("panicmask", g.PickInt(0, 0, 0, 1, 2, 3, 5, 6))
			sc.SetInt("unsub", g.Range(1, 3))
			sc.SetInt("complete", g.Intn(2))
			sc.SetInt("error", g.Intn(2))
			sc.SetInt("add", g.Range(0, 2))
			sc.SetInt("addlate", g.Intn(2))
			// re-entrancy: a teardown touches the subscription that is being disposed
			// (1: teardown 0 adds a follow-up teardown, 2: teardown 0 asks IsClosed, 3: a late-added teardown adds a follow-up)
			sc.SetInt("reent", g.PickInt(0, 0, 1, 2, 3))
			return sc
		},
		Run: runTeardownRace,
	})
}

// runCut: shared executor of C03.chain / C03.comb (teardown + release + leak oracles).
func runCut(e *Env, prop string) {
	sc := e.Sc
	var o ro.Observable[int]
	var srcs []*Src
	if sc.Family == "C03.comb" || sc.Family == "C06.comb" {
		k := sc.Int("k", 2)
		var obs []ro.Observable[int]
		for i := 0; i < k && i < len(sc.Sources); i++ {
			s := e.NewSrc(sc.Sources[i])
			srcs = append(srcs, s)
			obs = append(obs, s.Obs())
		}
		c := combs[sc.Sub]
		if len(obs) < c.Min {
			return
		}
		o = c.Apply(e, obs)
		o = e.BuildChain(o, sc.Stages, func(i int) ro.Observable[int] { return ro.Empty[int]() })
	} else {
		o, srcs = e.Pipeline()
	}
	cut := sc.Int("cut", -1)
	inside := sc.Sub == "inside" && sc.Int("outside", 0) == 0
	rec := e.NewRec("o")
	var h *SubHandle
	var handle ro.Subscriber[int]
	unsubDone := false
	unsubCalled := false
	doUnsub := func() {
		if unsubCalled || h == nil || h.Sub() == nil {
			return
		}
		unsubCalled = true
		func() {
			defer func() {
				if r := recover(); r != nil {
					e.Violate(prop, "unsubscribe-panics", fmt.Sprintf("Unsubscribe panicked: %v", r))
				}
			}()
			if handle != nil && sc.Int("viahandle", 0) == 1 {
				// the caller made the subscriber itself and ends the subscription through it
				handle.Unsubscribe()
			} else {
				h.Sub().Unsubscribe()
			}
		}()
		unsubDone = true
	}
	if cut > 0 && inside {
		hook := func() {
			if len(rec.Events) >= cut {
				doUnsub()
			}
		}
		rec.OnNextHook = func(r *Rec, v int) { hook() }
		rec.OnTermHook = func(r *Rec, k byte) { hook() }
	}
	if sc.Int("warm", 0) == 1 && allCold(sc) {
		// an earlier subscription of the same observable, cut short: whatever it left behind in the
		// operator values must not keep the judged subscription from being released
		rec0 := e.NewRec("warm")
		h0 := e.Subscribe(o, rec0.Observer(), nil)
		e.Settle()
		if h0.Ret() && h0.Sub() != nil {
			func() {
				defer func() { recover() }()
				h0.Sub().Unsubscribe()
			}()
		}
		e.SettleFor(50 * Unit)
		if e.K.Capped() || !h0.Ret() {
			return
		}
		if h0.Sub() != nil && !h0.Sub().IsClosed() {
			// Subscribe was still running at the first attempt (a synchronous source behind a sleeping stage)
			func() {
				defer func() { recover() }()
				h0.Sub().Unsubscribe()
			}()
			e.SettleFor(50 * Unit)
			if e.K.Capped() {
				return
			}
		}
		for _, s := range srcs {
			if s.Live != 0 {
				return // the warm-up itself was not released (judged by the scenarios without warm-up)
			}
		}
	}
	var observer ro.Observer[int] = rec.Observer()
	switch sc.Int("handle", 0) {
	case 1:
		handle = ro.NewUnsafeSubscriber(observer)
		observer = handle
	case 2:
		handle = ro.NewSafeSubscriber(observer)
		observer = handle
	}
	h = e.Subscribe(o, observer, nil)
	if cut >= 0 {
		e.Go("canceller", func() {
			e.WaitFor(func() bool { return h.Ret() && len(rec.Events) >= cut })
			doUnsub()
		})
	}
	e.Settle()
	FeedAll(srcs)
	// "closed": the subscription reports closed, Subscribe returned, and no producer call is still in
	// progress (a source whose own terminal call is in flight is being released by that call).
	inFlight := func() bool {
		for _, s := range srcs {
			for _, c := range s.Calls {
				if c.Return == 0 {
					return true
				}
			}
		}
		return false
	}
	closed := func() bool {
		return h.Ret() && h.Sub() != nil && h.Sub().IsClosed() && (cut < 0 || unsubDone || rec.Terminal() != 0) && !inFlight()
	}
	ok := e.RunUntil(closed, 400)
	for _, s := range srcs {
		if s.DoubleTeardown > 0 {
			e.Violate(prop, "teardown-twice", fmt.Sprintf("source %d: a teardown ran %d extra times (subs=%d teardowns=%d)", s.ID, s.DoubleTeardown, s.Subs, s.Teardowns))
		}
	}
	if e.K.Capped() {
		return
	}
	if !ok {
		// never closed: nothing is promised about release
		e.Probe("never-closed")
		return
	}
	e.Probe("closed")
	// closed and Subscribe returned: at this quiescent point every source must have been released
	lockParked := func() *simrt.Actor {
		for _, a := range e.K.Actors() {
			if a.Lib && !a.Done() && a.Blocked() && a.PendingKind().String() == "lock" {
				return a
			}
		}
		return nil
	}
	for _, s := range srcs {
		if s.Live != 0 {
			if a := lockParked(); a != nil {
				// a library goroutine is parked on a mutex: if it still is once every armed timer has fired,
				// it has deadlocked (nobody is left to release the lock) and what it was about to release stays
				// unreleased as a consequence: reported as the deadlock it is
				e.SettleFor(2000 * Unit)
				if e.K.Capped() {
					return
				}
				if b := lockParked(); b != nil {
					e.Violate(prop, "goroutine-deadlocked-on-lock", fmt.Sprintf("library goroutine started at %s is still blocked on a lock after the subscription closed and every timer fired; source %d is not released (trace %s)", b.Site, s.ID, rec.Trace()))
					return
				}
			}
			e.Violate(prop, "source-not-released", fmt.Sprintf("subscription closed and Subscribe returned, but source %d still has %d live subscription(s) (subs=%d teardowns=%d) trace=%s", s.ID, s.Live, s.Subs, s.Teardowns, rec.Trace()))
		}
	}
	// drain timers that were already armed, then no library goroutine may survive
	e.SettleFor(2000 * Unit)
	if e.K.Capped() {
		return
	}
	for _, a := range e.K.Actors() {
		if a.Lib && !a.Done() {
			clause := "goroutine-leak"
			if a.PendingKind().String() == "lock" {
				// parked on a mutex at quiescence: nobody is left to release it
				clause = "goroutine-deadlocked-on-lock"
			}
			e.Violate(prop, clause, fmt.Sprintf("library goroutine started at %s is still %s (%s) after the subscription closed", a.Site, a.State(), a.PendingKind()))
		}
	}
	for _, s := range srcs {
		if s.DoubleTeardown > 0 {
			e.Violate(prop, "teardown-twice", fmt.Sprintf("source %d: a teardown ran twice", s.ID))
		}
	}
}

// runTeardownRace: Complete / Error / Unsubscribe xN / Add issued by different actors at once.
func runTeardownRace(e *Env) {
	sc := e.Sc
	nt := sc.Int("teardowns", 2)
	mask := sc.Int("panicmask", 0)
	counts := make([]int, nt+3)
	lastRun := -1
	reent := sc.Int("reent", 0)
	var sub ro.Subscription
	var mk func(i int) func()
	mk = func(i int) func() {
		return func() {
			counts[i]++
			lastRun = e.Step()
			e.K.Log(fmt.Sprintf("teardown %d", i))
			e.Yield()
			if counts[i] == 1 && ((i == 0 && reent == 1) || (i == nt && reent == 3)) {
				// disposal has begun: the follow-up teardown runs at once
				sub.Add(mk(nt + 2))
				if counts[nt+2] != 1 {
					e.Violate("C03", "add-after-disposal", fmt.Sprintf("a teardown added by teardown %d while the subscription was being disposed had run %d times when Add returned (want 1, immediately)", i, counts[nt+2]))
				}
			}
			if counts[i] == 1 && i == 0 && reent == 2 && !sub.IsClosed() {
				e.Violate("C03", "open-during-disposal", "IsClosed() asked from a teardown reported an open subscription")
			}
			if i < nt && mask&(1<<uint(i)) != 0 {
				panic(ScriptError(80 + i))
			}
		}
	}
	var ser ro.Subscriber[int]
	rec := e.NewRec("o")
	switch sc.Sub {
	case "subscription":
		sub = ro.NewSubscription(mk(0))
		for i := 1; i < nt; i++ {
			sub.Add(mk(i))
		}
	default:
		switch sc.Sub {
		case "subscriber-unsafe":
			ser = ro.NewUnsafeSubscriber(rec.Observer())
		case "subscriber-eventually":
			ser = ro.NewEventuallySafeSubscriber(rec.Observer())
		case "subscriber-default":
			ser = ro.NewSubscriber(rec.Observer())
		default:
			ser = ro.NewSafeSubscriber(rec.Observer())
		}
		sub = ser
		for i := 0; i < nt; i++ {
			sub.Add(mk(i))
		}
	}
	panics := 0
	var panicAt []int
	guard := func(name string, f func()) {
		defer func() {
			if r := recover(); r != nil {
				panics++
				panicAt = append(panicAt, e.Step())
				e.K.Log(name + " got panic")
				// all teardowns must have run before the panic is re-raised
				for i := 0; i < nt; i++ {
					if counts[i] == 0 {
						e.Violate("C03", "panic-before-all-ran", fmt.Sprintf("%s: panic re-raised while teardown %d had not run yet", name, i))
					}
				}
			}
		}()
		f()
	}
	closers, closersDone := 0, 0
	for i := 0; i < sc.Int("unsub", 1); i++ {
		closers++
		e.Go("unsub", func() { guard("Unsubscribe", sub.Unsubscribe); closersDone++ })
	}
	if ser != nil && sc.Int("complete", 0) == 1 {
		closers++
		e.Go("complete", func() { guard("Complete", ser.Complete); closersDone++ })
	}
	if ser != nil && sc.Int("error", 0) == 1 {
		closers++
		e.Go("error", func() { guard("Error", func() { ser.Error(ScriptError(1)) }); closersDone++ })
	}
	for j := 0; j < sc.Int("add", 0); j++ {
		idx := nt + j
		e.Go("add", func() {
			if sc.Int("addlate", 0) == 1 {
				e.WaitFor(func() bool { return closersDone == closers })
			}
			// disposal is certainly over once every closing call has returned (a concurrent Unsubscribe
			// may return while another caller is still running the finalizers)
			closedBefore := closersDone == closers
			guard("Add", func() { sub.Add(mk(idx)) })
			if closedBefore && counts[idx] != 1 {
				e.Violate("C03", "add-after-disposal", fmt.Sprintf("Add on a closed subscription returned with the teardown run %d times (want 1, immediately)", counts[idx]))
			}
		})
	}
	e.SettleFor(10 * Unit)
	if e.K.Capped() {
		return
	}
	for _, a := range e.K.Actors() {
		if !a.Done() && a != e.K.Cur() {
			e.Violate("C03", "race-deadlock", fmt.Sprintf("actor %s is %s on %s at quiescence", a.Site, a.State(), a.PendingKind()))
			return
		}
	}
	if (reent == 1 && counts[0] > 0) || (reent == 3 && counts[nt] > 0) {
		if counts[nt+2] != 1 {
			e.Violate("C03", "teardown-count", fmt.Sprintf("the follow-up teardown added from a running teardown ran %d times (want exactly 1; sub=%s)", counts[nt+2], sc.Sub))
		}
	}
	for i := 0; i < nt+sc.Int("add", 0); i++ {
		if counts[i] != 1 {
			e.Violate("C03", "teardown-count", fmt.Sprintf("teardown %d ran %d times (want exactly 1) after Complete/Error/Unsubscribe raced (sub=%s)", i, counts[i], sc.Sub))
		}
	}
	want := 0
	if mask&((1<<uint(nt))-1) != 0 {
		want = 1
	}
	if panics != want {
		e.Violate("C03", "panic-propagation", fmt.Sprintf("%d callers received the teardown panic (want %d); mask=%b", panics, want, mask))
	}
	_ = lastRun
	if rec.GrammarError() != "" {
		e.Violate("C01", "grammar", rec.GrammarError())
	}
}

// allCold: every source of the scenario starts its script anew for each subscription.
func allCold(sc *Scn) bool {
	for _, sp := range sc.Sources {
		if sp.Mode == "hot" || sp.Mode == "manual" {
			return false
		}
	}
	return true
}
