package roverif

// Property C04 - each operator computes its documented function.
//
// Families (all Props: C04):
//   C04.stage     one modelled catalogue stage x boundary parameters x script x ending; oracle: trace is a
//                 member of the model's admissible set                            clause model:<stage>
//   C04.enum      one modelled stage with drawn parameters x every script over {1,2,3} of length 0..4 x the
//                 three endings (Expand: 363 scenarios per draw); same oracle and clause as C04.stage
//   C04.chain     random chains of 2..4 modelled stages; oracle: composition of the models
//                 clause chain - or model:<stage> when the divergence is localised in one stage (the
//                 prefixes of the chain are run separately and each stage is judged on the input it
//                 was observed to receive)
//   C04.variants  plain / I / WithContext / IWithContext variants and aliases built directly with ro.*
//                 on the same function and script must give identical traces (and identical side
//                 effect logs for Tap/Do)                                         clause variant:<family>
//   C04.pipe      ro.Pipe / ro.PipeOp (reflective) vs ro.PipeN / ro.PipeOpN (typed) vs plain nesting
//                 clause pipe
//   C04.aliasing  slice-valued outputs: deep snapshot at delivery == deep value at the end of the run
//                 clause aliasing (plus model:<op> for the chunk structure itself)
//   C04.creation  synchronous creation operators against Appendix A      clause creation:<op>
//   C04.zero      SkipLast(0) / TakeLast(0) built directly (the catalogue only draws positive counts)
//                 clause model:<op>
//   C04.math      float64 math operators (Round/Floor/Ceil/Trunc/Abs/Floor-CeilWithPrecision/Average/Clamp)
//                 built directly, against math.* and exact decimal arithmetic   clause model:<op>

import (
	"context"
	"errors"
	"fmt"
	"math"
	"math/big"
	"sort"
	"strconv"
	"strings"

	"github.com/samber/lo"
	"github.com/samber/ro"
)

type c04Op = func(ro.Observable[int]) ro.Observable[int]

// ---------------------------------------------------------------------------------------------
// shared helpers

func c04EvN(ev Ev) N {
	switch ev.K {
	case 'N':
		return N{K: 'N', V: ev.V}
	case 'C':
		return N{K: 'C'}
	}
	var se *scriptErr
	if errors.As(ev.Err, &se) {
		return N{K: 'E', V: se.code}
	}
	return N{K: 'E', V: opErr}
}

func c04RecN(r *Rec) []N {
	out := make([]N, 0, len(r.Events))
	for _, ev := range r.Events {
		out = append(out, c04EvN(ev))
	}
	return out
}

// stages whose model is independent of the sign of the values (so scripts may use -3..3)
var c04SignSafe = map[string]bool{"Max": true, "Min": true, "Sum": true, "Count": true, "Clamp": true, "Skip": true, "Take": true,
	"TakeLast": true, "SkipLast": true, "Head": true, "Tail": true, "ElementAt": true, "ElementAtOrDefault": true, "IgnoreElements": true,
	"DefaultIfEmpty": true, "ToSliceFlatten": true, "ToSliceKeep": true, "StartWith": true, "EndWith": true, "BufferWithCount": true, "Distinct": true,
	"MaterializeDematerialize": true, "Serialize": true, "Tap": true, "MapTo": true}

// c04Script: values over the alphabet {1,2,3} (repeats allowed), length 0..5, sometimes up to 8, rarely
// longer, with the three endings.
func c04Script(g *Gen) []Step {
	n := g.PickInt(0, 1, 2, 3, 4, 5, 0, 1, 2, 3, 4, 5, 1, 2, 3, 6, 7, 8)
	if g.Bool(0.04) {
		n = g.Range(9, 14)
	}
	var sc []Step
	for i := 0; i < n; i++ {
		sc = append(sc, Step{K: "N", V: g.Range(1, 3)})
	}
	switch g.Intn(3) {
	case 0:
		sc = append(sc, Step{K: "C"})
	case 1:
		sc = append(sc, Step{K: "E", V: g.Intn(4)})
	}
	return sc
}

func c04WellFormed(sc []Step) bool {
	for i, s := range sc {
		switch s.K {
		case "N":
		case "C", "E":
			if i != len(sc)-1 {
				return false
			}
		default:
			return false
		}
	}
	return true
}

func c04Modelled(pred func(d *StageDef) bool) []string {
	installC04Models()
	return stagesWhere(func(d *StageDef) bool { return d.Model != nil && (pred == nil || pred(d)) })
}

func c04Expected(sc *Scn) [][]N {
	return composeModels(sc.Stages, scriptToN(sc.Sources[0].Script), func(i int) []N {
		if i < 1 || i >= len(sc.Sources) {
			panic(fmt.Sprintf("c04: stage refers to auxiliary source %d of %d", i, len(sc.Sources)))
		}
		return scriptToN(sc.Sources[i].Script)
	})
}

// c04ValidPipeline: source 0 sync or async, auxiliaries synchronous, every stage modelled, auxiliary
// indices in range, scripts well formed, the model does not decline.
func c04ValidPipeline(sc *Scn, minStages, maxStages int) bool {
	installC04Models()
	if len(sc.Sources) < 1 || len(sc.Stages) < minStages || len(sc.Stages) > maxStages {
		return false
	}
	for i, s := range sc.Sources {
		if !c04WellFormed(s.Script) {
			return false
		}
		if s.Mode != "sync" && !(i == 0 && s.Mode == "async") {
			return false
		}
	}
	for _, st := range sc.Stages {
		d := catalog[st.Op]
		if d == nil || d.Model == nil || len(st.P) < d.Aux {
			return false
		}
		for i := 0; i < d.Aux; i++ {
			if st.P[i] < 1 || st.P[i] >= len(sc.Sources) {
				return false
			}
		}
	}
	return c04Expected(sc) != nil
}

func c04DescribeStages(sc *Scn) string {
	var parts []string
	for _, st := range sc.Stages {
		parts = append(parts, fmt.Sprintf("%s%v", st.Op, st.P))
	}
	s := strings.Join(parts, " > ")
	for i := 1; i < len(sc.Sources); i++ {
		s += fmt.Sprintf("; aux%d=[%s]", i, traceN(scriptToN(sc.Sources[i].Script)))
	}
	return s
}

// c04Violate records a C04 violation. When some actor is blocked on a mutex at quiescence the run
// deadlocked inside the library: whatever the oracle compared is a consequence of that, so the
// violation is filed under the clause "deadlock" (still a violation; the clause keeps the
// known unicast-subject self-deadlock of GroupBy/WindowWhen apart from functional findings).
func c04Violate(e *Env, clause, msg string) {
	for _, a := range e.K.Actors() {
		if a.Blocked() && a.PendingKind().String() == "lock" {
			e.Violate("C04", "deadlock", fmt.Sprintf("actor %s is blocked on a lock at quiescence; %s: %s", a.Site, clause, msg))
			return
		}
	}
	e.Violate("C04", clause, msg)
}

// the exported sentinel an operator fails with when its input has no (such) element: callers tell the
// failures apart with errors.Is, so the error must be that very sentinel (two of them have the same text)
var c04Sentinels = map[string]error{"Head": ro.ErrHeadEmpty, "Tail": ro.ErrTailEmpty, "First": ro.ErrFirstEmpty, "Last": ro.ErrLastEmpty, "ElementAt": ro.ErrElementAtNotFound}

func c04Sentinel(e *Env, sc *Scn, rec *Rec) {
	if len(sc.Stages) != 1 || rec.Terminal() != 'E' {
		return
	}
	want, ok := c04Sentinels[sc.Stages[0].Op]
	if !ok {
		return
	}
	err := rec.Events[len(rec.Events)-1].Err
	var se *scriptErr
	if errors.As(err, &se) {
		return // the source's own error, forwarded
	}
	if !errors.Is(err, want) {
		c04Violate(e, "sentinel:"+sc.Stages[0].Op, fmt.Sprintf("%s over [%s] failed with %q, which is not (errors.Is) the operator's exported sentinel %q", c04DescribeStages(sc), traceN(scriptToN(sc.Sources[0].Script)), err, want))
	}
}

// c04Observe subscribes once and runs to quiescence; ok=false when the step cap was hit.
func c04Observe(e *Env, o ro.Observable[int], name string) (*Rec, *SubHandle, bool) {
	rec := e.NewRec(name)
	h := e.Subscribe(o, rec.Observer(), nil)
	e.SettleFor(50 * Unit)
	return rec, h, !e.K.Capped()
}

// ---------------------------------------------------------------------------------------------
// C04.stage and C04.chain

func runC04Pipeline(e *Env) {
	defer e.CheckHeld("C04")
	installC04Models()
	sc := e.Sc
	minSt, maxSt := 1, 1
	if sc.Family == "C04.chain" {
		minSt, maxSt = 1, 8
	}
	// (C04.stage and C04.enum: exactly one stage)
	if !c04ValidPipeline(sc, minSt, maxSt) {
		// only reachable through a hand-edited replay file: the generators and the shrinker filter these
		e.Probe("model-declined")
		return
	}
	want := c04Expected(sc)
	o, _ := e.Pipeline()
	rec, h, ok := c04Observe(e, o, "o")
	if !ok {
		return
	}
	got := c04RecN(rec)
	if memberN(want, got) {
		c04Sentinel(e, sc, rec)
		// Ints[again]: the same pipeline value is subscribed once more while its source plays another
		// input: the documented meaning applies to every subscription, whatever an earlier one saw
		variant := c12Variant(&Scn{Sources: sc.Sources, Ints: map[string]int{"vary": sc.Int("again", 0)}})
		if variant == nil || e.K.Capped() || rec.Terminal() == 0 || !h.Ret() {
			// only once the first subscription is completely over (an unterminated one - a source that
			// stays silent below an operator that waits inside Subscribe - is still occupying the pipeline)
			return
		}
		vsc := cloneScn(sc)
		vsc.Sources[0].Script = variant
		if !c04ValidPipeline(vsc, minSt, maxSt) {
			return
		}
		if len(sc.Stages) > 1 {
			for _, st := range sc.Stages {
				if st.Op == "Max" {
					return // Max over an empty input is a recorded finding, localised only on first subscriptions
				}
			}
		}
		want2 := c04Expected(vsc)
		if want2 == nil {
			return
		}
		for _, s := range e.srcs {
			if s.ID == 0 {
				s.Attempts = [][]Step{variant}
			}
		}
		rec2, _, ok := c04Observe(e, o, "again")
		if !ok {
			return
		}
		if got2 := c04RecN(rec2); !memberN(want2, got2) {
			clause := "second-subscription"
			if len(sc.Stages) == 1 {
				// the recorded finding about Max over an empty source keeps its own clause
				if c := c04ModelClause(sc.Stages[0].Op, scriptToN(variant)); c != "model:"+sc.Stages[0].Op {
					clause = c
				}
			}
			c04Violate(e, clause, fmt.Sprintf("%s: a second subscription of the same pipeline, its source now playing [%s], delivered [%s]; documented: %s (the first subscription over [%s] delivered [%s])",
				c04DescribeStages(sc), traceN(scriptToN(variant)), traceN(got2), setN(want2), traceN(scriptToN(sc.Sources[0].Script)), traceN(got)))
		}
		return
	}
	in := scriptToN(sc.Sources[0].Script)
	extra := ""
	if h.Panic != nil {
		extra = fmt.Sprintf(" (Subscribe panicked: %v)", h.Panic)
	}
	if len(sc.Stages) == 1 {
		c04Violate(e, c04ModelClause(sc.Stages[0].Op, in), fmt.Sprintf("%s over [%s] (%s source) delivered [%s]; documented: %s%s",
			c04DescribeStages(sc), traceN(in), sc.Sources[0].Mode, traceN(got), setN(want), extra))
		return
	}
	// localise: run every prefix of the chain on fresh sources and judge each stage on the input it was
	// observed to receive
	prev, prevReturned := in, true
	for k := 1; k <= len(sc.Stages); k++ {
		sub := cloneScn(sc)
		sub.Stages = sub.Stages[:k]
		po, _ := buildPipelineFrom(e, sub)
		prec, ph, ok := c04Observe(e, po, fmt.Sprintf("prefix%d", k))
		if !ok {
			return
		}
		cur := c04RecN(prec)
		st := sc.Stages[k-1]
		if !c04GrammarOK(prev) {
			break // a stage delivered an ill-formed sequence earlier and was judged for it
		}
		set := composeModels([]StageSpec{st}, prev, func(i int) []N { return scriptToN(sc.Sources[i].Script) })
		if set == nil {
			break
		}
		if !memberN(set, cur) {
			clause, note := c04ModelClause(st.Op, prev), ""
			if n := len(prev); !prevReturned && n > 0 && prev[n-1].K != 'N' {
				// the upstream part delivered its terminal notification but its Subscribe call never
				// returned (an operator in it is waiting for a silent source): a stage that has to act
				// after that terminal (resubscribe, subscribe the next source) never gets the chance.
				// Same root cause as the C14/C06 finding about operators that wait inside Subscribe.
				clause, note = "upstream-subscribe-blocked", " (the upstream part's Subscribe call was still blocked at quiescence although it had delivered its terminal)"
			}
			c04Violate(e, clause, fmt.Sprintf("in the chain %s over [%s]: stage %d %s%v received [%s] and delivered [%s]; documented: %s%s",
				c04DescribeStages(sc), traceN(in), k, st.Op, st.P, traceN(prev), traceN(cur), setN(set), note))
			return
		}
		prev, prevReturned = cur, ph.Returned
	}
	c04Violate(e, "chain", fmt.Sprintf("chain %s over [%s] (%s source) delivered [%s]; the composition of the stage models gives %s although every stage on its own conforms%s",
		c04DescribeStages(sc), traceN(in), sc.Sources[0].Mode, traceN(got), setN(want), extra))
}

// c04ModelClause names the violated clause. The empty-input case of Max is a recorded finding (the zero
// value is emitted, pinned by an existing test); it gets its own clause so that any other deviation of
// Max from its definition is still reported.
func c04ModelClause(op string, in []N) string {
	if op == "Max" {
		empty := true
		for _, n := range in {
			if n.K == 'N' {
				empty = false
			}
		}
		if empty {
			return "model:Max:empty-source"
		}
	}
	return "model:" + op
}

func c04GrammarOK(t []N) bool {
	for i, n := range t {
		if n.K != 'N' && i != len(t)-1 {
			return false
		}
	}
	return true
}

func init() {
	Register(&Family{
		Name:   "C04.stage",
		Props:  []string{"C04"},
		Weight: 160,
		Gen: func(g *Gen) *Scn {
			names := c04Modelled(nil)
			for {
				sc := &Scn{Family: "C04.stage"}
				script := c04Script(g)
				name := names[g.Intn(len(names))]
				if c04SignSafe[name] && g.Bool(0.3) {
					// sign-sensitive operators also see negative and zero values
					for i := range script {
						if script[i].K == "N" {
							script[i].V = g.Range(-3, 3)
						}
					}
				} else if g.Bool(0.15) {
					// the zero value of the element type is a value like any other ("no value yet" must not be
					// encoded as 0 anywhere)
					for i := range script {
						if script[i].K == "N" && g.Bool(0.5) {
							script[i].V = 0
						}
					}
				}
				sc.Sources = []SrcSpec{{Mode: g.Pick("sync", "sync", "sync", "async"), Script: script}}
				addStage(g, sc, name, nvalues(script), "sync")
				sc.SetInt("seqmode", 1)
				sc.SetInt("again", g.PickInt(0, 0, 1, 2))
				if c04ValidPipeline(sc, 1, 1) {
					return sc
				}
			}
		},
		Valid: func(sc *Scn) bool { return c04ValidPipeline(sc, 1, 1) },
		Run:   runC04Pipeline,
	})
	Register(&Family{
		Name:   "C04.chain",
		Props:  []string{"C04"},
		Weight: 120,
		Gen: func(g *Gen) *Scn {
			names := c04Modelled(nil)
			for {
				sc := &Scn{Family: "C04.chain"}
				script := c04Script(g)
				if g.Bool(0.1) {
					for i := range script {
						if script[i].K == "N" && g.Bool(0.5) {
							script[i].V = 0 // the zero value is a value like any other
						}
					}
				}
				sc.Sources = []SrcSpec{{Mode: g.Pick("sync", "sync", "sync", "async"), Script: script}}
				n := g.PickInt(2, 2, 3, 3, 4)
				for i := 0; i < n; i++ {
					addStage(g, sc, names[g.Intn(len(names))], nvalues(script), "sync")
				}
				sc.SetInt("seqmode", 1)
				sc.SetInt("again", g.PickInt(0, 0, 1, 2))
				if c04ValidPipeline(sc, 2, 8) {
					return sc
				}
			}
		},
		Valid: func(sc *Scn) bool { return c04ValidPipeline(sc, 1, 8) },
		Run:   runC04Pipeline,
	})
	// exhaustive sub-mode: one stage with drawn parameters x EVERY script over {1,2,3} of length 0..4
	// x the three endings (363 scripts per drawn stage). One draw costs 363 runs: the weight is chosen
	// so that the enumeration takes roughly 40% of the runs (the other weights are scaled accordingly).
	Register(&Family{
		Name:   "C04.enum",
		Props:  []string{"C04"},
		Weight: 1,
		Gen: func(g *Gen) *Scn {
			names := c04Modelled(nil)
			sc := &Scn{Family: "C04.enum"}
			sc.Sources = []SrcSpec{{Mode: g.Pick("sync", "sync", "sync", "async"), Script: []Step{{K: "C"}}}}
			addStage(g, sc, names[g.Intn(len(names))], g.Range(0, 4), "sync")
			sc.SetInt("code", g.Intn(4))
			sc.SetInt("seqmode", 1)
			return sc
		},
		Expand: func(sc *Scn) []*Scn {
			var out []*Scn
			code := sc.Int("code", 0)
			var rec func(prefix []Step)
			rec = func(prefix []Step) {
				for _, end := range [][]Step{{{K: "C"}}, {{K: "E", V: code}}, nil} {
					c := cloneScn(sc)
					c.Sources[0].Script = append(append([]Step(nil), prefix...), end...)
					if c04ValidPipeline(c, 1, 1) {
						out = append(out, c)
					}
				}
				if len(prefix) == 4 {
					return
				}
				for v := 1; v <= 3; v++ {
					rec(append(append([]Step(nil), prefix...), Step{K: "N", V: v}))
				}
			}
			rec(nil)
			return out
		},
		Valid: func(sc *Scn) bool { return c04ValidPipeline(sc, 1, 1) },
		Run:   runC04Pipeline,
	})
}

// ---------------------------------------------------------------------------------------------
// C04.variants

type c04Variant struct {
	name  string
	build func(s []ro.Observable[int]) ro.Observable[int]
}

type c04VarFam struct {
	name  string
	nsrc  int  // number of scripted sources (default 1)
	loose bool // errors raised by the operators themselves are compared as one class
	// mk builds every variant afresh (fresh counters, fresh side-effect log); k in 0..3 varies the function
	mk func(k int, lg *c04Log, vals []int) []c04Variant
	// effects, when set, gives the documented side-effect log over the script (Appendix A: the callback
	// runs before the notification is forwarded; on-subscribe before the upstream subscription;
	// on-finalize after the upstream release)
	effects func(in []N) []string
}

// c04TapLog is the side-effect log of a Tap whose three callbacks are selected by which.
func c04TapLog(in []N, which string) []string {
	out := []string{}
	for i, n := range in {
		switch {
		case n.K == 'N' && strings.Contains(which, "n"):
			out = append(out, fmt.Sprintf("n%d@%d", n.V, i))
		case n.K == 'E' && strings.Contains(which, "e"):
			out = append(out, fmt.Sprintf("e:%s@%d", errCode(ScriptError(n.V)), i))
		case n.K == 'C' && strings.Contains(which, "c"):
			out = append(out, fmt.Sprintf("c@%d", i))
		}
	}
	return out
}

// c04Log is the side-effect log of the callbacks of one variant; every entry records how many
// notifications the observer had received when the callback ran.
type c04Log struct {
	entries []string
	count   func() int
}

func (l *c04Log) add(s string) {
	n := 0
	if l.count != nil {
		n = l.count()
	}
	l.entries = append(l.entries, fmt.Sprintf("%s@%d", s, n))
}

func c04V(name string, op c04Op) c04Variant {
	return c04Variant{name: name, build: func(s []ro.Observable[int]) ro.Observable[int] { return op(s[0]) }}
}

func c04VS(name string, f func(s []ro.Observable[int]) ro.Observable[int]) c04Variant {
	return c04Variant{name: name, build: f}
}

func c04B2I(o ro.Observable[bool]) ro.Observable[int] { return ro.Map(b2i)(o) }

func c04MapEnc(m map[int]int) int {
	keys := make([]int, 0, len(m))
	for k := range m {
		keys = append(keys, k)
	}
	sort.Ints(keys)
	v := len(m)
	for _, k := range keys {
		v = v*1000 + k*100 + m[k]
	}
	return v
}

type c04Ctx = context.Context

var c04VarFams = []*c04VarFam{
	{name: "Map", mk: func(k int, lg *c04Log, _ []int) []c04Variant {
		f := func(x int) int { return x*3 + k }
		return []c04Variant{
			c04V("Map", ro.Map(f)),
			c04V("MapI", ro.MapI(func(x int, _ int64) int { return f(x) })),
			c04V("MapWithContext", ro.MapWithContext(func(c c04Ctx, x int) (c04Ctx, int) { return c, f(x) })),
			c04V("MapIWithContext", ro.MapIWithContext(func(c c04Ctx, x int, _ int64) (c04Ctx, int) { return c, f(x) })),
		}
	}},
	{name: "MapI", mk: func(k int, lg *c04Log, _ []int) []c04Variant {
		f := func(x int, i int64) int { return x*10 + int(i) + k }
		var n1, n2 int64
		return []c04Variant{
			c04V("MapI", ro.MapI(f)),
			c04V("MapIWithContext", ro.MapIWithContext(func(c c04Ctx, x int, i int64) (c04Ctx, int) { return c, f(x, i) })),
			c04V("Map+counter", ro.Map(func(x int) int { n1++; return f(x, n1-1) })),
			c04V("MapWithContext+counter", ro.MapWithContext(func(c c04Ctx, x int) (c04Ctx, int) { n2++; return c, f(x, n2-1) })),
		}
	}},
	{name: "Filter", mk: func(k int, lg *c04Log, _ []int) []c04Variant {
		f := func(x int) bool { return x%2 == k%2 }
		return []c04Variant{
			c04V("Filter", ro.Filter(f)),
			c04V("FilterI", ro.FilterI(func(x int, _ int64) bool { return f(x) })),
			c04V("FilterWithContext", ro.FilterWithContext(func(c c04Ctx, x int) (c04Ctx, bool) { return c, f(x) })),
			c04V("FilterIWithContext", ro.FilterIWithContext(func(c c04Ctx, x int, _ int64) (c04Ctx, bool) { return c, f(x) })),
		}
	}},
	{name: "FilterI", mk: func(k int, lg *c04Log, _ []int) []c04Variant {
		f := func(x int, i int64) bool { return (int(i)+k)%2 == 0 }
		var n1, n2 int64
		return []c04Variant{
			c04V("FilterI", ro.FilterI(f)),
			c04V("FilterIWithContext", ro.FilterIWithContext(func(c c04Ctx, x int, i int64) (c04Ctx, bool) { return c, f(x, i) })),
			c04V("Filter+counter", ro.Filter(func(x int) bool { n1++; return f(x, n1-1) })),
			c04V("FilterWithContext+counter", ro.FilterWithContext(func(c c04Ctx, x int) (c04Ctx, bool) { n2++; return c, f(x, n2-1) })),
		}
	}},
	{name: "Scan", mk: func(k int, lg *c04Log, _ []int) []c04Variant {
		f := func(acc, x int) int { return acc*2 + x }
		return []c04Variant{
			c04V("Scan", ro.Scan(f, k)),
			c04V("ScanI", ro.ScanI(func(acc, x int, _ int64) int { return f(acc, x) }, k)),
			c04V("ScanWithContext", ro.ScanWithContext(func(c c04Ctx, acc, x int) (c04Ctx, int) { return c, f(acc, x) }, k)),
			c04V("ScanIWithContext", ro.ScanIWithContext(func(c c04Ctx, acc, x int, _ int64) (c04Ctx, int) { return c, f(acc, x) }, k)),
		}
	}},
	{name: "ScanI", mk: func(k int, lg *c04Log, _ []int) []c04Variant {
		f := func(acc, x int, i int64) int { return acc + x*int(i+1) }
		var n1 int64
		return []c04Variant{
			c04V("ScanI", ro.ScanI(f, k)),
			c04V("ScanIWithContext", ro.ScanIWithContext(func(c c04Ctx, acc, x int, i int64) (c04Ctx, int) { return c, f(acc, x, i) }, k)),
			c04V("Scan+counter", ro.Scan(func(acc, x int) int { n1++; return f(acc, x, n1-1) }, k)),
		}
	}},
	{name: "Reduce", mk: func(k int, lg *c04Log, _ []int) []c04Variant {
		f := func(acc, x int) int { return acc*2 + x }
		return []c04Variant{
			c04V("Reduce", ro.Reduce(f, k)),
			c04V("ReduceI", ro.ReduceI(func(acc, x int, _ int64) int { return f(acc, x) }, k)),
			c04V("ReduceWithContext", ro.ReduceWithContext(func(c c04Ctx, acc, x int) (c04Ctx, int) { return c, f(acc, x) }, k)),
			c04V("ReduceIWithContext", ro.ReduceIWithContext(func(c c04Ctx, acc, x int, _ int64) (c04Ctx, int) { return c, f(acc, x) }, k)),
		}
	}},
	{name: "ReduceI", mk: func(k int, lg *c04Log, _ []int) []c04Variant {
		f := func(acc, x int, i int64) int { return acc + x*int(i+1) }
		var n1 int64
		return []c04Variant{
			c04V("ReduceI", ro.ReduceI(f, k)),
			c04V("ReduceIWithContext", ro.ReduceIWithContext(func(c c04Ctx, acc, x int, i int64) (c04Ctx, int) { return c, f(acc, x, i) }, k)),
			c04V("Reduce+counter", ro.Reduce(func(acc, x int) int { n1++; return f(acc, x, n1-1) }, k)),
		}
	}},
	{name: "TakeWhile", mk: func(k int, lg *c04Log, _ []int) []c04Variant {
		f := func(x int) bool { return x != k }
		return []c04Variant{
			c04V("TakeWhile", ro.TakeWhile(f)),
			c04V("TakeWhileI", ro.TakeWhileI(func(x int, _ int64) bool { return f(x) })),
			c04V("TakeWhileWithContext", ro.TakeWhileWithContext(func(c c04Ctx, x int) (c04Ctx, bool) { return c, f(x) })),
			c04V("TakeWhileIWithContext", ro.TakeWhileIWithContext(func(c c04Ctx, x int, _ int64) (c04Ctx, bool) { return c, f(x) })),
		}
	}},
	{name: "TakeWhileI", mk: func(k int, lg *c04Log, _ []int) []c04Variant {
		f := func(x int, i int64) bool { return int(i) < k }
		var n1 int64
		return []c04Variant{
			c04V("TakeWhileI", ro.TakeWhileI(f)),
			c04V("TakeWhileIWithContext", ro.TakeWhileIWithContext(func(c c04Ctx, x int, i int64) (c04Ctx, bool) { return c, f(x, i) })),
			c04V("TakeWhile+counter", ro.TakeWhile(func(x int) bool { n1++; return f(x, n1-1) })),
		}
	}},
	{name: "SkipWhile", mk: func(k int, lg *c04Log, _ []int) []c04Variant {
		f := func(x int) bool { return x != k }
		return []c04Variant{
			c04V("SkipWhile", ro.SkipWhile(f)),
			c04V("SkipWhileI", ro.SkipWhileI(func(x int, _ int64) bool { return f(x) })),
			c04V("SkipWhileWithContext", ro.SkipWhileWithContext(func(c c04Ctx, x int) (c04Ctx, bool) { return c, f(x) })),
			c04V("SkipWhileIWithContext", ro.SkipWhileIWithContext(func(c c04Ctx, x int, _ int64) (c04Ctx, bool) { return c, f(x) })),
		}
	}},
	{name: "SkipWhileI", mk: func(k int, lg *c04Log, _ []int) []c04Variant {
		f := func(x int, i int64) bool { return int(i) < k }
		return []c04Variant{
			c04V("SkipWhileI", ro.SkipWhileI(f)),
			c04V("SkipWhileIWithContext", ro.SkipWhileIWithContext(func(c c04Ctx, x int, i int64) (c04Ctx, bool) { return c, f(x, i) })),
			c04V("Skip", ro.Skip[int](int64(k))),
		}
	}},
	{name: "First", mk: func(k int, lg *c04Log, _ []int) []c04Variant {
		f := func(x int) bool { return x == k }
		return []c04Variant{
			c04V("First", ro.First(f)),
			c04V("FirstI", ro.FirstI(func(x int, _ int64) bool { return f(x) })),
			c04V("FirstWithContext", ro.FirstWithContext(func(c c04Ctx, x int) (c04Ctx, bool) { return c, f(x) })),
			c04V("FirstIWithContext", ro.FirstIWithContext(func(c c04Ctx, x int, _ int64) (c04Ctx, bool) { return c, f(x) })),
		}
	}},
	{name: "FirstI", mk: func(k int, lg *c04Log, _ []int) []c04Variant {
		f := func(x int, i int64) bool { return int(i) == k }
		var n1 int64
		return []c04Variant{
			c04V("FirstI", ro.FirstI(f)),
			c04V("FirstIWithContext", ro.FirstIWithContext(func(c c04Ctx, x int, i int64) (c04Ctx, bool) { return c, f(x, i) })),
			c04V("First+counter", ro.First(func(x int) bool { n1++; return f(x, n1-1) })),
		}
	}},
	{name: "Last", mk: func(k int, lg *c04Log, _ []int) []c04Variant {
		f := func(x int) bool { return x == k }
		return []c04Variant{
			c04V("Last", ro.Last(f)),
			c04V("LastI", ro.LastI(func(x int, _ int64) bool { return f(x) })),
			c04V("LastWithContext", ro.LastWithContext(func(c c04Ctx, x int) (c04Ctx, bool) { return c, f(x) })),
			c04V("LastIWithContext", ro.LastIWithContext(func(c c04Ctx, x int, _ int64) (c04Ctx, bool) { return c, f(x) })),
		}
	}},
	{name: "LastI", mk: func(k int, lg *c04Log, _ []int) []c04Variant {
		f := func(x int, i int64) bool { return int(i) <= k }
		var n1 int64
		return []c04Variant{
			c04V("LastI", ro.LastI(f)),
			c04V("LastIWithContext", ro.LastIWithContext(func(c c04Ctx, x int, i int64) (c04Ctx, bool) { return c, f(x, i) })),
			c04V("Last+counter", ro.Last(func(x int) bool { n1++; return f(x, n1-1) })),
		}
	}},
	{name: "All", mk: func(k int, lg *c04Log, _ []int) []c04Variant {
		f := func(x int) bool { return x != k }
		return []c04Variant{
			c04V("All", func(s ro.Observable[int]) ro.Observable[int] { return c04B2I(ro.All(f)(s)) }),
			c04V("AllI", func(s ro.Observable[int]) ro.Observable[int] {
				return c04B2I(ro.AllI(func(x int, _ int64) bool { return f(x) })(s))
			}),
			c04V("AllWithContext", func(s ro.Observable[int]) ro.Observable[int] {
				return c04B2I(ro.AllWithContext(func(c c04Ctx, x int) bool { return f(x) })(s))
			}),
			c04V("AllIWithContext", func(s ro.Observable[int]) ro.Observable[int] {
				return c04B2I(ro.AllIWithContext(func(c c04Ctx, x int, _ int64) bool { return f(x) })(s))
			}),
		}
	}},
	{name: "AllI", mk: func(k int, lg *c04Log, _ []int) []c04Variant {
		f := func(x int, i int64) bool { return int(i) < k || x == 1 }
		return []c04Variant{
			c04V("AllI", func(s ro.Observable[int]) ro.Observable[int] { return c04B2I(ro.AllI(f)(s)) }),
			c04V("AllIWithContext", func(s ro.Observable[int]) ro.Observable[int] {
				return c04B2I(ro.AllIWithContext(func(c c04Ctx, x int, i int64) bool { return f(x, i) })(s))
			}),
		}
	}},
	{name: "Contains", mk: func(k int, lg *c04Log, _ []int) []c04Variant {
		f := func(x int) bool { return x == k }
		return []c04Variant{
			c04V("Contains", func(s ro.Observable[int]) ro.Observable[int] { return c04B2I(ro.Contains(f)(s)) }),
			c04V("ContainsI", func(s ro.Observable[int]) ro.Observable[int] {
				return c04B2I(ro.ContainsI(func(x int, _ int64) bool { return f(x) })(s))
			}),
			c04V("ContainsWithContext", func(s ro.Observable[int]) ro.Observable[int] {
				return c04B2I(ro.ContainsWithContext(func(c c04Ctx, x int) bool { return f(x) })(s))
			}),
			c04V("ContainsIWithContext", func(s ro.Observable[int]) ro.Observable[int] {
				return c04B2I(ro.ContainsIWithContext(func(c c04Ctx, x int, _ int64) bool { return f(x) })(s))
			}),
		}
	}},
	{name: "ContainsI", mk: func(k int, lg *c04Log, _ []int) []c04Variant {
		f := func(x int, i int64) bool { return int(i) == k }
		var n1 int64
		return []c04Variant{
			c04V("ContainsI", func(s ro.Observable[int]) ro.Observable[int] { return c04B2I(ro.ContainsI(f)(s)) }),
			c04V("ContainsIWithContext", func(s ro.Observable[int]) ro.Observable[int] {
				return c04B2I(ro.ContainsIWithContext(func(c c04Ctx, x int, i int64) bool { return f(x, i) })(s))
			}),
			c04V("Contains+counter", func(s ro.Observable[int]) ro.Observable[int] {
				return c04B2I(ro.Contains(func(x int) bool { n1++; return f(x, n1-1) })(s))
			}),
		}
	}},
	{name: "Find", mk: func(k int, lg *c04Log, _ []int) []c04Variant {
		f := func(x int) bool { return x == k }
		return []c04Variant{
			c04V("Find", ro.Find(f)),
			c04V("FindI", ro.FindI(func(x int, _ int64) bool { return f(x) })),
			c04V("FindWithContext", ro.FindWithContext(func(c c04Ctx, x int) bool { return f(x) })),
			c04V("FindIWithContext", ro.FindIWithContext(func(c c04Ctx, x int, _ int64) bool { return f(x) })),
		}
	}},
	{name: "FindI", mk: func(k int, lg *c04Log, _ []int) []c04Variant {
		f := func(x int, i int64) bool { return int(i) == k }
		var n1 int64
		return []c04Variant{
			c04V("FindI", ro.FindI(f)),
			c04V("FindIWithContext", ro.FindIWithContext(func(c c04Ctx, x int, i int64) bool { return f(x, i) })),
			c04V("Find+counter", ro.Find(func(x int) bool { n1++; return f(x, n1-1) })),
			c04V("ElementAt-ish", func(s ro.Observable[int]) ro.Observable[int] {
				return ro.Take[int](1)(ro.Skip[int](int64(k))(s))
			}),
		}
	}},
	{name: "MapErr", mk: func(k int, lg *c04Log, _ []int) []c04Variant {
		f := func(x int) (int, error) {
			if x == k {
				return 0, ScriptError(60)
			}
			return x + 1, nil
		}
		return []c04Variant{
			c04V("MapErr", ro.MapErr(f)),
			c04V("MapErrI", ro.MapErrI(func(x int, _ int64) (int, error) { return f(x) })),
			c04V("MapErrWithContext", ro.MapErrWithContext(func(c c04Ctx, x int) (int, c04Ctx, error) { r, err := f(x); return r, c, err })),
			c04V("MapErrIWithContext", ro.MapErrIWithContext(func(c c04Ctx, x int, _ int64) (int, c04Ctx, error) { r, err := f(x); return r, c, err })),
		}
	}},
	{name: "MapErrI", mk: func(k int, lg *c04Log, _ []int) []c04Variant {
		f := func(x int, i int64) (int, error) {
			if int(i) == k {
				return 0, ScriptError(60)
			}
			return x*10 + int(i), nil
		}
		var n1 int64
		return []c04Variant{
			c04V("MapErrI", ro.MapErrI(f)),
			c04V("MapErrIWithContext", ro.MapErrIWithContext(func(c c04Ctx, x int, i int64) (int, c04Ctx, error) { r, err := f(x, i); return r, c, err })),
			c04V("MapErr+counter", ro.MapErr(func(x int) (int, error) { n1++; return f(x, n1-1) })),
		}
	}},
	{name: "FlatMap", mk: func(k int, lg *c04Log, _ []int) []c04Variant {
		f := func(x int) ro.Observable[int] { return ro.Just(x, x+100+k) }
		return []c04Variant{
			c04V("FlatMap", ro.FlatMap(f)),
			c04V("FlatMapI", ro.FlatMapI(func(x int, _ int64) ro.Observable[int] { return f(x) })),
			c04V("FlatMapWithContext", ro.FlatMapWithContext(func(c c04Ctx, x int) ro.Observable[int] { return f(x) })),
			c04V("FlatMapIWithContext", ro.FlatMapIWithContext(func(c c04Ctx, x int, _ int64) ro.Observable[int] { return f(x) })),
			// synchronous inner observables: merging and concatenating coincide
			c04V("MergeMap", ro.MergeMap(f)),
		}
	}},
	{name: "FlatMapI", mk: func(k int, lg *c04Log, _ []int) []c04Variant {
		f := func(x int, i int64) ro.Observable[int] { return ro.Just(x, int(i)+100+k) }
		var n1 int64
		return []c04Variant{
			c04V("FlatMapI", ro.FlatMapI(f)),
			c04V("FlatMapIWithContext", ro.FlatMapIWithContext(func(c c04Ctx, x int, i int64) ro.Observable[int] { return f(x, i) })),
			c04V("FlatMap+counter", ro.FlatMap(func(x int) ro.Observable[int] { n1++; return f(x, n1-1) })),
		}
	}},
	{name: "MergeMap", mk: func(k int, lg *c04Log, _ []int) []c04Variant {
		f := func(x int) ro.Observable[int] { return ro.Just(x, x+100+k) }
		return []c04Variant{
			c04V("MergeMap", ro.MergeMap(f)),
			c04V("MergeMapI", ro.MergeMapI(func(x int, _ int64) ro.Observable[int] { return f(x) })),
			c04V("MergeMapWithContext", ro.MergeMapWithContext(func(c c04Ctx, x int) ro.Observable[int] { return f(x) })),
			c04V("MergeMapIWithContext", ro.MergeMapIWithContext(func(c c04Ctx, x int, _ int64) (c04Ctx, ro.Observable[int]) { return c, f(x) })),
		}
	}},
	{name: "MergeMapI", mk: func(k int, lg *c04Log, _ []int) []c04Variant {
		f := func(x int, i int64) ro.Observable[int] { return ro.Just(x, int(i)+100+k) }
		var n1 int64
		return []c04Variant{
			c04V("MergeMapI", ro.MergeMapI(f)),
			c04V("MergeMapIWithContext", ro.MergeMapIWithContext(func(c c04Ctx, x int, i int64) (c04Ctx, ro.Observable[int]) { return c, f(x, i) })),
			c04V("MergeMap+counter", ro.MergeMap(func(x int) ro.Observable[int] { n1++; return f(x, n1-1) })),
		}
	}},
	{name: "DistinctBy", mk: func(k int, lg *c04Log, _ []int) []c04Variant {
		f := func(x int) int { return x % (k + 1) }
		vs := []c04Variant{
			c04V("DistinctBy", ro.DistinctBy(f)),
			c04V("DistinctByWithContext", ro.DistinctByWithContext(func(c c04Ctx, x int) (c04Ctx, int) { return c, f(x) })),
		}
		if k == 3 { // x % 4 is the identity on the alphabet {1,2,3}
			vs = append(vs, c04V("Distinct", ro.Distinct[int]()))
		}
		return vs
	}},
	{name: "GroupBy", mk: func(k int, lg *c04Log, _ []int) []c04Variant {
		f := func(x int) int { return x % (k + 1) }
		mg := ro.MergeAll[int]()
		return []c04Variant{
			c04V("GroupBy", func(s ro.Observable[int]) ro.Observable[int] { return mg(ro.GroupBy(f)(s)) }),
			c04V("GroupByI", func(s ro.Observable[int]) ro.Observable[int] {
				return mg(ro.GroupByI(func(x int, _ int64) int { return f(x) })(s))
			}),
			c04V("GroupByWithContext", func(s ro.Observable[int]) ro.Observable[int] {
				return mg(ro.GroupByWithContext(func(c c04Ctx, x int) (c04Ctx, int) { return c, f(x) })(s))
			}),
			c04V("GroupByIWithContext", func(s ro.Observable[int]) ro.Observable[int] {
				return mg(ro.GroupByIWithContext(func(c c04Ctx, x int, _ int64) (c04Ctx, int) { return c, f(x) })(s))
			}),
		}
	}},
	{name: "ToMap", mk: func(k int, lg *c04Log, _ []int) []c04Variant {
		f := func(x int) (int, int) { return x % (k + 1), x }
		enc := ro.Map(c04MapEnc)
		return []c04Variant{
			c04V("ToMap", func(s ro.Observable[int]) ro.Observable[int] { return enc(ro.ToMap(f)(s)) }),
			c04V("ToMapI", func(s ro.Observable[int]) ro.Observable[int] {
				return enc(ro.ToMapI(func(x int, _ int64) (int, int) { return f(x) })(s))
			}),
			c04V("ToMapWithContext", func(s ro.Observable[int]) ro.Observable[int] {
				return enc(ro.ToMapWithContext(func(c c04Ctx, x int) (int, int) { return f(x) })(s))
			}),
			c04V("ToMapIWithContext", func(s ro.Observable[int]) ro.Observable[int] {
				return enc(ro.ToMapIWithContext(func(c c04Ctx, x int, _ int64) (int, int) { return f(x) })(s))
			}),
		}
	}},
	{name: "Tap", effects: func(in []N) []string { return c04TapLog(in, "nec") }, mk: func(k int, lg *c04Log, _ []int) []c04Variant {
		n := func(x int) { lg.add(fmt.Sprintf("n%d", x)) }
		er := func(err error) { lg.add("e:" + errCode(err)) }
		c := func() { lg.add("c") }
		nc := func(_ c04Ctx, x int) { n(x) }
		ec := func(_ c04Ctx, err error) { er(err) }
		cc := func(_ c04Ctx) { c() }
		return []c04Variant{
			c04V("Tap", ro.Tap(n, er, c)),
			c04V("Do", ro.Do(n, er, c)),
			c04V("TapWithContext", ro.TapWithContext(nc, ec, cc)),
			c04V("DoWithContext", ro.DoWithContext(nc, ec, cc)),
		}
	}},
	{name: "TapOnNext", effects: func(in []N) []string { return c04TapLog(in, "n") }, mk: func(k int, lg *c04Log, _ []int) []c04Variant {
		n := func(x int) { lg.add(fmt.Sprintf("n%d", x)) }
		nc := func(_ c04Ctx, x int) { n(x) }
		return []c04Variant{
			c04V("TapOnNext", ro.TapOnNext(n)),
			c04V("DoOnNext", ro.DoOnNext(n)),
			c04V("TapOnNextWithContext", ro.TapOnNextWithContext(nc)),
			c04V("DoOnNextWithContext", ro.DoOnNextWithContext(nc)),
			c04V("Tap(next only)", ro.Tap(n, func(error) {}, func() {})),
		}
	}},
	{name: "TapOnError", effects: func(in []N) []string { return c04TapLog(in, "e") }, mk: func(k int, lg *c04Log, _ []int) []c04Variant {
		er := func(err error) { lg.add("e:" + errCode(err)) }
		ec := func(_ c04Ctx, err error) { er(err) }
		return []c04Variant{
			c04V("TapOnError", ro.TapOnError[int](er)),
			c04V("DoOnError", ro.DoOnError[int](er)),
			c04V("TapOnErrorWithContext", ro.TapOnErrorWithContext[int](ec)),
			c04V("DoOnErrorWithContext", ro.DoOnErrorWithContext[int](ec)),
			c04V("Tap(error only)", ro.Tap(func(int) {}, er, func() {})),
		}
	}},
	{name: "TapOnComplete", effects: func(in []N) []string { return c04TapLog(in, "c") }, mk: func(k int, lg *c04Log, _ []int) []c04Variant {
		c := func() { lg.add("c") }
		cc := func(_ c04Ctx) { c() }
		return []c04Variant{
			c04V("TapOnComplete", ro.TapOnComplete[int](c)),
			c04V("DoOnComplete", ro.DoOnComplete[int](c)),
			c04V("TapOnCompleteWithContext", ro.TapOnCompleteWithContext[int](cc)),
			c04V("DoOnCompleteWithContext", ro.DoOnCompleteWithContext[int](cc)),
			c04V("Tap(complete only)", ro.Tap(func(int) {}, func(error) {}, c)),
		}
	}},
	{name: "TapOnSubscribe", effects: func(in []N) []string { return []string{"s@0"} }, mk: func(k int, lg *c04Log, _ []int) []c04Variant {
		s := func() { lg.add("s") }
		sc := func(_ c04Ctx) { s() }
		return []c04Variant{
			c04V("TapOnSubscribe", ro.TapOnSubscribe[int](s)),
			c04V("DoOnSubscribe", ro.DoOnSubscribe[int](s)),
			c04V("TapOnSubscribeWithContext", ro.TapOnSubscribeWithContext[int](sc)),
			c04V("DoOnSubscribeWithContext", ro.DoOnSubscribeWithContext[int](sc)),
		}
	}},
	{name: "TapOnFinalize", effects: func(in []N) []string {
		if n := len(in); n > 0 && in[n-1].K != 'N' {
			return []string{fmt.Sprintf("f@%d", n)}
		}
		return []string{}
	}, mk: func(k int, lg *c04Log, _ []int) []c04Variant {
		f := func() { lg.add("f") }
		return []c04Variant{
			c04V("TapOnFinalize", ro.TapOnFinalize[int](f)),
			c04V("DoOnFinalize", ro.DoOnFinalize[int](f)),
		}
	}},
	{name: "DefaultIfEmpty", mk: func(k int, lg *c04Log, _ []int) []c04Variant {
		return []c04Variant{
			c04V("DefaultIfEmpty", ro.DefaultIfEmpty(50+k)),
			c04V("DefaultIfEmptyWithContext", ro.DefaultIfEmptyWithContext(context.Background(), 50+k)),
		}
	}},
	{name: "ContextMap", mk: func(k int, lg *c04Log, _ []int) []c04Variant {
		f := func(c c04Ctx) c04Ctx { return context.WithValue(c, ctxKey("c04"), k) }
		return []c04Variant{
			c04V("ContextMap", ro.ContextMap[int](f)),
			c04V("ContextMapI", ro.ContextMapI[int](func(c c04Ctx, _ int64) c04Ctx { return f(c) })),
			c04V("ContextWithValue", ro.ContextWithValue[int](ctxKey("c04"), k)),
		}
	}},
	{name: "DoWhile", mk: func(k int, lg *c04Log, _ []int) []c04Variant {
		var n1, n2, n3, n4 int
		return []c04Variant{
			c04V("DoWhile", ro.DoWhile[int](func() bool { n1++; return n1 <= k })),
			c04V("DoWhileI", ro.DoWhileI[int](func(_ int64) bool { n2++; return n2 <= k })),
			c04V("DoWhileWithContext", ro.DoWhileWithContext[int](func(c c04Ctx) (c04Ctx, bool) { n3++; return c, n3 <= k })),
			c04V("DoWhileIWithContext", ro.DoWhileIWithContext[int](func(c c04Ctx, _ int64) (c04Ctx, bool) { n4++; return c, n4 <= k })),
		}
	}},
	{name: "While", mk: func(k int, lg *c04Log, _ []int) []c04Variant {
		var n1, n2, n3, n4 int
		return []c04Variant{
			c04V("While", ro.While[int](func() bool { n1++; return n1 <= k })),
			c04V("WhileI", ro.WhileI[int](func(_ int64) bool { n2++; return n2 <= k })),
			c04V("WhileWithContext", ro.WhileWithContext[int](func(c c04Ctx) (c04Ctx, bool) { n3++; return c, n3 <= k })),
			c04V("WhileIWithContext", ro.WhileIWithContext[int](func(c c04Ctx, _ int64) (c04Ctx, bool) { n4++; return c, n4 <= k })),
		}
	}},
	{name: "DoWhileI", mk: func(k int, lg *c04Log, _ []int) []c04Variant {
		// the index handed to the condition is the zero-based number of the completed run
		var n1 int64
		return []c04Variant{
			c04V("DoWhileI", ro.DoWhileI[int](func(i int64) bool { return int(i) < k })),
			c04V("DoWhileIWithContext", ro.DoWhileIWithContext[int](func(c c04Ctx, i int64) (c04Ctx, bool) { return c, int(i) < k })),
			c04V("DoWhile+counter", ro.DoWhile[int](func() bool { n1++; return int(n1-1) < k })),
		}
	}},
	{name: "WhileI", mk: func(k int, lg *c04Log, _ []int) []c04Variant {
		var n1 int64
		return []c04Variant{
			c04V("WhileI", ro.WhileI[int](func(i int64) bool { return int(i) < k })),
			c04V("WhileIWithContext", ro.WhileIWithContext[int](func(c c04Ctx, i int64) (c04Ctx, bool) { return c, int(i) < k })),
			c04V("While+counter", ro.While[int](func() bool { n1++; return int(n1-1) < k })),
		}
	}},
	{name: "Head", loose: true, mk: func(k int, lg *c04Log, _ []int) []c04Variant {
		yes := func(int) bool { return true }
		return []c04Variant{
			c04V("Head", ro.Head[int]()),
			c04V("First(true)", ro.First(yes)),
			c04V("FirstI(true)", ro.FirstI(func(int, int64) bool { return true })),
			c04V("ElementAt(0)", ro.ElementAt[int](0)),
		}
	}},
	{name: "Tail", loose: true, mk: func(k int, lg *c04Log, _ []int) []c04Variant {
		return []c04Variant{
			c04V("Tail", ro.Tail[int]()),
			c04V("Last(true)", ro.Last(func(int) bool { return true })),
			c04V("LastI(true)", ro.LastI(func(int, int64) bool { return true })),
		}
	}},
	{name: "Of", mk: func(k int, lg *c04Log, vals []int) []c04Variant {
		h := k
		if h > len(vals) {
			h = len(vals)
		}
		cp := func() []int { return append([]int(nil), vals...) }
		return []c04Variant{
			c04VS("Of", func(_ []ro.Observable[int]) ro.Observable[int] { return ro.Of(cp()...) }),
			c04VS("Just", func(_ []ro.Observable[int]) ro.Observable[int] { return ro.Just(cp()...) }),
			c04VS("FromSlice", func(_ []ro.Observable[int]) ro.Observable[int] { return ro.FromSlice(cp()) }),
			c04VS("FromSlice(a,b)", func(_ []ro.Observable[int]) ro.Observable[int] { c := cp(); return ro.FromSlice(c[:h], c[h:]) }),
		}
	}},
	{name: "Iif", nsrc: 2, mk: func(k int, lg *c04Log, _ []int) []c04Variant {
		pred := func() bool { return k%2 == 0 }
		return []c04Variant{
			c04VS("Iif", func(s []ro.Observable[int]) ro.Observable[int] { return ro.Iif(pred, s[0], s[1])() }),
			c04VS("Defer(if)", func(s []ro.Observable[int]) ro.Observable[int] {
				return ro.Defer(func() ro.Observable[int] {
					if pred() {
						return s[0]
					}
					return s[1]
				})
			}),
		}
	}},
	{name: "Start", loose: true, mk: func(k int, lg *c04Log, _ []int) []c04Variant {
		return []c04Variant{
			c04VS("Just", func(_ []ro.Observable[int]) ro.Observable[int] { return ro.Just(k) }),
			c04VS("Start", func(_ []ro.Observable[int]) ro.Observable[int] { return ro.Start(func() int { return k }) }),
			c04VS("Future", func(_ []ro.Observable[int]) ro.Observable[int] {
				return ro.Future(func() (int, error) { return k, nil })
			}),
			c04VS("Defer(Just)", func(_ []ro.Observable[int]) ro.Observable[int] {
				return ro.Defer(func() ro.Observable[int] { return ro.Just(k) })
			}),
		}
	}},
	{name: "FutureErr", loose: true, mk: func(k int, lg *c04Log, _ []int) []c04Variant {
		return []c04Variant{
			c04VS("Throw", func(_ []ro.Observable[int]) ro.Observable[int] { return ro.Throw[int](ScriptError(k)) }),
			c04VS("Future", func(_ []ro.Observable[int]) ro.Observable[int] {
				return ro.Future(func() (int, error) { return 0, ScriptError(k) })
			}),
		}
	}},
	{name: "Timestamp", mk: func(k int, lg *c04Log, _ []int) []c04Variant {
		return []c04Variant{
			c04V("Map(id)", ro.Map(func(x int) int { return x })),
			c04VS("Timestamp.Value", func(s []ro.Observable[int]) ro.Observable[int] {
				return ro.Map(func(v ro.TimestampValue[int]) int { return v.Value })(ro.Timestamp[int]()(s[0]))
			}),
			c04VS("TimeInterval.Value", func(s []ro.Observable[int]) ro.Observable[int] {
				return ro.Map(func(v ro.IntervalValue[int]) int { return v.Value })(ro.TimeInterval[int]()(s[0]))
			}),
		}
	}},
	{name: "CombineLatestAny", nsrc: 3, mk: func(k int, lg *c04Log, _ []int) []c04Variant {
		toAny := func(s []ro.Observable[int]) []ro.Observable[any] {
			out := make([]ro.Observable[any], len(s))
			for i := range s {
				// the element type is an interface: consecutive values of one source differ in dynamic type,
				// and one of them is the nil interface value
				out[i] = ro.Map(func(x int) any {
					switch {
					case x == 2:
						return nil
					case x%3 == 0:
						return int64(x)
					case x%3 == 1:
						return strconv.Itoa(x)
					}
					return x
				})(s[i])
			}
			return out
		}
		anys2i := func(a []any) int {
			v := make([]int, len(a))
			for i := range a {
				switch t := a[i].(type) {
				case nil:
					v[i] = 2
				case int64:
					v[i] = int(t)
				case string:
					v[i], _ = strconv.Atoi(t)
				case int:
					v[i] = t
				}
			}
			return sl2i(v)
		}
		return []c04Variant{
			c04VS("CombineLatestAll", func(s []ro.Observable[int]) ro.Observable[int] {
				return ro.Map(sl2i)(ro.CombineLatestAll[int]()(ro.Just(s...)))
			}),
			c04VS("CombineLatestAny", func(s []ro.Observable[int]) ro.Observable[int] {
				return ro.Map(anys2i)(ro.CombineLatestAny(toAny(s)...))
			}),
			c04VS("CombineLatestAllAny", func(s []ro.Observable[int]) ro.Observable[int] {
				return ro.Map(anys2i)(ro.CombineLatestAllAny()(ro.Just(toAny(s)...)))
			}),
		}
	}},
	{name: "Race", nsrc: 2, mk: func(k int, lg *c04Log, _ []int) []c04Variant {
		return []c04Variant{
			c04VS("Race", func(s []ro.Observable[int]) ro.Observable[int] { return ro.Race(s...) }),
			c04VS("Amb", func(s []ro.Observable[int]) ro.Observable[int] { return ro.Amb(s...) }),
			c04VS("RaceWith", func(s []ro.Observable[int]) ro.Observable[int] { return ro.RaceWith(s[1:]...)(s[0]) }),
		}
	}},
	{name: "Concat", nsrc: 2, mk: func(k int, lg *c04Log, _ []int) []c04Variant {
		return []c04Variant{
			c04VS("Concat", func(s []ro.Observable[int]) ro.Observable[int] { return ro.Concat(s...) }),
			c04VS("ConcatWith", func(s []ro.Observable[int]) ro.Observable[int] { return ro.ConcatWith(s[1:]...)(s[0]) }),
			c04VS("ConcatAll", func(s []ro.Observable[int]) ro.Observable[int] { return ro.ConcatAll[int]()(ro.Just(s...)) }),
		}
	}},
	{name: "Merge", nsrc: 2, mk: func(k int, lg *c04Log, _ []int) []c04Variant {
		return []c04Variant{
			c04VS("Merge", func(s []ro.Observable[int]) ro.Observable[int] { return ro.Merge(s...) }),
			c04VS("MergeWith", func(s []ro.Observable[int]) ro.Observable[int] { return ro.MergeWith(s[1:]...)(s[0]) }),
			c04VS("MergeAll", func(s []ro.Observable[int]) ro.Observable[int] { return ro.MergeAll[int]()(ro.Just(s...)) }),
		}
	}},
	{name: "Zip2", nsrc: 2, mk: func(k int, lg *c04Log, _ []int) []c04Variant {
		return []c04Variant{
			c04VS("Zip2", func(s []ro.Observable[int]) ro.Observable[int] { return ro.Map(t2i)(ro.Zip2(s[0], s[1])) }),
			c04VS("ZipWith", func(s []ro.Observable[int]) ro.Observable[int] { return ro.Map(t2i)(ro.ZipWith[int](s[1])(s[0])) }),
			c04VS("ZipWith1", func(s []ro.Observable[int]) ro.Observable[int] { return ro.Map(t2i)(ro.ZipWith1[int](s[1])(s[0])) }),
		}
	}},
	// the fixed arities are hand-written separately in the library: each against the variadic form
	{name: "Zip3", nsrc: 3, mk: func(k int, lg *c04Log, _ []int) []c04Variant {
		return []c04Variant{
			c04VS("Zip", func(s []ro.Observable[int]) ro.Observable[int] { return ro.Map(sl2i)(ro.Zip(s...)) }),
			c04VS("Zip3", func(s []ro.Observable[int]) ro.Observable[int] {
				return ro.Map(func(t lo.Tuple3[int, int, int]) int { return sl2i([]int{t.A, t.B, t.C}) })(ro.Zip3(s[0], s[1], s[2]))
			}),
			c04VS("ZipWith2", func(s []ro.Observable[int]) ro.Observable[int] {
				return ro.Map(func(t lo.Tuple3[int, int, int]) int { return sl2i([]int{t.A, t.B, t.C}) })(ro.ZipWith2[int](s[1], s[2])(s[0]))
			}),
		}
	}},
	{name: "Zip4", nsrc: 4, mk: func(k int, lg *c04Log, _ []int) []c04Variant {
		return []c04Variant{
			c04VS("Zip", func(s []ro.Observable[int]) ro.Observable[int] { return ro.Map(sl2i)(ro.Zip(s...)) }),
			c04VS("Zip4", func(s []ro.Observable[int]) ro.Observable[int] {
				return ro.Map(func(t lo.Tuple4[int, int, int, int]) int { return sl2i([]int{t.A, t.B, t.C, t.D}) })(ro.Zip4(s[0], s[1], s[2], s[3]))
			}),
			c04VS("ZipWith3", func(s []ro.Observable[int]) ro.Observable[int] {
				return ro.Map(func(t lo.Tuple4[int, int, int, int]) int { return sl2i([]int{t.A, t.B, t.C, t.D}) })(ro.ZipWith3[int](s[1], s[2], s[3])(s[0]))
			}),
		}
	}},
	{name: "Zip5", nsrc: 5, mk: func(k int, lg *c04Log, _ []int) []c04Variant {
		return []c04Variant{
			c04VS("Zip", func(s []ro.Observable[int]) ro.Observable[int] { return ro.Map(sl2i)(ro.Zip(s...)) }),
			c04VS("Zip5", func(s []ro.Observable[int]) ro.Observable[int] {
				return ro.Map(func(t lo.Tuple5[int, int, int, int, int]) int { return sl2i([]int{t.A, t.B, t.C, t.D, t.E}) })(ro.Zip5(s[0], s[1], s[2], s[3], s[4]))
			}),
			c04VS("ZipWith4", func(s []ro.Observable[int]) ro.Observable[int] {
				return ro.Map(func(t lo.Tuple5[int, int, int, int, int]) int { return sl2i([]int{t.A, t.B, t.C, t.D, t.E}) })(ro.ZipWith4[int](s[1], s[2], s[3], s[4])(s[0]))
			}),
		}
	}},
	{name: "Zip6", nsrc: 6, mk: func(k int, lg *c04Log, _ []int) []c04Variant {
		return []c04Variant{
			c04VS("Zip", func(s []ro.Observable[int]) ro.Observable[int] { return ro.Map(sl2i)(ro.Zip(s...)) }),
			c04VS("Zip6", func(s []ro.Observable[int]) ro.Observable[int] {
				return ro.Map(func(t lo.Tuple6[int, int, int, int, int, int]) int { return sl2i([]int{t.A, t.B, t.C, t.D, t.E, t.F}) })(ro.Zip6(s[0], s[1], s[2], s[3], s[4], s[5]))
			}),
			c04VS("ZipWith5", func(s []ro.Observable[int]) ro.Observable[int] {
				return ro.Map(func(t lo.Tuple6[int, int, int, int, int, int]) int { return sl2i([]int{t.A, t.B, t.C, t.D, t.E, t.F}) })(ro.ZipWith5[int](s[1], s[2], s[3], s[4], s[5])(s[0]))
			}),
		}
	}},
	{name: "CombineLatest3", nsrc: 3, mk: func(k int, lg *c04Log, _ []int) []c04Variant {
		return []c04Variant{
			c04VS("CombineLatestAll", func(s []ro.Observable[int]) ro.Observable[int] {
				return ro.Map(sl2i)(ro.CombineLatestAll[int]()(ro.Just(s...)))
			}),
			c04VS("CombineLatest3", func(s []ro.Observable[int]) ro.Observable[int] {
				return ro.Map(func(t lo.Tuple3[int, int, int]) int { return sl2i([]int{t.A, t.B, t.C}) })(ro.CombineLatest3(s[0], s[1], s[2]))
			}),
			c04VS("CombineLatestWith2", func(s []ro.Observable[int]) ro.Observable[int] {
				return ro.Map(func(t lo.Tuple3[int, int, int]) int { return sl2i([]int{t.A, t.B, t.C}) })(ro.CombineLatestWith2[int](s[1], s[2])(s[0]))
			}),
		}
	}},
	{name: "CombineLatest4", nsrc: 4, mk: func(k int, lg *c04Log, _ []int) []c04Variant {
		return []c04Variant{
			c04VS("CombineLatestAll", func(s []ro.Observable[int]) ro.Observable[int] {
				return ro.Map(sl2i)(ro.CombineLatestAll[int]()(ro.Just(s...)))
			}),
			c04VS("CombineLatest4", func(s []ro.Observable[int]) ro.Observable[int] {
				return ro.Map(func(t lo.Tuple4[int, int, int, int]) int { return sl2i([]int{t.A, t.B, t.C, t.D}) })(ro.CombineLatest4(s[0], s[1], s[2], s[3]))
			}),
			c04VS("CombineLatestWith3", func(s []ro.Observable[int]) ro.Observable[int] {
				return ro.Map(func(t lo.Tuple4[int, int, int, int]) int { return sl2i([]int{t.A, t.B, t.C, t.D}) })(ro.CombineLatestWith3[int](s[1], s[2], s[3])(s[0]))
			}),
		}
	}},
	{name: "CombineLatest5", nsrc: 5, mk: func(k int, lg *c04Log, _ []int) []c04Variant {
		return []c04Variant{
			c04VS("CombineLatestAll", func(s []ro.Observable[int]) ro.Observable[int] {
				return ro.Map(sl2i)(ro.CombineLatestAll[int]()(ro.Just(s...)))
			}),
			c04VS("CombineLatest5", func(s []ro.Observable[int]) ro.Observable[int] {
				return ro.Map(func(t lo.Tuple5[int, int, int, int, int]) int { return sl2i([]int{t.A, t.B, t.C, t.D, t.E}) })(ro.CombineLatest5(s[0], s[1], s[2], s[3], s[4]))
			}),
			c04VS("CombineLatestWith4", func(s []ro.Observable[int]) ro.Observable[int] {
				return ro.Map(func(t lo.Tuple5[int, int, int, int, int]) int { return sl2i([]int{t.A, t.B, t.C, t.D, t.E}) })(ro.CombineLatestWith4[int](s[1], s[2], s[3], s[4])(s[0]))
			}),
		}
	}},
	{name: "MergeWithN", nsrc: 6, mk: func(k int, lg *c04Log, _ []int) []c04Variant {
		return []c04Variant{
			c04VS("Merge", func(s []ro.Observable[int]) ro.Observable[int] { return ro.Merge(s...) }),
			c04VS("MergeWith5", func(s []ro.Observable[int]) ro.Observable[int] {
				return ro.MergeWith5(s[1], s[2], s[3], s[4], s[5])(s[0])
			}),
			c04VS("MergeWith4+1", func(s []ro.Observable[int]) ro.Observable[int] {
				return ro.MergeWith1(s[5])(ro.MergeWith4(s[1], s[2], s[3], s[4])(s[0]))
			}),
			c04VS("MergeWith3+2", func(s []ro.Observable[int]) ro.Observable[int] {
				return ro.MergeWith2(s[4], s[5])(ro.MergeWith3(s[1], s[2], s[3])(s[0]))
			}),
		}
	}},
	{name: "ZipAll", nsrc: 2, mk: func(k int, lg *c04Log, _ []int) []c04Variant {
		return []c04Variant{
			c04VS("Zip", func(s []ro.Observable[int]) ro.Observable[int] { return ro.Map(sl2i)(ro.Zip(s...)) }),
			c04VS("ZipAll", func(s []ro.Observable[int]) ro.Observable[int] { return ro.Map(sl2i)(ro.ZipAll[int]()(ro.Just(s...))) }),
		}
	}},
	{name: "CombineLatest2", nsrc: 2, mk: func(k int, lg *c04Log, _ []int) []c04Variant {
		return []c04Variant{
			c04VS("CombineLatest2", func(s []ro.Observable[int]) ro.Observable[int] { return ro.Map(t2i)(ro.CombineLatest2(s[0], s[1])) }),
			c04VS("CombineLatestWith", func(s []ro.Observable[int]) ro.Observable[int] {
				return ro.Map(t2i)(ro.CombineLatestWith[int](s[1])(s[0]))
			}),
			c04VS("CombineLatestWith1", func(s []ro.Observable[int]) ro.Observable[int] {
				return ro.Map(t2i)(ro.CombineLatestWith1[int](s[1])(s[0]))
			}),
		}
	}},
}

func c04VarFamByName(name string) *c04VarFam {
	for _, f := range c04VarFams {
		if f.name == name {
			return f
		}
	}
	return nil
}

func c04ValuesOf(sc []Step) []int {
	var out []int
	for _, s := range sc {
		if s.K == "N" {
			out = append(out, s.V)
		}
	}
	return out
}

func runC04Variants(e *Env) {
	sc := e.Sc
	fam := c04VarFamByName(sc.Sub)
	if fam == nil {
		panic("c04: unknown variant family " + sc.Sub)
	}
	k := sc.Int("k", 0)
	vals := c04ValuesOf(sc.Sources[0].Script)
	var refName, ref string
	for vi := 0; ; vi++ {
		lg := &c04Log{}
		vs := fam.mk(k, lg, vals)
		if vi >= len(vs) {
			break
		}
		v := vs[vi]
		var obs []ro.Observable[int]
		for _, sp := range sc.Sources {
			obs = append(obs, e.NewSrc(sp).Obs())
		}
		rec := e.NewRec(v.name)
		lg.count = func() int { return len(rec.Events) }
		h := e.Subscribe(v.build(obs), rec.Observer(), nil)
		e.SettleFor(50 * Unit)
		if e.K.Capped() {
			return
		}
		var tr string
		if fam.loose {
			tr = traceN(c04RecN(rec))
		} else {
			tr = rec.Trace()
		}
		if len(lg.entries) > 0 {
			tr += " / callbacks: " + strings.Join(lg.entries, " ")
		}
		if h.Panic != nil {
			tr += fmt.Sprintf(" / Subscribe panicked: %v", h.Panic)
		}
		if vi == 0 {
			refName, ref = v.name, tr
			if fam.effects != nil {
				in := scriptToN(sc.Sources[0].Script)
				if want := strings.Join(fam.effects(in), " "); want != strings.Join(lg.entries, " ") {
					c04Violate(e, "model:"+fam.name, fmt.Sprintf("%s over [%s] (%s source): the callbacks ran as [%s] (name@notifications delivered so far); documented: [%s]",
						v.name, traceN(in), sc.Sources[0].Mode, strings.Join(lg.entries, " "), want))
					return
				}
			}
			continue
		}
		if tr != ref {
			var ins []string
			for _, sp := range sc.Sources {
				ins = append(ins, "["+traceN(scriptToN(sp.Script))+"]")
			}
			c04Violate(e, "variant:"+fam.name, fmt.Sprintf("on %s (k=%d, %s source) %s delivered [%s] but %s delivered [%s]",
				strings.Join(ins, ","), k, sc.Sources[0].Mode, refName, ref, v.name, tr))
			return
		}
	}
}

func init() {
	Register(&Family{
		Name:   "C04.variants",
		Props:  []string{"C04"},
		Weight: 80,
		Gen: func(g *Gen) *Scn {
			fam := c04VarFams[g.Intn(len(c04VarFams))]
			sc := &Scn{Family: "C04.variants", Sub: fam.name}
			n := fam.nsrc
			if n == 0 {
				n = 1
			}
			if fam.name == "Race" || fam.name == "Concat" || fam.name == "Merge" || fam.name == "ZipAll" {
				n = g.Range(2, 3)
			}
			mode := "sync"
			if n == 1 && g.Bool(0.2) {
				mode = "async"
			}
			for i := 0; i < n; i++ {
				s := c04Script(g)
				if i > 0 {
					for j := range s {
						if s[j].K == "N" {
							s[j].V += 3 * i // keep the sources' values apart: {4,5,6}, {7,8,9}
						}
					}
				}
				sc.Sources = append(sc.Sources, SrcSpec{Mode: mode, Script: s})
			}
			sc.SetInt("k", g.Intn(4))
			sc.SetInt("seqmode", 1)
			return sc
		},
		Valid: func(sc *Scn) bool {
			fam := c04VarFamByName(sc.Sub)
			if fam == nil || len(sc.Sources) < 1 || len(sc.Sources) < fam.nsrc || len(sc.Stages) != 0 {
				return false
			}
			for _, s := range sc.Sources {
				if !c04WellFormed(s.Script) || (s.Mode != "sync" && !(len(sc.Sources) == 1 && s.Mode == "async")) {
					return false
				}
			}
			return true
		},
		Run: runC04Variants,
	})
}

// ---------------------------------------------------------------------------------------------
// C04.pipe

// stages usable in long pipes: modelled, single source, and not multiplying the number of values
func c04PipeStage(d *StageDef) bool {
	if d.Aux > 0 || d.Resub {
		return false
	}
	switch d.Name {
	case "FlatMap", "FlatMapI", "MergeMap", "MergeMapI":
		return false
	}
	return true
}

// heterogeneous operator lists (the element type changes along the pipe): reflective vs typed vs nesting
var c04Hetero = []struct {
	name  string
	build func(src ro.Observable[int], how int) ro.Observable[int]
}{
	{"Count|Map", func(src ro.Observable[int], how int) ro.Observable[int] {
		a, b := ro.Count[int](), ro.Map(func(c int64) int { return int(c) + 10 })
		switch how {
		case 0:
			return b(a(src))
		case 1:
			return ro.Pipe[int, int](src, a, b)
		case 2:
			return ro.PipeOp[int, int](a, b)(src)
		case 3:
			return ro.Pipe2(src, a, b)
		}
		return ro.PipeOp2(a, b)(src)
	}},
	{"ToSlice|Flatten", func(src ro.Observable[int], how int) ro.Observable[int] {
		a, b := ro.ToSlice[int](), ro.Flatten[int]()
		switch how {
		case 0:
			return b(a(src))
		case 1:
			return ro.Pipe[int, int](src, a, b)
		case 2:
			return ro.PipeOp[int, int](a, b)(src)
		case 3:
			return ro.Pipe2(src, a, b)
		}
		return ro.PipeOp2(a, b)(src)
	}},
	{"Materialize|Dematerialize|Skip", func(src ro.Observable[int], how int) ro.Observable[int] {
		a, b, c := ro.Materialize[int](), ro.Dematerialize[int](), ro.Skip[int](1)
		switch how {
		case 0:
			return c(b(a(src)))
		case 1:
			return ro.Pipe[int, int](src, a, b, c)
		case 2:
			return ro.PipeOp[int, int](a, b, c)(src)
		case 3:
			return ro.Pipe3(src, a, b, c)
		}
		return ro.PipeOp3(a, b, c)(src)
	}},
	{"Take|BufferWithCount|Map|Filter", func(src ro.Observable[int], how int) ro.Observable[int] {
		a, b := ro.Take[int](5), ro.BufferWithCount[int](2)
		c, d := ro.Map(func(s []int) int { return len(s)*100 + lo.Sum(s) }), ro.Filter(func(x int) bool { return x != 204 })
		switch how {
		case 0:
			return d(c(b(a(src))))
		case 1:
			return ro.Pipe[int, int](src, a, b, c, d)
		case 2:
			return ro.PipeOp[int, int](a, b, c, d)(src)
		case 3:
			return ro.Pipe4(src, a, b, c, d)
		}
		return ro.PipeOp4(a, b, c, d)(src)
	}},
	{"Map(string)|Scan|Map(len)|Pairwise|Map", func(src ro.Observable[int], how int) ro.Observable[int] {
		a := ro.Map(func(x int) string { return strings.Repeat("x", x) })
		b := ro.Scan(func(acc string, s string) string { return acc + s + "." }, "")
		c := ro.Map(func(s string) int { return len(s) })
		d := ro.Pairwise[int]()
		f := ro.Map(func(p []int) int { return p[0]*100 + p[1] })
		switch how {
		case 0:
			return f(d(c(b(a(src)))))
		case 1:
			return ro.Pipe[int, int](src, a, b, c, d, f)
		case 2:
			return ro.PipeOp[int, int](a, b, c, d, f)(src)
		case 3:
			return ro.Pipe5(src, a, b, c, d, f)
		}
		return ro.PipeOp5(a, b, c, d, f)(src)
	}},
}

var c04PipeHow = []string{"nesting", "Pipe", "PipeOp", "PipeN", "PipeOpN"}

func runC04Pipe(e *Env) {
	installC04Models()
	sc := e.Sc
	het := sc.Int("hetero", 0)
	if het == 0 && (len(sc.Stages) < 1 || len(sc.Stages) > 25) {
		panic(fmt.Sprintf("c04: pipe scenario with %d stages", len(sc.Stages)))
	}
	if het > len(c04Hetero) {
		panic("c04: unknown heterogeneous pipe")
	}
	var ref string
	for how := range c04PipeHow {
		src := e.NewSrc(sc.Sources[0]).Obs()
		var o ro.Observable[int]
		var bad interface{}
		func() {
			defer func() { bad = recover() }()
			if het > 0 {
				o = c04Hetero[het-1].build(src, how)
				return
			}
			var ops []c04Op
			var anyOps []any
			for _, st := range sc.Stages {
				d := catalog[st.Op]
				if d == nil || d.Aux > 0 {
					panic("c04: bad pipe stage " + st.Op)
				}
				op := c04Op(d.Build(e, nil, st.P))
				ops = append(ops, op)
				anyOps = append(anyOps, op)
			}
			switch how {
			case 0:
				o = src
				for _, op := range ops {
					o = op(o)
				}
			case 1:
				o = ro.Pipe[int, int](src, anyOps...)
			case 2:
				o = ro.PipeOp[int, int](anyOps...)(src)
			case 3:
				o = c04PipeN(src, ops)
			default:
				o = c04PipeOpN(ops)(src)
			}
		}()
		if bad != nil {
			if how == 0 || strings.HasPrefix(fmt.Sprint(bad), "c04:") {
				panic(bad) // building the operators themselves failed: harness or scenario mistake
			}
			c04Violate(e, "pipe", fmt.Sprintf("%s over %s panicked while being built: %v", c04PipeHow[how], c04PipeDescribe(sc), bad))
			return
		}
		rec, h, ok := c04Observe(e, o, c04PipeHow[how])
		if !ok {
			return
		}
		tr := rec.Trace()
		if h.Panic != nil {
			tr += fmt.Sprintf(" / Subscribe panicked: %v", h.Panic)
		}
		if how == 0 {
			ref = tr
			continue
		}
		if tr != ref {
			c04Violate(e, "pipe", fmt.Sprintf("%s over [%s]: %s delivered [%s] but plain nesting of the same operators delivered [%s]",
				c04PipeDescribe(sc), traceN(scriptToN(sc.Sources[0].Script)), c04PipeHow[how], tr, ref))
			return
		}
	}
}

func c04PipeDescribe(sc *Scn) string {
	if h := sc.Int("hetero", 0); h > 0 && h <= len(c04Hetero) {
		return c04Hetero[h-1].name
	}
	return c04DescribeStages(sc)
}

func init() {
	Register(&Family{
		Name:   "C04.pipe",
		Props:  []string{"C04"},
		Weight: 60,
		Gen: func(g *Gen) *Scn {
			sc := &Scn{Family: "C04.pipe", Sub: "int"}
			script := c04Script(g)
			sc.Sources = []SrcSpec{{Mode: g.Pick("sync", "sync", "sync", "async"), Script: script}}
			sc.SetInt("seqmode", 1)
			if g.Bool(0.25) {
				sc.Sub = "typed"
				sc.SetInt("hetero", 1+g.Intn(len(c04Hetero)))
				return sc
			}
			names := c04Modelled(c04PipeStage)
			n := g.PickInt(1, 2, 3, 4, 5, 6)
			if g.Bool(0.5) {
				n = g.Range(1, 25)
			}
			for i := 0; i < n; i++ {
				addStage(g, sc, names[g.Intn(len(names))], nvalues(script), "sync")
			}
			return sc
		},
		Valid: func(sc *Scn) bool {
			if len(sc.Sources) != 1 || !c04WellFormed(sc.Sources[0].Script) {
				return false
			}
			if sc.Int("hetero", 0) > 0 {
				return sc.Sub == "typed" && len(sc.Stages) == 0 && sc.Int("hetero", 0) <= len(c04Hetero)
			}
			if sc.Sub != "int" || len(sc.Stages) < 1 || len(sc.Stages) > 25 {
				return false
			}
			for _, st := range sc.Stages {
				if d := catalog[st.Op]; d == nil || d.Aux > 0 || d.Hot || d.Async || d.Time || d.Handoff {
					return false
				}
			}
			return true
		},
		Run: runC04Pipe,
	})
}

// c04PipeN applies the typed ro.Pipe<len(o)> composition (generated, arities 1..25).
func c04PipeN(src ro.Observable[int], o []c04Op) ro.Observable[int] {
	switch len(o) {
	case 1:
		return ro.Pipe1(src, o[0])
	case 2:
		return ro.Pipe2(src, o[0], o[1])
	case 3:
		return ro.Pipe3(src, o[0], o[1], o[2])
	case 4:
		return ro.Pipe4(src, o[0], o[1], o[2], o[3])
	case 5:
		return ro.Pipe5(src, o[0], o[1], o[2], o[3], o[4])
	case 6:
		return ro.Pipe6(src, o[0], o[1], o[2], o[3], o[4], o[5])
	case 7:
		return ro.Pipe7(src, o[0], o[1], o[2], o[3], o[4], o[5], o[6])
	case 8:
		return ro.Pipe8(src, o[0], o[1], o[2], o[3], o[4], o[5], o[6], o[7])
	case 9:
		return ro.Pipe9(src, o[0], o[1], o[2], o[3], o[4], o[5], o[6], o[7], o[8])
	case 10:
		return ro.Pipe10(src, o[0], o[1], o[2], o[3], o[4], o[5], o[6], o[7], o[8], o[9])
	case 11:
		return ro.Pipe11(src, o[0], o[1], o[2], o[3], o[4], o[5], o[6], o[7], o[8], o[9], o[10])
	case 12:
		return ro.Pipe12(src, o[0], o[1], o[2], o[3], o[4], o[5], o[6], o[7], o[8], o[9], o[10], o[11])
	case 13:
		return ro.Pipe13(src, o[0], o[1], o[2], o[3], o[4], o[5], o[6], o[7], o[8], o[9], o[10], o[11], o[12])
	case 14:
		return ro.Pipe14(src, o[0], o[1], o[2], o[3], o[4], o[5], o[6], o[7], o[8], o[9], o[10], o[11], o[12], o[13])
	case 15:
		return ro.Pipe15(src, o[0], o[1], o[2], o[3], o[4], o[5], o[6], o[7], o[8], o[9], o[10], o[11], o[12], o[13], o[14])
	case 16:
		return ro.Pipe16(src, o[0], o[1], o[2], o[3], o[4], o[5], o[6], o[7], o[8], o[9], o[10], o[11], o[12], o[13], o[14], o[15])
	case 17:
		return ro.Pipe17(src, o[0], o[1], o[2], o[3], o[4], o[5], o[6], o[7], o[8], o[9], o[10], o[11], o[12], o[13], o[14], o[15], o[16])
	case 18:
		return ro.Pipe18(src, o[0], o[1], o[2], o[3], o[4], o[5], o[6], o[7], o[8], o[9], o[10], o[11], o[12], o[13], o[14], o[15], o[16], o[17])
	case 19:
		return ro.Pipe19(src, o[0], o[1], o[2], o[3], o[4], o[5], o[6], o[7], o[8], o[9], o[10], o[11], o[12], o[13], o[14], o[15], o[16], o[17], o[18])
	case 20:
		return ro.Pipe20(src, o[0], o[1], o[2], o[3], o[4], o[5], o[6], o[7], o[8], o[9], o[10], o[11], o[12], o[13], o[14], o[15], o[16], o[17], o[18], o[19])
	case 21:
		return ro.Pipe21(src, o[0], o[1], o[2], o[3], o[4], o[5], o[6], o[7], o[8], o[9], o[10], o[11], o[12], o[13], o[14], o[15], o[16], o[17], o[18], o[19], o[20])
	case 22:
		return ro.Pipe22(src, o[0], o[1], o[2], o[3], o[4], o[5], o[6], o[7], o[8], o[9], o[10], o[11], o[12], o[13], o[14], o[15], o[16], o[17], o[18], o[19], o[20], o[21])
	case 23:
		return ro.Pipe23(src, o[0], o[1], o[2], o[3], o[4], o[5], o[6], o[7], o[8], o[9], o[10], o[11], o[12], o[13], o[14], o[15], o[16], o[17], o[18], o[19], o[20], o[21], o[22])
	case 24:
		return ro.Pipe24(src, o[0], o[1], o[2], o[3], o[4], o[5], o[6], o[7], o[8], o[9], o[10], o[11], o[12], o[13], o[14], o[15], o[16], o[17], o[18], o[19], o[20], o[21], o[22], o[23])
	case 25:
		return ro.Pipe25(src, o[0], o[1], o[2], o[3], o[4], o[5], o[6], o[7], o[8], o[9], o[10], o[11], o[12], o[13], o[14], o[15], o[16], o[17], o[18], o[19], o[20], o[21], o[22], o[23], o[24])
	}
	panic(fmt.Sprintf("c04: no typed Pipe for %d operators", len(o)))
}

// c04PipeOpN builds the typed ro.PipeOp<len(o)> operator (generated, arities 1..25).
func c04PipeOpN(o []c04Op) c04Op {
	switch len(o) {
	case 1:
		return ro.PipeOp1(o[0])
	case 2:
		return ro.PipeOp2(o[0], o[1])
	case 3:
		return ro.PipeOp3(o[0], o[1], o[2])
	case 4:
		return ro.PipeOp4(o[0], o[1], o[2], o[3])
	case 5:
		return ro.PipeOp5(o[0], o[1], o[2], o[3], o[4])
	case 6:
		return ro.PipeOp6(o[0], o[1], o[2], o[3], o[4], o[5])
	case 7:
		return ro.PipeOp7(o[0], o[1], o[2], o[3], o[4], o[5], o[6])
	case 8:
		return ro.PipeOp8(o[0], o[1], o[2], o[3], o[4], o[5], o[6], o[7])
	case 9:
		return ro.PipeOp9(o[0], o[1], o[2], o[3], o[4], o[5], o[6], o[7], o[8])
	case 10:
		return ro.PipeOp10(o[0], o[1], o[2], o[3], o[4], o[5], o[6], o[7], o[8], o[9])
	case 11:
		return ro.PipeOp11(o[0], o[1], o[2], o[3], o[4], o[5], o[6], o[7], o[8], o[9], o[10])
	case 12:
		return ro.PipeOp12(o[0], o[1], o[2], o[3], o[4], o[5], o[6], o[7], o[8], o[9], o[10], o[11])
	case 13:
		return ro.PipeOp13(o[0], o[1], o[2], o[3], o[4], o[5], o[6], o[7], o[8], o[9], o[10], o[11], o[12])
	case 14:
		return ro.PipeOp14(o[0], o[1], o[2], o[3], o[4], o[5], o[6], o[7], o[8], o[9], o[10], o[11], o[12], o[13])
	case 15:
		return ro.PipeOp15(o[0], o[1], o[2], o[3], o[4], o[5], o[6], o[7], o[8], o[9], o[10], o[11], o[12], o[13], o[14])
	case 16:
		return ro.PipeOp16(o[0], o[1], o[2], o[3], o[4], o[5], o[6], o[7], o[8], o[9], o[10], o[11], o[12], o[13], o[14], o[15])
	case 17:
		return ro.PipeOp17(o[0], o[1], o[2], o[3], o[4], o[5], o[6], o[7], o[8], o[9], o[10], o[11], o[12], o[13], o[14], o[15], o[16])
	case 18:
		return ro.PipeOp18(o[0], o[1], o[2], o[3], o[4], o[5], o[6], o[7], o[8], o[9], o[10], o[11], o[12], o[13], o[14], o[15], o[16], o[17])
	case 19:
		return ro.PipeOp19(o[0], o[1], o[2], o[3], o[4], o[5], o[6], o[7], o[8], o[9], o[10], o[11], o[12], o[13], o[14], o[15], o[16], o[17], o[18])
	case 20:
		return ro.PipeOp20(o[0], o[1], o[2], o[3], o[4], o[5], o[6], o[7], o[8], o[9], o[10], o[11], o[12], o[13], o[14], o[15], o[16], o[17], o[18], o[19])
	case 21:
		return ro.PipeOp21(o[0], o[1], o[2], o[3], o[4], o[5], o[6], o[7], o[8], o[9], o[10], o[11], o[12], o[13], o[14], o[15], o[16], o[17], o[18], o[19], o[20])
	case 22:
		return ro.PipeOp22(o[0], o[1], o[2], o[3], o[4], o[5], o[6], o[7], o[8], o[9], o[10], o[11], o[12], o[13], o[14], o[15], o[16], o[17], o[18], o[19], o[20], o[21])
	case 23:
		return ro.PipeOp23(o[0], o[1], o[2], o[3], o[4], o[5], o[6], o[7], o[8], o[9], o[10], o[11], o[12], o[13], o[14], o[15], o[16], o[17], o[18], o[19], o[20], o[21], o[22])
	case 24:
		return ro.PipeOp24(o[0], o[1], o[2], o[3], o[4], o[5], o[6], o[7], o[8], o[9], o[10], o[11], o[12], o[13], o[14], o[15], o[16], o[17], o[18], o[19], o[20], o[21], o[22], o[23])
	case 25:
		return ro.PipeOp25(o[0], o[1], o[2], o[3], o[4], o[5], o[6], o[7], o[8], o[9], o[10], o[11], o[12], o[13], o[14], o[15], o[16], o[17], o[18], o[19], o[20], o[21], o[22], o[23], o[24])
	}
	panic(fmt.Sprintf("c04: no typed PipeOp for %d operators", len(o)))
}

// ---------------------------------------------------------------------------------------------
// generic recording observer (element types other than int)

type c04TRec[T any] struct {
	e     *Env
	vals  []T      // the delivered values themselves (slices keep their backing arrays)
	snaps []string // deep snapshot taken at delivery
	evs   []string
	err   error
	panic interface{}
	done  bool
}

func (r *c04TRec[T]) observer() ro.Observer[T] {
	return ro.NewObserverWithContext(
		func(ctx context.Context, v T) {
			s := fmt.Sprintf("%v", v)
			r.vals = append(r.vals, v)
			r.snaps = append(r.snaps, s)
			r.evs = append(r.evs, "N"+s)
			r.e.Yield()
		},
		func(ctx context.Context, err error) {
			r.err = err
			r.evs = append(r.evs, "E("+errCode(err)+")")
			r.e.Yield()
		},
		func(ctx context.Context) {
			r.evs = append(r.evs, "C")
			r.e.Yield()
		},
	)
}

func (r *c04TRec[T]) trace() string { return strings.Join(r.evs, " ") }

// c04ObserveT subscribes r to o on a harness actor and runs to quiescence.
func c04ObserveT[T any](e *Env, o ro.Observable[T]) (*c04TRec[T], bool) {
	r := &c04TRec[T]{e: e}
	e.Go("subscriber", func() {
		defer func() {
			if p := recover(); p != nil {
				r.panic = p
			}
		}()
		o.Subscribe(r.observer())
		r.done = true
	})
	e.SettleFor(50 * Unit)
	if r.panic != nil {
		r.evs = append(r.evs, fmt.Sprintf("PANIC(%v)", r.panic))
	}
	return r, !e.K.Capped()
}

// ---------------------------------------------------------------------------------------------
// C04.aliasing

var c04AliasKinds = []string{"BufferWithCount", "ToSlice", "Pairwise", "Zip", "ZipAll", "CombineLatestAll", "BufferWhen", "ToSlice|RepeatWith", "ToMap|RepeatWith"}

func c04AliasSources(kind string) int {
	switch kind {
	case "Zip", "ZipAll", "CombineLatestAll", "BufferWhen":
		return 2
	}
	return 1
}

func runC04Aliasing(e *Env) {
	sc := e.Sc
	var srcs []ro.Observable[int]
	for _, sp := range sc.Sources {
		srcs = append(srcs, e.NewSrc(sp).Obs())
	}
	n := sc.Int("n", 2)
	if n < 1 {
		n = 1
	}
	if sc.Sub == "ToMap|RepeatWith" {
		// map-valued output: every repetition must deliver a map of its own
		calls := 0 // the keys differ from one repetition to the next: a shared map would grow after delivery
		om := ro.RepeatWith[map[int]int](int64(n))(ro.ToMapI(func(x int, i int64) (int, int) { calls++; return calls, x })(srcs[0]))
		r, ok := c04ObserveT(e, om)
		if !ok {
			return
		}
		for i, v := range r.vals {
			if now := fmt.Sprintf("%v", v); now != r.snaps[i] {
				c04Violate(e, "aliasing", fmt.Sprintf("%s(n=%d) over [%s]: value #%d was %s when it was delivered and is %s at the end of the run (trace %s)",
					sc.Sub, n, traceN(scriptToN(sc.Sources[0].Script)), i, r.snaps[i], now, r.trace()))
				return
			}
		}
		return
	}
	var o ro.Observable[[]int]
	switch sc.Sub {
	case "BufferWithCount":
		o = ro.BufferWithCount[int](n)(srcs[0])
	case "ToSlice":
		o = ro.ToSlice[int]()(srcs[0])
	case "ToSlice|RepeatWith":
		o = ro.RepeatWith[[]int](int64(n))(ro.ToSlice[int]()(srcs[0]))
	case "Pairwise":
		o = ro.Pairwise[int]()(srcs[0])
	case "Zip":
		o = ro.Zip(srcs...)
	case "ZipAll":
		o = ro.ZipAll[int]()(ro.Just(srcs...))
	case "CombineLatestAll":
		o = ro.CombineLatestAll[int]()(ro.Just(srcs...))
	case "BufferWhen":
		o = ro.BufferWhen[int, int](srcs[1])(srcs[0])
	default:
		panic("c04: unknown aliasing kind " + sc.Sub)
	}
	r, ok := c04ObserveT(e, o)
	if !ok {
		return
	}
	in := scriptToN(sc.Sources[0].Script)
	for i, v := range r.vals {
		if now := fmt.Sprintf("%v", v); now != r.snaps[i] {
			c04Violate(e, "aliasing", fmt.Sprintf("%s(n=%d) over [%s]: value #%d was %s when it was delivered and is %s at the end of the run (trace %s)",
				sc.Sub, n, traceN(in), i, r.snaps[i], now, r.trace()))
			return
		}
	}
	// the chunk structure itself, for the single-source kinds
	vals, term, has := mSplit(in)
	var want []string
	chunk := func(c []int) string { return "N" + fmt.Sprintf("%v", c) }
	termS := func() string {
		if term.K == 'C' {
			return "C"
		}
		return "E(" + errCode(ScriptError(term.V)) + ")"
	}
	switch sc.Sub {
	case "BufferWithCount":
		var full []string
		k := 0
		for ; k+n <= len(vals); k += n {
			full = append(full, chunk(vals[k:k+n]))
		}
		rest := vals[k:]
		a := append([]string(nil), full...)
		switch {
		case !has:
			want = []string{strings.Join(a, " ")}
		case term.K == 'C':
			if len(rest) > 0 {
				a = append(a, chunk(rest))
			}
			want = []string{strings.Join(append(a, "C"), " ")}
		default:
			want = []string{strings.Join(append(append([]string(nil), a...), termS()), " ")}
			if len(rest) > 0 { // doc comment: "the buffer is emitted and the error is propagated"
				want = append(want, strings.Join(append(append(a, chunk(rest)), termS()), " "))
			}
		}
	case "ToSlice":
		switch {
		case !has:
			want = []string{""}
		case term.K == 'C':
			if vals == nil {
				vals = []int{}
			}
			want = []string{chunk(vals) + " C"}
		default:
			want = []string{termS()}
		}
	case "Pairwise":
		var a []string
		for i := 1; i < len(vals); i++ {
			a = append(a, chunk(vals[i-1:i+1]))
		}
		if has {
			a = append(a, termS())
		}
		want = []string{strings.Join(a, " ")}
	default:
		return
	}
	got := r.trace()
	for _, w := range want {
		if got == w {
			return
		}
	}
	c04Violate(e, "model:"+sc.Sub, fmt.Sprintf("%s(n=%d) over [%s] delivered [%s]; documented: [%s]", sc.Sub, n, traceN(in), got, strings.Join(want, "] | [")))
}

func init() {
	Register(&Family{
		Name:   "C04.aliasing",
		Props:  []string{"C04"},
		Weight: 40,
		Gen: func(g *Gen) *Scn {
			kind := c04AliasKinds[g.Intn(len(c04AliasKinds))]
			sc := &Scn{Family: "C04.aliasing", Sub: kind}
			ns := c04AliasSources(kind)
			if kind == "Zip" || kind == "ZipAll" || kind == "CombineLatestAll" {
				ns = g.Range(2, 3)
			}
			for i := 0; i < ns; i++ {
				sc.Sources = append(sc.Sources, SrcSpec{Mode: "sync", Script: c04Script(g)})
			}
			if ns == 1 && g.Bool(0.2) {
				sc.Sources[0].Mode = "async"
			}
			l := nvalues(sc.Sources[0].Script)
			nn := g.PickInt(1, 2, 3, l-1, l, l+1)
			if nn < 1 {
				nn = 1
			}
			sc.SetInt("n", nn)
			sc.SetInt("seqmode", 1)
			return sc
		},
		Valid: func(sc *Scn) bool {
			ok := false
			for _, k := range c04AliasKinds {
				ok = ok || k == sc.Sub
			}
			if !ok || len(sc.Sources) < c04AliasSources(sc.Sub) || len(sc.Stages) != 0 {
				return false
			}
			for _, s := range sc.Sources {
				if !c04WellFormed(s.Script) || (s.Mode != "sync" && !(len(sc.Sources) == 1 && s.Mode == "async")) {
					return false
				}
			}
			return true
		},
		Run: runC04Aliasing,
	})
}

// ---------------------------------------------------------------------------------------------
// C04.creation

var c04CreationOps = []string{"Of", "Just", "FromSlice", "FromSlice2", "Range", "RangeWithStep", "Repeat", "Empty", "Throw", "Start", "Defer"}

// c04Build runs a constructor and reports a panic instead of propagating it.
func c04Build[T any](f func() ro.Observable[T]) (o ro.Observable[T], panicked interface{}) {
	defer func() { panicked = recover() }()
	return f(), nil
}

func c04Join(parts ...string) string {
	var keep []string
	for _, p := range parts {
		if p != "" {
			keep = append(keep, p)
		}
	}
	return strings.Join(keep, " ")
}

func c04IntsTrace(vs []int) string {
	var a []string
	for _, v := range vs {
		a = append(a, fmt.Sprintf("N%d", v))
	}
	return strings.Join(a, " ")
}

func runC04Creation(e *Env) {
	sc := e.Sc
	op := sc.Sub
	vals := c04ValuesOf(sc.Sources[0].Script)
	a, b, s4, cnt, code := sc.Int("a", 0)-2, sc.Int("b", 0)-2, sc.Int("s4", 0)-4, sc.Int("count", 0)-1, sc.Int("code", 0)
	fail := func(what, got string, want ...string) {
		c04Violate(e, "creation:"+op, fmt.Sprintf("%s delivered [%s]; documented: [%s]", what, got, strings.Join(want, "] | [")))
	}
	check := func(what, got string, want ...string) {
		for _, w := range want {
			if got == w {
				return
			}
		}
		fail(what, got, want...)
	}
	switch op {
	case "Of", "Just", "FromSlice", "FromSlice2":
		cp := append([]int(nil), vals...)
		var o ro.Observable[int]
		h := sc.Int("count", 0)
		if h > len(cp) {
			h = len(cp)
		}
		switch op {
		case "Of":
			o = ro.Of(cp...)
		case "Just":
			o = ro.Just(cp...)
		case "FromSlice":
			o = ro.FromSlice(cp)
		default:
			o = ro.FromSlice(cp[:h], cp[h:])
		}
		r, ok := c04ObserveT(e, o)
		if !ok {
			return
		}
		check(fmt.Sprintf("%s(%v)", op, vals), r.trace(), c04Join(c04IntsTrace(vals), "C"))
	case "Range":
		o, p := c04Build(func() ro.Observable[int64] { return ro.Range(int64(a), int64(b)) })
		if p != nil {
			fail(fmt.Sprintf("Range(%d,%d)", a, b), fmt.Sprintf("panic: %v", p), "a, a±1, ... excluding b, then C")
			return
		}
		r, ok := c04ObserveT(e, o)
		if !ok {
			return
		}
		var w []int
		for x := a; x != b; {
			w = append(w, x)
			if a < b {
				x++
			} else {
				x--
			}
		}
		check(fmt.Sprintf("Range(%d,%d)", a, b), r.trace(), c04Join(c04IntsTrace(w), "C"))
	case "RangeWithStep":
		step := float64(s4) / 4
		what := fmt.Sprintf("RangeWithStep(%d,%d,%v)", a, b, step)
		o, p := c04Build(func() ro.Observable[float64] { return ro.RangeWithStep(float64(a), float64(b), step) })
		if step <= 0 {
			// "The step must be greater than 0": a panic at construction; the doc comment also says that
			// start == end gives an empty observable, without saying which rule wins
			if p != nil {
				return
			}
			r, ok := c04ObserveT(e, o)
			if !ok {
				return
			}
			if a == b {
				check(what, r.trace(), "C")
				return
			}
			fail(what, r.trace(), "panic at construction (step must be greater than 0)")
			return
		}
		if p != nil {
			fail(what, fmt.Sprintf("panic: %v", p), "start, start±step, ... excluding end, then C")
			return
		}
		r, ok := c04ObserveT(e, o)
		if !ok {
			return
		}
		var w []string
		sign := 1.0
		if a > b {
			sign = -1
		}
		for k := 0; a != b && k < 1000; k++ {
			x := float64(a) + sign*step*float64(k) // exact: quarters of small integers
			if x*sign >= float64(b)*sign {
				break
			}
			w = append(w, fmt.Sprintf("N%v", x))
		}
		check(what, r.trace(), c04Join(strings.Join(w, " "), "C"))
	case "Repeat":
		what := fmt.Sprintf("Repeat(7,%d)", cnt)
		o, p := c04Build(func() ro.Observable[int] { return ro.Repeat(7, int64(cnt)) })
		if cnt < 0 {
			// no doc comment covers a negative count: a panic at construction (Appendix A) or nothing
			if p != nil {
				return
			}
			r, ok := c04ObserveT(e, o)
			if !ok {
				return
			}
			check(what, r.trace(), "C")
			return
		}
		if p != nil {
			fail(what, fmt.Sprintf("panic: %v", p), "7 x count, then C")
			return
		}
		r, ok := c04ObserveT(e, o)
		if !ok {
			return
		}
		w := make([]int, cnt)
		for i := range w {
			w[i] = 7
		}
		check(what, r.trace(), c04Join(c04IntsTrace(w), "C"))
	case "Empty":
		r, ok := c04ObserveT(e, ro.Empty[int]())
		if !ok {
			return
		}
		check("Empty()", r.trace(), "C")
	case "Throw":
		r, ok := c04ObserveT(e, ro.Throw[int](ScriptError(code)))
		if !ok {
			return
		}
		check(fmt.Sprintf("Throw(e%d)", code), r.trace(), fmt.Sprintf("E(e%d)", code))
	case "Start":
		calls := 0
		o := ro.Start(func() int { calls++; return 40 + calls })
		if calls != 0 {
			fail("Start(f)", fmt.Sprintf("f called %d times before any subscription", calls), "f is called lazily, once per subscription")
			return
		}
		for i := 1; i <= 2; i++ {
			r, ok := c04ObserveT(e, o)
			if !ok {
				return
			}
			check(fmt.Sprintf("Start(f), subscription %d", i), fmt.Sprintf("%s (f called %d times)", r.trace(), calls), fmt.Sprintf("N%d C (f called %d times)", 40+i, i))
		}
	case "Defer":
		calls := 0
		o := ro.Defer(func() ro.Observable[int] {
			calls++
			return ro.Just(append([]int{100 * calls}, vals...)...)
		})
		if calls != 0 {
			fail("Defer(f)", fmt.Sprintf("f called %d times before any subscription", calls), "f is called once per subscription")
			return
		}
		for i := 1; i <= 2; i++ {
			r, ok := c04ObserveT(e, o)
			if !ok {
				return
			}
			check(fmt.Sprintf("Defer(f), subscription %d", i), fmt.Sprintf("%s (f called %d times)", r.trace(), calls),
				fmt.Sprintf("%s (f called %d times)", c04Join(c04IntsTrace(append([]int{100 * i}, vals...)), "C"), i))
		}
	default:
		panic("c04: unknown creation operator " + op)
	}
}

func init() {
	Register(&Family{
		Name:   "C04.creation",
		Props:  []string{"C04"},
		Weight: 20,
		Gen: func(g *Gen) *Scn {
			sc := &Scn{Family: "C04.creation", Sub: c04CreationOps[g.Intn(len(c04CreationOps))]}
			// the value list (empty and singleton included) travels as the N steps of a script
			n := g.PickInt(0, 0, 1, 1, 2, 3, 5)
			var script []Step
			for i := 0; i < n; i++ {
				script = append(script, Step{K: "N", V: g.Range(1, 3)})
			}
			sc.Sources = []SrcSpec{{Mode: "sync", Script: script}}
			// all parameters are stored non-negative (the generic shrinker decrements them)
			sc.SetInt("a", g.Range(0, 5))                     // a = v-2  in -2..3
			sc.SetInt("b", g.Range(0, 5))                     // b = v-2
			sc.SetInt("s4", g.PickInt(0, 4, 5, 6, 8, 10, 12)) // step = (v-4)/4 in {-1, 0, .25, .5, 1, 1.5, 2}
			sc.SetInt("count", g.Range(0, 4))                 // count = v-1 in -1..3
			sc.SetInt("code", g.Intn(4))
			if g.Bool(0.3) {
				sc.SetInt("b", sc.Int("a", 0)) // a = b
			}
			sc.SetInt("seqmode", 1)
			return sc
		},
		Valid: func(sc *Scn) bool {
			ok := false
			for _, k := range c04CreationOps {
				ok = ok || k == sc.Sub
			}
			if !ok || len(sc.Sources) != 1 || len(sc.Stages) != 0 {
				return false
			}
			for _, s := range sc.Sources[0].Script {
				if s.K != "N" {
					return false
				}
			}
			return true
		},
		Run: runC04Creation,
	})
}

// ---------------------------------------------------------------------------------------------
// C04.zero: the documented parameter boundary 0 of the count operators whose catalogue entry only
// draws positive counts (Skip(0), Take(0), RepeatWith... are reached through the catalogue).

var c04ZeroOps = []string{"SkipLast", "TakeLast"}

func runC04Zero(e *Env) {
	sc := e.Sc
	in := scriptToN(sc.Sources[0].Script)
	vals, term, has := mSplit(in)
	var op c04Op
	var bad interface{}
	func() {
		defer func() { bad = recover() }()
		switch sc.Sub {
		case "SkipLast":
			op = ro.SkipLast[int](0)
		case "TakeLast":
			op = ro.TakeLast[int](0)
		default:
			panic("c04: unknown zero-count operator " + sc.Sub)
		}
	}()
	if bad != nil && strings.HasPrefix(fmt.Sprint(bad), "c04:") {
		panic(bad)
	}
	var want [][]N
	doc := ""
	switch sc.Sub {
	case "SkipLast":
		doc = "\"If the count is zero, SkipLast will emit all items.\""
		want = mOne(in)
	case "TakeLast":
		// "If the count is zero, TakeLast will not emit any items." - the terminal is not specified:
		// completing at once (Appendix A, like Take(0)) or mirroring the source's terminal
		doc = "\"If the count is zero, TakeLast will not emit any items.\""
		want = mSet([]N{mC}, mEnd(nil, term, has))
	}
	_ = vals
	if bad != nil {
		c04Violate(e, "model:"+sc.Sub, fmt.Sprintf("%s(0) panics when the operator is built (%v); doc comment: %s", sc.Sub, bad, doc))
		return
	}
	rec, _, ok := c04Observe(e, op(e.NewSrc(sc.Sources[0]).Obs()), "o")
	if !ok {
		return
	}
	if got := c04RecN(rec); !memberN(want, got) {
		c04Violate(e, "model:"+sc.Sub, fmt.Sprintf("%s(0) over [%s] delivered [%s]; documented (%s): %s", sc.Sub, traceN(in), traceN(got), doc, setN(want)))
	}
}

func init() {
	Register(&Family{
		Name:   "C04.zero",
		Props:  []string{"C04"},
		Weight: 10,
		Gen: func(g *Gen) *Scn {
			sc := &Scn{Family: "C04.zero", Sub: c04ZeroOps[g.Intn(len(c04ZeroOps))]}
			sc.Sources = []SrcSpec{{Mode: g.Pick("sync", "sync", "async"), Script: c04Script(g)}}
			sc.SetInt("seqmode", 1)
			return sc
		},
		Valid: func(sc *Scn) bool {
			return (sc.Sub == "SkipLast" || sc.Sub == "TakeLast") && len(sc.Sources) == 1 && len(sc.Stages) == 0 &&
				c04WellFormed(sc.Sources[0].Script) && (sc.Sources[0].Mode == "sync" || sc.Sources[0].Mode == "async")
		},
		Run: runC04Zero,
	})
}

// ---------------------------------------------------------------------------------------------
// C04.math: the float64 math operators, built directly. Inputs are eighths of small integers (exactly
// representable, short decimal expansion); Round/Floor/Ceil/Trunc/Abs must equal math.* bit for bit,
// Average the correctly rounded quotient, Floor/CeilWithPrecision the exact decimal result (math/big)
// within one unit in the last place (the last-bit rounding of the final unscaling is not judged; it is
// counted by the probe math-last-bit).

var c04MathOps = []string{"Round", "Floor", "Ceil", "Trunc", "Abs", "FloorWithPrecision", "CeilWithPrecision", "Average", "Clamp"}

func c04ExactPrecision(x float64, places int, ceil bool) float64 {
	r := new(big.Rat).SetFloat64(x)
	pow := new(big.Rat).SetInt(new(big.Int).Exp(big.NewInt(10), big.NewInt(int64(c04Abs(places))), nil))
	if places >= 0 {
		r.Mul(r, pow)
	} else {
		r.Quo(r, pow)
	}
	// floor / ceil of the rational
	q := new(big.Int)
	m := new(big.Int)
	q.DivMod(r.Num(), r.Denom(), m) // Euclidean: m >= 0, so q = floor
	if ceil && m.Sign() != 0 {
		q.Add(q, big.NewInt(1))
	}
	res := new(big.Rat).SetInt(q)
	if places >= 0 {
		res.Quo(res, pow)
	} else {
		res.Mul(res, pow)
	}
	f, _ := res.Float64()
	return f
}

func c04Abs(x int) int {
	if x < 0 {
		return -x
	}
	return x
}

func runC04Math(e *Env) {
	sc := e.Sc
	op := sc.Sub
	places := sc.Int("places", 3) - 3
	in := scriptToN(sc.Sources[0].Script)
	ivals, term, has := mSplit(in)
	xs := make([]float64, len(ivals))
	for i, v := range ivals {
		xs[i] = float64(v-40) / 8
	}
	src := ro.Map(func(v int) float64 { return float64(v-40) / 8 })(e.NewSrc(sc.Sources[0]).Obs())
	var o ro.Observable[float64]
	var per func(x float64) float64
	ulp := false
	switch op {
	case "Round":
		o, per = ro.Round()(src), math.Round
	case "Floor":
		o, per = ro.Floor()(src), math.Floor
	case "Ceil":
		o, per = ro.Ceil()(src), math.Ceil
	case "Trunc":
		o, per = ro.Trunc()(src), math.Trunc
	case "Abs":
		o, per = ro.Abs()(src), math.Abs
	case "FloorWithPrecision":
		o, per, ulp = ro.FloorWithPrecision(places)(src), func(x float64) float64 { return c04ExactPrecision(x, places, false) }, true
	case "CeilWithPrecision":
		o, per, ulp = ro.CeilWithPrecision(places)(src), func(x float64) float64 { return c04ExactPrecision(x, places, true) }, true
	case "Clamp":
		o, per = ro.Clamp(-1.5, 2.25)(src), func(x float64) float64 { return math.Max(-1.5, math.Min(2.25, x)) }
	case "Average":
		o = ro.Average[float64]()(src)
	default:
		panic("c04: unknown math operator " + op)
	}
	r, ok := c04ObserveT(e, o)
	if !ok {
		return
	}
	var want []float64
	wantTerm := ""
	if has {
		wantTerm = "C"
		if term.K == 'E' {
			wantTerm = "E(" + errCode(ScriptError(term.V)) + ")"
		}
	}
	if op == "Average" {
		if has && term.K == 'C' {
			s := 0.0
			for _, x := range xs {
				s += x // exact: eighths of small integers
			}
			if len(xs) == 0 {
				want = []float64{math.NaN()} // "If the source is empty, it emits NaN."
			} else {
				want = []float64{s / float64(len(xs))}
			}
		}
	} else {
		for _, x := range xs {
			want = append(want, per(x))
		}
	}
	gotTerm := ""
	if n := len(r.evs); n > 0 && !strings.HasPrefix(r.evs[n-1], "N") {
		gotTerm = r.evs[n-1]
	}
	okAll := gotTerm == wantTerm && len(r.vals) == len(want) && len(r.evs) == len(want)+b2i(wantTerm != "")
	for i := 0; okAll && i < len(want); i++ {
		g, w := r.vals[i], want[i]
		switch {
		case math.IsNaN(w):
			okAll = math.IsNaN(g)
		case g == w:
		case ulp && (g == math.Nextafter(w, math.Inf(1)) || g == math.Nextafter(w, math.Inf(-1))):
			e.Probe("math-last-bit")
		default:
			okAll = false
		}
		if ulp && okAll {
			// the defining inequalities hold exactly whatever the rounding of the last bit
			if op == "FloorWithPrecision" && g > xs[i] || op == "CeilWithPrecision" && g < xs[i] {
				okAll = false
			}
		}
	}
	if !okAll {
		var ws []string
		for _, w := range want {
			ws = append(ws, fmt.Sprintf("N%v", w))
		}
		c04Violate(e, "model:"+op, fmt.Sprintf("%s(places=%d) over %v then [%s] delivered [%s]; documented: [%s]", op, places, xs, wantTerm, r.trace(), c04Join(strings.Join(ws, " "), wantTerm)))
	}
}

func init() {
	Register(&Family{
		Name:   "C04.math",
		Props:  []string{"C04"},
		Weight: 20,
		Gen: func(g *Gen) *Scn {
			sc := &Scn{Family: "C04.math", Sub: c04MathOps[g.Intn(len(c04MathOps))]}
			n := g.PickInt(0, 1, 2, 3, 4, 5)
			var script []Step
			for i := 0; i < n; i++ {
				v := g.Range(0, 80) // x = (v-40)/8 in -5..5
				if g.Bool(0.4) {
					v = 4 * g.Range(0, 20) // halves and integers: the rounding boundaries
				}
				script = append(script, Step{K: "N", V: v})
			}
			switch g.Intn(3) {
			case 0:
				script = append(script, Step{K: "C"})
			case 1:
				script = append(script, Step{K: "E", V: g.Intn(4)})
			}
			sc.Sources = []SrcSpec{{Mode: g.Pick("sync", "sync", "async"), Script: script}}
			sc.SetInt("places", g.Range(0, 7)) // places = v-3 in -3..4
			sc.SetInt("seqmode", 1)
			return sc
		},
		Valid: func(sc *Scn) bool {
			ok := false
			for _, k := range c04MathOps {
				ok = ok || k == sc.Sub
			}
			return ok && len(sc.Sources) == 1 && len(sc.Stages) == 0 && c04WellFormed(sc.Sources[0].Script) &&
				(sc.Sources[0].Mode == "sync" || sc.Sources[0].Mode == "async")
		},
		Run: runC04Math,
	})
}
