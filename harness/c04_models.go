package roverif

// Reference models of the synchronous, deterministic catalogue stages (property C04; DESIGN.md
// Appendix A). A model maps the stage's scalar parameters, the input notification sequence
// (values, optionally followed by ONE terminal; no terminal = the source stays silent for ever) and
// the scripts of its synchronous cold auxiliary sources to the SET of admissible output traces.
//
// The models are written from the operators' doc comments (/repo/operator_*.go), Appendix A and the
// functions the catalogue callbacks compute - not from the implementation. Where neither the doc
// comment nor the property statement fixes the behaviour the model returns several traces.
//
// A model returns nil when it declines to judge an input (the documented output is infinite:
// unlimited Retry over a failing source).
//
// Error codes: a script error keeps its code (ScriptError(code)); opErr stands for "some error that is
// not a script error" (ErrHeadEmpty, ErrFirstEmpty, cast errors, ...).
//
// Deliberately NOT modelled here (Model stays nil):
//   - time driven / asynchronous / hand-off / hot stages: Delay, DelayEach, Timeout, ObserveOn,
//     SubscribeOn, ThrottleTime, SampleTime, BufferWithTime, BufferWithTimeOrCount,
//     ThrowOnContextCancel, Share (C16/C11 own them);
//   - multi-source stages whose result over *synchronous* sources depends on the order in which the
//     operator subscribes its sources, an order no doc comment fixes: MergeWith, RaceWith,
//     CombineLatestWith, ZipWith, TakeUntil, SkipUntil, BufferWhen, WindowWhenMerge, SampleWhen,
//     ThrottleWhen, SequenceEqual (arrival orders are property C05's business).
//     ConcatWith is sequential by definition and is modelled.

const opErr = -1

type modelFn = func(p []int, in []N, aux [][]N) [][]N

// mSplit separates the values of a well-formed notification sequence from its terminal.
func mSplit(in []N) (vals []int, term N, has bool) {
	for _, n := range in {
		if n.K == 'N' {
			if has {
				panic("c04 model: value after terminal in model input " + traceN(in))
			}
			vals = append(vals, n.V)
			continue
		}
		if has {
			panic("c04 model: two terminals in model input " + traceN(in))
		}
		term, has = n, true
	}
	return
}

func mVals(vs ...int) []N {
	out := make([]N, 0, len(vs)+1)
	for _, v := range vs {
		out = append(out, N{K: 'N', V: v})
	}
	return out
}

func mEnd(vs []int, term N, has bool) []N {
	out := mVals(vs...)
	if has {
		out = append(out, term)
	}
	return out
}

var (
	mC = N{K: 'C'}
)

func mE(code int) N { return N{K: 'E', V: code} }

func mOne(out []N) [][]N { return [][]N{out} }

func mSet(outs ...[]N) [][]N {
	var res [][]N
	for _, o := range outs {
		dup := false
		for _, r := range res {
			if traceN(r) == traceN(o) {
				dup = true
			}
		}
		if !dup {
			res = append(res, o)
		}
	}
	return res
}

// mPerValue models a stateless or index-aware one-to-many mapping: terminal passes through.
func mPerValue(f func(x, i int) []int) modelFn {
	return func(p []int, in []N, aux [][]N) [][]N {
		vals, term, has := mSplit(in)
		var out []int
		for i, x := range vals {
			out = append(out, f(x, i)...)
		}
		return mOne(mEnd(out, term, has))
	}
}

func mIdentity(p []int, in []N, aux [][]N) [][]N {
	return mOne(append([]N(nil), in...))
}

// mUntil models "emit/skip values until the callback decides to stop with a terminal of its own".
// step returns the values to emit for x and, when stop is true, the terminal that ends the output
// (later input, including its terminal, is ignored).
func mUntil(step func(p []int, x, i int) (emit []int, stop bool, term N), onComplete func(p []int, n int) ([]int, N)) modelFn {
	return func(p []int, in []N, aux [][]N) [][]N {
		vals, term, has := mSplit(in)
		var out []int
		for i, x := range vals {
			em, stop, t := step(p, x, i)
			out = append(out, em...)
			if stop {
				return mOne(mEnd(out, t, true))
			}
		}
		if has && term.K == 'C' && onComplete != nil {
			em, t := onComplete(p, len(vals))
			return mOne(mEnd(append(out, em...), t, true))
		}
		return mOne(mEnd(out, term, has))
	}
}

// mOnComplete models an aggregation: nothing until the source completes, then f(vals) and a terminal.
// Error passes through at once; silence produces nothing.
func mOnComplete(f func(p []int, vals []int) ([]int, N)) modelFn {
	return func(p []int, in []N, aux [][]N) [][]N {
		vals, term, has := mSplit(in)
		if !has {
			return mOne(nil)
		}
		if term.K == 'E' {
			return mOne([]N{term})
		}
		out, t := f(p, vals)
		return mOne(mEnd(out, t, true))
	}
}

var c04Models = map[string]modelFn{
	// ---------------------------------------------------------------- transformation
	"Map":             mPerValue(func(x, i int) []int { return []int{x*2 + 1} }),
	"MapWithContext":  mPerValue(func(x, i int) []int { return []int{x*2 + 1} }),
	"MapI":            mPerValue(func(x, i int) []int { return []int{x*10 + i} }),
	"MapIWithContext": mPerValue(func(x, i int) []int { return []int{x*10 + i} }),
	"MapTo":           mPerValue(func(x, i int) []int { return []int{7} }),
	// MapErr f: f(vi) until f returns an error, then that error and nothing more. The catalogue
	// callback fails with ScriptError(50) at index k and returns x+1 otherwise.
	"MapErr": mUntil(func(p []int, x, i int) ([]int, bool, N) {
		if i == pi(p, 0, 99) {
			return nil, true, mE(50)
		}
		return []int{x + 1}, false, N{}
	}, nil),
	"Scan": func(p []int, in []N, aux [][]N) [][]N {
		vals, term, has := mSplit(in)
		acc := 100
		var out []int
		for _, x := range vals {
			acc += x
			out = append(out, acc)
		}
		return mOne(mEnd(out, term, has))
	},
	"ScanI": func(p []int, in []N, aux [][]N) [][]N {
		vals, term, has := mSplit(in)
		acc := 100
		var out []int
		for i, x := range vals {
			acc += x * (i + 1)
			out = append(out, acc)
		}
		return mOne(mEnd(out, term, has))
	},
	// Cast[int,any] then Cast[any,int]: every value is assertable.
	"Cast": mIdentity,
	// FlatMap f = Concat of f(vi); MergeMap f = Merge of f(vi). The inner observables are synchronous
	// Just(...) so both deliver each inner completely at the moment its outer value arrives.
	"FlatMap":   mPerValue(func(x, i int) []int { return []int{x, x + 100} }),
	"MergeMap":  mPerValue(func(x, i int) []int { return []int{x, x + 100} }),
	"FlatMapI":  mPerValue(func(x, i int) []int { return []int{x, i + 100} }),
	"MergeMapI": mPerValue(func(x, i int) []int { return []int{x, i + 100} }),
	// BufferWithCount n | Flatten: consecutive chunks of n; the final partial chunk on completion;
	// on error the doc comment says "the buffer is emitted and the error is propagated" while Appendix A
	// records that only the error is propagated: both admissible. Silence: full chunks only.
	"BufferWithCount": func(p []int, in []N, aux [][]N) [][]N {
		return mBuffer(p, in, func(chunk []int) []int { return chunk })
	},
	"BufferWithCountSum": func(p []int, in []N, aux [][]N) [][]N {
		return mBuffer(p, in, func(chunk []int) []int {
			s := 0
			for _, x := range chunk {
				s += x
			}
			return []int{len(chunk)*1000 + s}
		})
	},
	// Pairwise: [v(i-1), vi] from the second value on; encoded prev*100+cur by the catalogue.
	"Pairwise": func(p []int, in []N, aux [][]N) [][]N {
		vals, term, has := mSplit(in)
		var out []int
		for i := 1; i < len(vals); i++ {
			out = append(out, vals[i-1]*100+vals[i])
		}
		return mOne(mEnd(out, term, has))
	},
	// GroupBy | MergeAll over a synchronous source: every value is delivered to its group at once
	// (the first one is queued in the group, which MergeAll subscribes on receipt), so the merge is the
	// source order; groups and outer end with the source's terminal.
	"GroupByMerge": mIdentity,
	// ---------------------------------------------------------------- filtering
	"Filter": mPerValue(func(x, i int) []int {
		if x%2 == 1 {
			return []int{x}
		}
		return nil
	}),
	"FilterI": mPerValue(func(x, i int) []int {
		if i%2 == 0 {
			return []int{x}
		}
		return nil
	}),
	"Distinct": func(p []int, in []N, aux [][]N) [][]N {
		return mDistinct(in, func(x int) int { return x })
	},
	"DistinctBy": func(p []int, in []N, aux [][]N) [][]N {
		return mDistinct(in, func(x int) int { return x % 2 })
	},
	"IgnoreElements": mPerValue(func(x, i int) []int { return nil }),
	"Skip": func(p []int, in []N, aux [][]N) [][]N {
		vals, term, has := mSplit(in)
		n := pi(p, 0, 1)
		if n > len(vals) {
			n = len(vals)
		}
		return mOne(mEnd(vals[n:], term, has))
	},
	"SkipWhile": func(p []int, in []N, aux [][]N) [][]N {
		vals, term, has := mSplit(in)
		k := 0
		for k < len(vals) && vals[k] < 2 {
			k++
		}
		return mOne(mEnd(vals[k:], term, has))
	},
	// SkipLast n: all but the last n values. A value can only be released once n later values have
	// arrived, which is also what is delivered before an error or under silence.
	"SkipLast": func(p []int, in []N, aux [][]N) [][]N {
		vals, term, has := mSplit(in)
		k := len(vals) - pi(p, 0, 1)
		if k < 0 {
			k = 0
		}
		return mOne(mEnd(vals[:k], term, has))
	},
	// Take n: 0 -> completes without the source; otherwise completes right after the n-th value.
	"Take": func(p []int, in []N, aux [][]N) [][]N {
		vals, term, has := mSplit(in)
		n := pi(p, 0, 1)
		if n == 0 {
			return mOne([]N{mC})
		}
		if len(vals) >= n {
			return mOne(mEnd(vals[:n], mC, true))
		}
		return mOne(mEnd(vals, term, has))
	},
	"TakeWhile": mUntil(func(p []int, x, i int) ([]int, bool, N) {
		if x < 2 {
			return []int{x}, false, N{}
		}
		return nil, true, mC
	}, nil),
	"TakeLast": mOnComplete(func(p []int, vals []int) ([]int, N) {
		n := pi(p, 0, 1)
		if n > len(vals) {
			n = len(vals)
		}
		return vals[len(vals)-n:], mC
	}),
	"Head": mUntil(func(p []int, x, i int) ([]int, bool, N) { return []int{x}, true, mC },
		func(p []int, n int) ([]int, N) { return nil, mE(opErr) }),
	"Tail": mOnComplete(func(p []int, vals []int) ([]int, N) {
		if len(vals) == 0 {
			return nil, mE(opErr)
		}
		return vals[len(vals)-1:], mC
	}),
	"First": mUntil(func(p []int, x, i int) ([]int, bool, N) {
		if x >= 1 {
			return []int{x}, true, mC
		}
		return nil, false, N{}
	}, func(p []int, n int) ([]int, N) { return nil, mE(opErr) }),
	"Last": mOnComplete(func(p []int, vals []int) ([]int, N) {
		for i := len(vals) - 1; i >= 0; i-- {
			if vals[i] >= 1 {
				return []int{vals[i]}, mC
			}
		}
		return nil, mE(opErr)
	}),
	"ElementAt": mUntil(func(p []int, x, i int) ([]int, bool, N) {
		if i == pi(p, 0, 0) {
			return []int{x}, true, mC
		}
		return nil, false, N{}
	}, func(p []int, n int) ([]int, N) { return nil, mE(opErr) }),
	"ElementAtOrDefault": mUntil(func(p []int, x, i int) ([]int, bool, N) {
		if i == pi(p, 0, 0) {
			return []int{x}, true, mC
		}
		return nil, false, N{}
	}, func(p []int, n int) ([]int, N) { return []int{77}, mC }),
	// ---------------------------------------------------------------- conditional / math
	"All": mOnComplete(func(p []int, vals []int) ([]int, N) {
		ok := true
		for _, x := range vals {
			if !(x < 2) {
				ok = false
			}
		}
		return []int{b2i(ok)}, mC
	}),
	"Contains": mUntil(func(p []int, x, i int) ([]int, bool, N) {
		if x == 2 {
			return []int{1}, true, mC
		}
		return nil, false, N{}
	}, func(p []int, n int) ([]int, N) { return []int{0}, mC }),
	"Find": mUntil(func(p []int, x, i int) ([]int, bool, N) {
		if x >= 2 {
			return []int{x}, true, mC
		}
		return nil, false, N{}
	}, nil),
	"DefaultIfEmpty": func(p []int, in []N, aux [][]N) [][]N {
		vals, term, has := mSplit(in)
		if has && term.K == 'C' && len(vals) == 0 {
			return mOne(mEnd([]int{55}, mC, true))
		}
		return mOne(mEnd(vals, term, has))
	},
	"Count": mOnComplete(func(p []int, vals []int) ([]int, N) { return []int{len(vals)}, mC }),
	"Sum": mOnComplete(func(p []int, vals []int) ([]int, N) {
		s := 0
		for _, x := range vals {
			s += x
		}
		return []int{s}, mC
	}),
	// Min / Max: "If the source is empty, it emits no value."
	"Min": mOnComplete(func(p []int, vals []int) ([]int, N) {
		if len(vals) == 0 {
			return nil, mC
		}
		m := vals[0]
		for _, x := range vals {
			if x < m {
				m = x
			}
		}
		return []int{m}, mC
	}),
	"Max": mOnComplete(func(p []int, vals []int) ([]int, N) {
		if len(vals) == 0 {
			return nil, mC
		}
		m := vals[0]
		for _, x := range vals {
			if x > m {
				m = x
			}
		}
		return []int{m}, mC
	}),
	"Reduce": mOnComplete(func(p []int, vals []int) ([]int, N) {
		acc := 1
		for _, x := range vals {
			acc = acc*3 + x
		}
		return []int{acc}, mC
	}),
	"Clamp": mPerValue(func(x, i int) []int {
		if x < 1 {
			return []int{1}
		}
		if x > 2 {
			return []int{2}
		}
		return []int{x}
	}),
	// ---------------------------------------------------------------- error handling
	"Catch": func(p []int, in []N, aux [][]N) [][]N {
		vals, term, has := mSplit(in)
		if has && term.K == 'E' {
			return mOne(mEnd(append(append([]int(nil), vals...), 61, 62), mC, true))
		}
		return mOne(mEnd(vals, term, has))
	},
	"OnErrorReturn": func(p []int, in []N, aux [][]N) [][]N {
		vals, term, has := mSplit(in)
		if has && term.K == 'E' {
			return mOne(mEnd(append(append([]int(nil), vals...), 63), mC, true))
		}
		return mOne(mEnd(vals, term, has))
	},
	// OnErrorResumeNextWith(Just(64), Just(65)): the next one is subscribed when the previous ended,
	// with an error or a completion alike; terminal = the last one's.
	"OnErrorResumeNextWith": func(p []int, in []N, aux [][]N) [][]N {
		vals, _, has := mSplit(in)
		if !has {
			return mOne(mVals(vals...))
		}
		return mOne(mEnd(append(append([]int(nil), vals...), 64, 65), mC, true))
	},
	"ThrowIfEmpty": func(p []int, in []N, aux [][]N) [][]N {
		vals, term, has := mSplit(in)
		if has && term.K == 'C' && len(vals) == 0 {
			return mOne([]N{mE(51)})
		}
		return mOne(mEnd(vals, term, has))
	},
	// RetryWithConfig{MaxRetries: n}: values of every attempt; resubscribes on error while retries
	// remain (n retries = n+1 attempts), then the last error. n = 0 means unlimited: over a failing
	// source the documented output is infinite -> declined.
	"RetryN": func(p []int, in []N, aux [][]N) [][]N {
		vals, term, has := mSplit(in)
		if !has || term.K == 'C' {
			return mOne(mEnd(vals, term, has))
		}
		n := pi(p, 0, 1)
		if n == 0 {
			return nil
		}
		var out []int
		for a := 0; a <= n; a++ {
			out = append(out, vals...)
		}
		return mOne(mEnd(out, term, true))
	},
	// RepeatWith n (n >= 1 in the catalogue): n attempts then C; an error stops it; a silent attempt
	// never ends.
	"RepeatWith": func(p []int, in []N, aux [][]N) [][]N {
		vals, term, has := mSplit(in)
		n := pi(p, 0, 1)
		if n == 0 {
			return mOne([]N{mC})
		}
		if !has || term.K == 'E' {
			return mOne(mEnd(vals, term, has))
		}
		var out []int
		for a := 0; a < n; a++ {
			out = append(out, vals...)
		}
		return mOne(mEnd(out, mC, true))
	},
	// DoWhile k (condition index < k): the source runs once, then again while the condition holds: k+1
	// runs, then C; an error stops it; a silent run never ends.
	"DoWhile": func(p []int, in []N, aux [][]N) [][]N {
		vals, term, has := mSplit(in)
		if !has || term.K == 'E' {
			return mOne(mEnd(vals, term, has))
		}
		var out []int
		for a := 0; a <= pi(p, 0, 1); a++ {
			out = append(out, vals...)
		}
		return mOne(mEnd(out, mC, true))
	},
	// While k: the condition is asked first: k runs, then C (k = 0: C without subscribing).
	"While": func(p []int, in []N, aux [][]N) [][]N {
		vals, term, has := mSplit(in)
		n := pi(p, 0, 1)
		if n == 0 {
			return mOne([]N{mC})
		}
		if !has || term.K == 'E' {
			return mOne(mEnd(vals, term, has))
		}
		var out []int
		for a := 0; a < n; a++ {
			out = append(out, vals...)
		}
		return mOne(mEnd(out, mC, true))
	},
	// ---------------------------------------------------------------- utility / context: identity
	"Tap":                      mIdentity,
	"TapOnNext":                mIdentity,
	"TapOnError":               mIdentity,
	"TapOnComplete":            mIdentity,
	"TapOnSubscribe":           mIdentity,
	"TapOnFinalize":            mIdentity,
	"Defer":                    mIdentity,
	"Serialize":                mIdentity,
	"MaterializeDematerialize": mIdentity,
	"ContextWithValue":         mIdentity,
	"ContextMap":               mIdentity,
	"CtxTimeoutProbe":          mIdentity,
	// ---------------------------------------------------------------- combining
	"StartWith": func(p []int, in []N, aux [][]N) [][]N {
		return mOne(append(mVals(71, 72), in...))
	},
	"EndWith": func(p []int, in []N, aux [][]N) [][]N {
		vals, term, has := mSplit(in)
		if has && term.K == 'C' {
			return mOne(mEnd(append(append([]int(nil), vals...), 73, 74), mC, true))
		}
		return mOne(mEnd(vals, term, has))
	},
	// ConcatWith o: o is subscribed when the source completed; any error at once; a silent source
	// keeps o unsubscribed for ever.
	"ConcatWith": func(p []int, in []N, aux [][]N) [][]N {
		if len(aux) != 1 {
			panic("c04 model: ConcatWith needs one auxiliary script")
		}
		vals, term, has := mSplit(in)
		if !has || term.K == 'E' {
			return mOne(mEnd(vals, term, has))
		}
		avals, aterm, ahas := mSplit(aux[0])
		return mOne(mEnd(append(append([]int(nil), vals...), avals...), aterm, ahas))
	},
	// ---------------------------------------------------------------- sinks
	"ToSliceKeep":    mOnComplete(func(p []int, vals []int) ([]int, N) { return vals, mC }),
	"ToSliceFlatten": mOnComplete(func(p []int, vals []int) ([]int, N) { return vals, mC }),
}

func mBuffer(p []int, in []N, enc func(chunk []int) []int) [][]N {
	vals, term, has := mSplit(in)
	n := pi(p, 0, 2)
	if n < 1 {
		panic("c04 model: BufferWithCount size < 1")
	}
	var out []int
	k := 0
	for ; k+n <= len(vals); k += n {
		out = append(out, enc(vals[k:k+n])...)
	}
	rest := vals[k:]
	switch {
	case !has:
		return mOne(mVals(out...))
	case term.K == 'C':
		if len(rest) > 0 {
			out = append(out, enc(rest)...)
		}
		return mOne(mEnd(out, mC, true))
	default:
		noFlush := mEnd(out, term, true)
		if len(rest) == 0 {
			return mOne(noFlush)
		}
		flush := mEnd(append(append([]int(nil), out...), enc(rest)...), term, true)
		return mSet(noFlush, flush)
	}
}

func mDistinct(in []N, key func(int) int) [][]N {
	vals, term, has := mSplit(in)
	seen := map[int]bool{}
	var out []int
	for _, x := range vals {
		if k := key(x); !seen[k] {
			seen[k] = true
			out = append(out, x)
		}
	}
	return mOne(mEnd(out, term, has))
}

var c04ModelsInstalled bool

// installC04Models attaches the models to the catalogue. The catalogue is filled by catalog.go's
// init(), which the Go toolchain runs AFTER this file's init() (file-name order), so the C04 families
// (and anybody else who needs StageDef.Model) call this function again before using the catalogue.
func installC04Models() {
	if c04ModelsInstalled || len(catalog) == 0 {
		return
	}
	for name, m := range c04Models {
		d := catalog[name]
		if d == nil {
			panic("c04 models: no catalogue stage named " + name)
		}
		if d.Hot || d.Async || d.Time || d.Handoff {
			panic("c04 models: " + name + " is not a synchronous deterministic stage")
		}
		d.Model = m
	}
	c04ModelsInstalled = true
}

func init() { installC04Models() }

// composeModels feeds every admissible output of stage i into stage i+1. nil = some model declined
// or a stage has no model.
func composeModels(stages []StageSpec, in []N, auxScript func(srcIdx int) []N) [][]N {
	installC04Models()
	cur := [][]N{in}
	for _, st := range stages {
		d := catalog[st.Op]
		if d == nil || d.Model == nil {
			return nil
		}
		var aux [][]N
		for i := 0; i < d.Aux; i++ {
			aux = append(aux, auxScript(pi(st.P, i, 1)))
		}
		var p []int
		if len(st.P) > d.Aux {
			p = st.P[d.Aux:]
		}
		var next [][]N
		for _, c := range cur {
			outs := d.Model(p, c, aux)
			if outs == nil {
				return nil
			}
			next = append(next, outs...)
		}
		cur = mSet(next...)
		if len(cur) > 64 {
			return nil
		}
	}
	return cur
}

func memberN(set [][]N, got []N) bool {
	g := traceN(got)
	for _, s := range set {
		if traceN(s) == g {
			return true
		}
	}
	return false
}

func setN(set [][]N) string {
	s := ""
	for i, t := range set {
		if i > 0 {
			s += " | "
		}
		s += "[" + traceN(t) + "]"
	}
	return s
}
