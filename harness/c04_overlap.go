package roverif

// C04.overlap — the documented meaning of a stage holds for every subscription of one pipeline value, also
// when two subscriptions are alive at the same time and out of phase: a hot source, a first subscriber, a
// few arrivals, then a second subscriber that joins late. Each subscriber must receive what the definition
// prescribes for the part of the input that arrived while it was subscribed (state kept per application of
// the operator instead of per subscription is shared by the two and shows here, never with one subscription
// after the other).

import (
	"fmt"

	"github.com/samber/ro"
)

// operators that subscribe to their input again and wait for each attempt inside Subscribe: over a hot source
// that call does not return before the source ends (recorded under C14/C06), there is no second subscriber
var c04WaitsInSubscribe = map[string]bool{"DoWhile": true, "While": true, "RepeatWith": true, "RetryN": true, "OnErrorResumeNextWith": true}

func c04OverlapValid(sc *Scn) bool {
	if len(sc.Sources) != 1 || sc.Sources[0].Mode != "manual" || len(sc.Stages) < 1 || len(sc.Stages) > 3 {
		return false
	}
	for _, st := range sc.Stages {
		if d := catalog[st.Op]; d == nil || d.Aux != 0 || c04WaitsInSubscribe[st.Op] {
			return false
		}
		if st.Op == "Max" && len(sc.Stages) > 1 {
			return false // Max over an empty input is a recorded finding, judged on single stages only
		}
	}
	c := cloneScn(sc)
	c.Sources[0].Mode = "sync"
	if !c04ValidPipeline(c, 1, 3) {
		return false
	}
	j := sc.Int("join", 0)
	if j < 0 || j > nvalues(sc.Sources[0].Script) {
		return false
	}
	c.Sources[0].Script = c.Sources[0].Script[j:]
	return c04ValidPipeline(c, 1, 3)
}

func init() {
	Register(&Family{
		Name:   "C04.overlap",
		Props:  []string{"C04"},
		Weight: 40,
		Gen: func(g *Gen) *Scn {
			names := c04Modelled(func(d *StageDef) bool { return d.Aux == 0 && !c04WaitsInSubscribe[d.Name] })
			for {
				sc := &Scn{Family: "C04.overlap"}
				script := c04Script(g)
				sc.Sources = []SrcSpec{{Mode: "manual", Script: script}}
				n := g.PickInt(1, 1, 1, 2)
				for i := 0; i < n; i++ {
					addStage(g, sc, names[g.Intn(len(names))], nvalues(script), "sync")
				}
				sc.SetInt("join", g.Range(0, nvalues(script)))
				sc.SetInt("seqmode", 1)
				if c04OverlapValid(sc) {
					return sc
				}
			}
		},
		Valid: c04OverlapValid,
		Run:   runC04Overlap,
	})
}

func runC04Overlap(e *Env) {
	defer e.CheckHeld("C04")
	installC04Models()
	sc := e.Sc
	if !c04OverlapValid(sc) {
		e.Probe("model-declined")
		return
	}
	script := sc.Sources[0].Script
	j := sc.Int("join", 0)
	model := func(in []Step) [][]N {
		c := cloneScn(sc)
		c.Sources[0].Script = in
		return c04Expected(c)
	}
	wantA, wantB := model(script), model(script[j:])
	o, srcs := e.Pipeline()
	src := srcs[0]
	subscribe := func(name string) (*Rec, bool) {
		rec := e.NewRec(name)
		h := e.Subscribe(o, rec.Observer(), nil)
		e.Settle()
		if e.K.Capped() {
			return nil, false
		}
		if !h.Ret() {
			c04Violate(e, "overlap:subscribe-blocks", fmt.Sprintf("%s over a hot source: Subscribe of subscriber %s never returned", c04DescribeStages(sc), name))
			return nil, false
		}
		return rec, true
	}
	push := func(st Step) bool {
		done := false
		e.Go("feeder", func() { src.Push(st); done = true })
		e.Settle()
		if e.K.Capped() {
			return false
		}
		if !done {
			c04Violate(e, "overlap:arrival-blocks", fmt.Sprintf("%s over a hot source: delivering %s%d never returned", c04DescribeStages(sc), st.K, st.V))
			return false
		}
		return true
	}
	a, ok := subscribe("A")
	if !ok {
		return
	}
	for _, st := range script[:j] {
		if !push(st) {
			return
		}
	}
	b, ok := subscribe("B")
	if !ok {
		return
	}
	for _, st := range script[j:] {
		if !push(st) {
			return
		}
	}
	e.SettleFor(50 * Unit)
	if e.K.Capped() {
		return
	}
	gotA, gotB := c04RecN(a), c04RecN(b)
	if !memberN(wantA, gotA) || !memberN(wantB, gotB) {
		// the same stage with one subscriber at a time decides whether the overlap is what matters
		clause := "overlap"
		if len(sc.Stages) == 1 {
			clause = "overlap:" + sc.Stages[0].Op
			seen := scriptToN(script)
			if memberN(wantA, gotA) {
				seen = scriptToN(script[j:])
			}
			if c := c04ModelClause(sc.Stages[0].Op, seen); c != "model:"+sc.Stages[0].Op {
				clause = c // the recorded finding about Max over an empty source keeps its own clause
			}
		}
		c04Violate(e, clause, fmt.Sprintf("%s over a hot source playing [%s], subscriber B joining after %d arrivals: A received [%s] (documented: %s), B received [%s] (documented for the input [%s] it saw: %s)",
			c04DescribeStages(sc), traceN(scriptToN(script)), j, traceN(gotA), setN(wantA), traceN(gotB), traceN(scriptToN(script[j:])), setN(wantB)))
	}
}

var _ = ro.Empty[int]
