package roverif

// C04.timing — TimeInterval reports, with every value, the time elapsed since the previous emission (the
// first: since subscription); Timestamp the time elapsed since subscription. Judged on the simulated clock
// against the instants a tap in front of the operator saw the values, with a consumer that takes its time
// inside Next (the time the consumer spends is part of the interval: the clock is read when a value arrives).

import (
	"fmt"
	"time"

	"github.com/samber/ro"
)

func init() {
	Register(&Family{
		Name:   "C04.timing",
		Props:  []string{"C04"},
		Weight: 4,
		Gen: func(g *Gen) *Scn {
			sc := &Scn{Family: "C04.timing", Sub: g.Pick("TimeInterval", "Timestamp")}
			n := g.Range(1, 5)
			var script []Step
			for i := 0; i < n; i++ {
				script = append(script, Step{K: "N", V: 10 + i, Gap: g.PickInt(0, 1, 2, 3)})
			}
			script = append(script, Step{K: "C", Gap: g.PickInt(0, 1)})
			sc.Sources = []SrcSpec{{Mode: g.Pick("timed", "timed", "sync"), Script: script}}
			sc.SetInt("slow", g.PickInt(0, 0, 1, 2, 3)) // the consumer sleeps that long inside every Next
			sc.SetInt("late", g.PickInt(0, 0, 2))       // the subscription is made that long after the pipeline was built
			return sc
		},
		Run: func(e *Env) {
			sc := e.Sc
			src := e.NewSrc(sc.Sources[0])
			var arrived []time.Duration
			tapped := ro.TapOnNext(func(int) { arrived = append(arrived, e.K.Now()) })(src.Obs())
			slow := dur(sc.Int("slow", 0))
			var got []time.Duration
			var vals []int
			var obs ro.Observer[int]
			var o ro.Observable[int]
			if sc.Sub == "TimeInterval" {
				o = ro.Map(func(v ro.IntervalValue[int]) int { got = append(got, v.Interval); return v.Value })(ro.TimeInterval[int]()(tapped))
			} else {
				o = ro.Map(func(v ro.TimestampValue[int]) int { got = append(got, v.Timestamp); return v.Value })(ro.Timestamp[int]()(tapped))
			}
			obs = ro.NewObserver(func(v int) {
				vals = append(vals, v)
				if slow > 0 {
					simSleep(slow)
				}
			}, func(error) {}, func() {})
			if l := sc.Int("late", 0); l > 0 {
				e.SettleFor(dur(l))
			}
			t0 := e.K.Now()
			e.Go("subscriber", func() { o.Subscribe(obs) })
			e.SettleFor(dur(40))
			if e.K.Capped() {
				return
			}
			if len(got) != len(arrived) || len(vals) != len(arrived) {
				e.Violate("C04", "timing:"+sc.Sub, fmt.Sprintf("%s: %d values arrived at the operator, %d were delivered", sc.Sub, len(arrived), len(got)))
				return
			}
			for k := range got {
				ref := t0 // the previous emission, or the subscription
				if sc.Sub == "TimeInterval" && k > 0 {
					ref = arrived[k-1]
				}
				want := arrived[k] - ref
				if got[k] != want {
					e.Violate("C04", "timing:"+sc.Sub, fmt.Sprintf("%s: value #%d arrived at the operator at %v (subscription at %v, arrivals %v, consumer busy %v per value): reported %v, the elapsed time is %v", sc.Sub, k, arrived[k], t0, arrived, slow, got[k], want))
					return
				}
			}
		},
	})
}
