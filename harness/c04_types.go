package roverif

// C04.types — the math and aggregation operators are generic over the numeric types: the documented
// meaning (mean computed without intermediate overflow, sum/min/max/clamp in the element type) holds for
// the narrow instantiations too, with values at the ends of the type's range.

import (
	"fmt"
	"math"

	"github.com/samber/ro"
)

func init() {
	Register(&Family{
		Name:   "C04.types",
		Props:  []string{"C04"},
		Weight: 6,
		Gen: func(g *Gen) *Scn {
			sc := &Scn{Family: "C04.types"}
			sc.Sub = g.Pick("int8", "uint8", "int16", "uint16", "int32", "float32", "int64")
			n := g.Range(0, 6)
			var script []Step
			for i := 0; i < n; i++ {
				// index into the per-type table of interesting values
				script = append(script, Step{K: "N", V: g.Intn(8)})
			}
			script = append(script, Step{K: "C"})
			sc.Sources = []SrcSpec{{Mode: "sync", Script: script}}
			sc.SetInt("seqmode", 1)
			return sc
		},
		Run: func(e *Env) {
			sc := e.Sc
			var idx []int
			for _, st := range sc.Sources[0].Script {
				if st.K == "N" {
					idx = append(idx, st.V)
				}
			}
			switch sc.Sub {
			case "int8":
				c04Types(e, idx, []int8{math.MinInt8, -100, -1, 0, 1, 100, 126, math.MaxInt8})
			case "uint8":
				c04Types(e, idx, []uint8{0, 1, 2, 100, 128, 200, 254, math.MaxUint8})
			case "int16":
				c04Types(e, idx, []int16{math.MinInt16, -30000, -1, 0, 1, 30000, 32766, math.MaxInt16})
			case "uint16":
				c04Types(e, idx, []uint16{0, 1, 2, 30000, 32768, 60000, 65534, math.MaxUint16})
			case "int32":
				c04Types(e, idx, []int32{math.MinInt32, -2000000000, -1, 0, 1, 2000000000, math.MaxInt32 - 1, math.MaxInt32})
			case "float32":
				c04Types(e, idx, []float32{-3e38, -1.5, -0.25, 0, 0.25, 1.5, 16777216, 3e38})
			default:
				c04Types(e, idx, []int64{math.MinInt64 / 2, -(1 << 53) - 1, -1, 0, 1, (1 << 53) + 1, math.MaxInt64/2 - 1, math.MaxInt64 / 2})
			}
		},
	})
}

type c04Num interface {
	~int8 | ~uint8 | ~int16 | ~uint16 | ~int32 | ~int64 | ~float32
}

func c04Types[T c04Num](e *Env, idx []int, table []T) {
	var vals []T
	for _, i := range idx {
		vals = append(vals, table[i%len(table)])
	}
	src := func() ro.Observable[T] { return ro.Just(vals...) }
	tname := fmt.Sprintf("%T", *new(T))
	collect := func(what string, o ro.Observable[float64]) ([]float64, bool) {
		out, err := ro.Collect(o)
		if err != nil {
			e.Violate("C04", "types:"+what, fmt.Sprintf("%s[%s] over %v ended with %v", what, tname, vals, err))
			return nil, false
		}
		return out, true
	}
	asF := func(o ro.Observable[T]) ro.Observable[float64] {
		return ro.Map(func(v T) float64 { return float64(v) })(o)
	}
	// Average: the exact mean of the values (computed here in float64, like the documentation says)
	if got, ok := collect("Average", ro.Average[T]()(src())); ok {
		want := math.NaN()
		if len(vals) > 0 {
			s := 0.0
			for _, v := range vals {
				s += float64(v)
			}
			want = s / float64(len(vals))
		}
		if len(got) != 1 || !(got[0] == want || (math.IsNaN(got[0]) && math.IsNaN(want))) {
			e.Violate("C04", "types:Average", fmt.Sprintf("Average[%s] over %v delivered %v, the mean is %v", tname, vals, got, want))
		}
	}
	// Sum, Min, Max in the element type (Go arithmetic of that type)
	if got, ok := collect("Sum", asF(ro.Sum[T]()(src()))); ok {
		var s T
		for _, v := range vals {
			s += v
		}
		if len(got) != 1 || got[0] != float64(s) {
			e.Violate("C04", "types:Sum", fmt.Sprintf("Sum[%s] over %v delivered %v, the sum in %s is %v", tname, vals, got, tname, s))
		}
	}
	if len(vals) > 0 {
		mn, mx := vals[0], vals[0]
		for _, v := range vals {
			if v < mn {
				mn = v
			}
			if v > mx {
				mx = v
			}
		}
		if got, ok := collect("Min", asF(ro.Min[T]()(src()))); ok && (len(got) != 1 || got[0] != float64(mn)) {
			e.Violate("C04", "types:Min", fmt.Sprintf("Min[%s] over %v delivered %v, expected %v", tname, vals, got, mn))
		}
		if got, ok := collect("Max", asF(ro.Max[T]()(src()))); ok && (len(got) != 1 || got[0] != float64(mx)) {
			e.Violate("C04", "types:Max", fmt.Sprintf("Max[%s] over %v delivered %v, expected %v", tname, vals, got, mx))
		}
		lo, hi := table[2], table[5]
		if got, ok := collect("Clamp", asF(ro.Clamp(lo, hi)(src()))); ok {
			bad := len(got) != len(vals)
			for i := 0; !bad && i < len(vals); i++ {
				w := vals[i]
				if w < lo {
					w = lo
				}
				if w > hi {
					w = hi
				}
				bad = got[i] != float64(w)
			}
			if bad {
				e.Violate("C04", "types:Clamp", fmt.Sprintf("Clamp[%s](%v,%v) over %v delivered %v", tname, lo, hi, vals, got))
			}
		}
	}
}
