package roverif

import (
	"fmt"
	"strings"

	"github.com/samber/ro"
)

// ---- arrival-order reference models of the multi-source operators --------------------------------
// Written from the operators' doc comments, DESIGN.md Appendix A and the property statement
// ("an error from any source ends the output at once and releases the others"). Where those are silent
// the model branches (set-valued).

type cbranch struct {
	out  []N
	next *cstate
}

// cstate is the state of one operator instance over k sources.
type cstate struct {
	op     string
	k      int
	done   []bool // source completed
	subbed []bool // source currently subscribed according to the definition
	has    []bool
	latest []int
	queues [][]int
	cur    int  // concat: current source
	winner int  // race
	open   bool // skipuntil gate / throttle: tick seen since last pass
	fresh  bool // sample: value since last tick
	buf    []int
	term   bool // output terminated
}

func newCState(op string, k int) *cstate {
	s := &cstate{op: op, k: k, done: make([]bool, k), subbed: make([]bool, k), has: make([]bool, k), latest: make([]int, k), queues: make([][]int, k), winner: -1}
	for i := range s.subbed {
		s.subbed[i] = true
	}
	switch op {
	case "Concat", "ConcatAll", "ConcatWith":
		for i := 1; i < k; i++ {
			s.subbed[i] = false
		}
	}
	return s
}

func (s *cstate) clone() *cstate {
	c := *s
	c.done = append([]bool(nil), s.done...)
	c.subbed = append([]bool(nil), s.subbed...)
	c.has = append([]bool(nil), s.has...)
	c.latest = append([]int(nil), s.latest...)
	c.buf = append([]int(nil), s.buf...)
	c.queues = make([][]int, len(s.queues))
	for i := range s.queues {
		c.queues[i] = append([]int(nil), s.queues[i]...)
	}
	return &c
}

func (s *cstate) finish(c *cstate) {
	c.term = true
	for i := range c.subbed {
		c.subbed[i] = false
	}
}

func pack(vals []int) int {
	v := 0
	for _, x := range vals {
		v = v*100 + x
	}
	return v
}

func packT(vals []int) int {
	// CombineLatest2/Zip2: a*100+b ; 3: a*10000+b*100+c  == base-100 packing
	return pack(vals)
}

// arrive: source src delivers n. Returns the admissible (output, next state) branches.
func (s *cstate) arrive(src int, n N) []cbranch {
	if s.term || !s.subbed[src] {
		return []cbranch{{nil, s}}
	}
	c := s.clone()
	one := func(out ...N) []cbranch { return []cbranch{{out, c}} }
	errAll := func() []cbranch {
		s.finish(c)
		return one(N{K: 'E', V: n.V})
	}
	allDone := func() bool {
		for _, d := range c.done {
			if !d {
				return false
			}
		}
		return true
	}
	switch s.op {
	case "Merge", "MergeAll", "MergeWith", "MergeWith3", "MergeMapSrc":
		switch n.K {
		case 'N':
			return one(n)
		case 'E':
			return errAll()
		default:
			c.done[src], c.subbed[src] = true, false
			if allDone() {
				s.finish(c)
				return one(N{K: 'C'})
			}
			return one()
		}
	case "Concat", "ConcatAll", "ConcatWith":
		switch n.K {
		case 'N':
			return one(n)
		case 'E':
			return errAll()
		default:
			c.done[src], c.subbed[src] = true, false
			c.cur++
			if c.cur >= c.k {
				s.finish(c)
				return one(N{K: 'C'})
			}
			c.subbed[c.cur] = true
			return one()
		}
	case "CombineLatest2", "CombineLatest3", "CombineLatest4", "CombineLatest5", "CombineLatestAll", "CombineLatestAny":
		switch n.K {
		case 'N':
			c.has[src], c.latest[src] = true, n.V
			for _, h := range c.has {
				if !h {
					return one()
				}
			}
			return one(N{K: 'N', V: packT(c.latest)})
		case 'E':
			return errAll()
		default:
			c.done[src], c.subbed[src] = true, false
			if allDone() {
				s.finish(c)
				return one(N{K: 'C'})
			}
			if !c.has[src] {
				// a source that completes without ever emitting: no tuple can ever be produced; the
				// documentation does not say whether the output completes now or when all are done
				c2 := c.clone()
				s.finish(c2)
				return []cbranch{{nil, c}, {[]N{{K: 'C'}}, c2}}
			}
			return one()
		}
	case "Zip2", "Zip3", "Zip4", "Zip5", "Zip6", "Zip", "ZipAll":
		switch n.K {
		case 'N':
			c.queues[src] = append(c.queues[src], n.V)
			for _, q := range c.queues {
				if len(q) == 0 {
					return one()
				}
			}
			tuple := make([]int, c.k)
			for i := range c.queues {
				tuple[i] = c.queues[i][0]
				c.queues[i] = c.queues[i][1:]
			}
			out := []N{{K: 'N', V: packT(tuple)}}
			for i := range c.queues {
				if c.done[i] && len(c.queues[i]) == 0 {
					s.finish(c)
					out = append(out, N{K: 'C'})
					break
				}
			}
			return []cbranch{{out, c}}
		case 'E':
			return errAll()
		default:
			c.done[src], c.subbed[src] = true, false
			if len(c.queues[src]) == 0 {
				s.finish(c)
				return one(N{K: 'C'})
			}
			return one()
		}
	case "Race", "Amb", "RaceWith":
		if c.winner < 0 {
			c.winner = src
			for i := range c.subbed {
				if i != src {
					c.subbed[i] = false
				}
			}
		}
		if src != c.winner {
			return one()
		}
		if n.K != 'N' {
			s.finish(c)
		}
		return one(n)
	case "TakeUntil":
		if src == 0 {
			if n.K != 'N' {
				s.finish(c)
			}
			return one(n)
		}
		switch n.K {
		case 'N':
			s.finish(c)
			return one(N{K: 'C'})
		case 'E':
			return errAll()
		default:
			c.subbed[1] = false
			return one()
		}
	case "SkipUntil":
		if src == 0 {
			if n.K != 'N' {
				s.finish(c)
				return one(n)
			}
			if c.open {
				return one(n)
			}
			return one()
		}
		switch n.K {
		case 'N':
			c.open = true
			// the notifier has done its job; whether it stays subscribed is not specified
			return one()
		case 'E':
			return errAll()
		default:
			c.subbed[1] = false
			return one()
		}
	case "BufferWhen":
		flush := func() []N {
			var out []N
			for _, v := range c.buf {
				out = append(out, N{K: 'N', V: v})
			}
			c.buf = nil
			return out
		}
		if n.K == 'E' {
			// "buffer is emitted and the error is propagated" (doc) vs error at once (statement): both accepted
			c2 := c.clone()
			out2 := []N{}
			for _, v := range c2.buf {
				out2 = append(out2, N{K: 'N', V: v})
			}
			out2 = append(out2, N{K: 'E', V: n.V})
			s.finish(c)
			s.finish(c2)
			return []cbranch{{[]N{{K: 'E', V: n.V}}, c}, {out2, c2}}
		}
		if src == 0 {
			if n.K == 'N' {
				c.buf = append(c.buf, n.V)
				return one()
			}
			out := append(flush(), N{K: 'C'})
			s.finish(c)
			return []cbranch{{out, c}}
		}
		if n.K == 'N' {
			return []cbranch{{flush(), c}}
		}
		out := append(flush(), N{K: 'C'})
		s.finish(c)
		return []cbranch{{out, c}}
	case "WindowWhen":
		// windows merged back: the source's values in order; boundary values only cut windows
		if n.K == 'E' {
			return errAll()
		}
		if src == 0 {
			if n.K == 'C' {
				s.finish(c)
			}
			return one(n)
		}
		if n.K == 'C' {
			c.subbed[1] = false
			// a boundary that completes: the documentation does not say whether the output ends
			c2 := c.clone()
			s.finish(c2)
			return []cbranch{{nil, c}, {[]N{{K: 'C'}}, c2}}
		}
		return one()
	case "SampleWhen":
		if n.K == 'E' {
			return errAll()
		}
		if src == 0 {
			if n.K == 'N' {
				c.latest[0], c.fresh = n.V, true
				return one()
			}
			s.finish(c)
			return one(N{K: 'C'})
		}
		if n.K == 'N' {
			if c.fresh {
				c.fresh = false
				return one(N{K: 'N', V: c.latest[0]})
			}
			return one()
		}
		c.subbed[1] = false
		c2 := c.clone()
		s.finish(c2)
		return []cbranch{{nil, c}, {[]N{{K: 'C'}}, c2}}
	case "ThrottleWhen":
		if n.K == 'E' {
			return errAll()
		}
		if src == 0 {
			if n.K == 'N' {
				if c.open {
					c.open = false
					return one(n)
				}
				return one()
			}
			s.finish(c)
			return one(N{K: 'C'})
		}
		if n.K == 'N' {
			c.open = true
			return one()
		}
		c.subbed[1] = false
		c2 := c.clone()
		s.finish(c2)
		return []cbranch{{nil, c}, {[]N{{K: 'C'}}, c2}}
	}
	panic("no arrival model for " + s.op)
}

var c05Ops = []string{"Merge", "MergeAll", "MergeWith", "MergeMapSrc", "Concat", "ConcatAll", "CombineLatest2", "CombineLatest3", "CombineLatestAll", "CombineLatestAny", "Zip2", "Zip3", "Zip4", "Zip5", "Zip6", "Zip", "ZipAll", "CombineLatest4", "CombineLatest5", "MergeWith3", "RaceWith", "ConcatWith", "Race", "Amb", "TakeUntil", "SkipUntil", "BufferWhen", "WindowWhen", "SampleWhen", "ThrottleWhen"}

type arrival struct {
	Src  int
	Step Step
}

func genArrivals(g *Gen, sc *Scn) {
	// a random linear extension of the per-source scripts, stored as Ops{Client: source, A: index}
	pos := make([]int, len(sc.Sources))
	total := 0
	for _, s := range sc.Sources {
		total += len(s.Script)
	}
	for n := 0; n < total; n++ {
		var cand []int
		for i, s := range sc.Sources {
			if pos[i] < len(s.Script) {
				cand = append(cand, i)
			}
		}
		i := cand[g.Intn(len(cand))]
		sc.Ops = append(sc.Ops, OpSpec{Client: i, Op: "push", A: pos[i]})
		pos[i]++
	}
}

func c05Valid(sc *Scn) bool {
	c := combs[sc.Sub]
	if c == nil || len(sc.Sources) < c.Min || len(sc.Sources) > c.Max {
		return false
	}
	// the ops must still be a linear extension of the scripts
	pos := make([]int, len(sc.Sources))
	for _, op := range sc.Ops {
		if op.Client >= len(sc.Sources) || op.A != pos[op.Client] || op.A >= len(sc.Sources[op.Client].Script) {
			return false
		}
		pos[op.Client]++
	}
	return true
}

func init() {
	Register(&Family{
		Name:   "C05.seq",
		Props:  []string{"C05", "C08"},
		Weight: 5,
		Gen: func(g *Gen) *Scn {
			sc := &Scn{Family: "C05.seq"}
			name := c05Ops[g.Intn(len(c05Ops))]
			c := combs[name]
			sc.Sub = name
			k := g.Range(c.Min, c.Max)
			for i := 0; i < k; i++ {
				sc.Sources = append(sc.Sources, SrcSpec{Mode: "manual", Script: genScript(g, (i+1)*10, 4, "CCE-", false)})
			}
			genArrivals(g, sc)
			sc.SetInt("seqmode", 1)
			sc.SetInt("raw", g.PickInt(0, 0, 1, 1, 2, 3))
			return sc
		},
		Valid: c05Valid,
		Run:   runC05Seq,
	})
	Register(&Family{
		Name:   "C05.conc",
		Props:  []string{"C05", "C13"},
		Weight: 4,
		Gen: func(g *Gen) *Scn {
			sc := &Scn{Family: "C05.conc"}
			name := c05Ops[g.Intn(len(c05Ops))]
			for name == "Concat" || name == "ConcatAll" || name == "ConcatWith" {
				name = c05Ops[g.Intn(len(c05Ops))] // lazily subscribed cold sources: nothing concurrent to explore
			}
			c := combs[name]
			sc.Sub = name
			k := g.Range(c.Min, c.Max)
			for i := 0; i < k; i++ {
				sc.Sources = append(sc.Sources, SrcSpec{Mode: "async", Script: genScript(g, (i+1)*10, 3, "CCE-", false)})
			}
			sc.SetInt("raw", g.PickInt(0, 0, 1, 1, 2, 3))
			return sc
		},
		Valid: func(sc *Scn) bool {
			c := combs[sc.Sub]
			return c != nil && len(sc.Sources) >= c.Min && len(sc.Sources) <= c.Max
		},
		Run: runC05Conc,
	})
}

func evToN(ev Ev) N {
	switch ev.K {
	case 'N':
		return N{K: 'N', V: ev.V}
	case 'E':
		code := -1
		if se, ok := ev.Err.(*scriptErr); ok {
			code = se.code
		}
		return N{K: 'E', V: code}
	}
	return N{K: 'C'}
}

func eventsToN(evs []Ev) []N {
	out := make([]N, len(evs))
	for i, ev := range evs {
		out[i] = evToN(ev)
	}
	return out
}

func sameN(a, b []N) bool {
	if len(a) != len(b) {
		return false
	}
	for i := range a {
		if a[i] != b[i] {
			return false
		}
	}
	return true
}

func runC05Seq(e *Env) {
	sc := e.Sc
	var srcs []*Src
	var obs []ro.Observable[int]
	for _, sp := range sc.Sources {
		s := e.NewSrc(sp)
		srcs = append(srcs, s)
		obs = append(obs, s.Obs())
	}
	o := combs[sc.Sub].Apply(e, obs)
	rec := e.NewRec("o")
	h := e.Subscribe(o, rec.Obs(), nil)
	e.Settle()
	_ = h
	// the set of model states compatible with what has been observed so far
	states := []*cstate{newCState(sc.Sub, len(srcs))}
	seen := 0
	var history []string
	checkSubs := func(step string) {
		// subscription state of every source must be the one the definition prescribes (in some branch)
		okAny := false
		var want []string
		for _, st := range states {
			ok := true
			for i, s := range srcs {
				live := s.Live > 0
				if live != st.subbed[i] {
					// a source that the definition no longer needs may or may not stay subscribed when the
					// definition is silent (SkipUntil's notifier after it fired)
					if sc.Sub == "SkipUntil" && i == 1 && st.open {
						continue
					}
					ok = false
				}
			}
			want = append(want, fmt.Sprint(st.subbed))
			if ok {
				okAny = true
			}
		}
		if !okAny {
			var live []bool
			for _, s := range srcs {
				live = append(live, s.Live > 0)
			}
			e.Violate("C05", "subscription-state", fmt.Sprintf("%s after %s: sources subscribed %v, the definition says %s (arrivals: %s; trace %s)", sc.Sub, step, live, strings.Join(want, " or "), strings.Join(history, " "), rec.Trace()))
		}
	}
	checkSubs("subscription")
	if len(e.Viols) > 0 {
		return
	}
	for _, op := range sc.Ops {
		st := sc.Sources[op.Client].Script[op.A]
		history = append(history, fmt.Sprintf("s%d:%s", op.Client, N{K: st.K[0], V: st.V}))
		done := false
		e.Go("feeder", func() { srcs[op.Client].Push(st); done = true })
		e.Settle()
		if e.K.Capped() {
			return
		}
		if !done {
			e.Violate("C05", "arrival-blocks", fmt.Sprintf("%s: delivering %s never returned (arrivals: %s; trace %s)", sc.Sub, history[len(history)-1], strings.Join(history, " "), rec.Trace()))
			return
		}
		got := eventsToN(rec.Events[seen:])
		seen = len(rec.Events)
		var next []*cstate
		var wants []string
		for _, ms := range states {
			for _, br := range ms.arrive(op.Client, N{K: st.K[0], V: st.V}) {
				wants = append(wants, "["+traceN(br.out)+"]")
				if sameN(br.out, got) {
					next = append(next, br.next)
				}
			}
		}
		if len(next) == 0 {
			// C08: a synchronous pipeline has delivered everything an arrival gives rise to when the
			// producer's call returns; here what was delivered is a proper prefix of what the
			// definition prescribes for this arrival
			clause := "output:" + sc.Sub
			if (sc.Sub == "TakeUntil" || sc.Sub == "SkipUntil") && op.Client == 1 && st.K == "E" {
				clause += ":notifier-error"
			}
			for _, ms := range states {
				for _, br := range ms.arrive(op.Client, N{K: st.K[0], V: st.V}) {
					if len(got) < len(br.out) && sameN(br.out[:len(got)], got) && clause == "output:"+sc.Sub {
						e.Violate("C08", "output-missing-when-call-returned:"+sc.Sub, fmt.Sprintf("%s: the call delivering %s returned having produced [%s] of the prescribed [%s] (arrivals so far: %s)", sc.Sub, history[len(history)-1], traceN(got), traceN(br.out), strings.Join(history, " ")))
					}
				}
			}
			e.Violate("C05", clause, fmt.Sprintf("%s: arrival %s produced [%s]; the definition prescribes %s (arrivals so far: %s; full trace %s)", sc.Sub, history[len(history)-1], traceN(got), strings.Join(wants, " or "), strings.Join(history, " "), rec.Trace()))
			return
		}
		states = next
		checkSubs(history[len(history)-1])
		if len(e.Viols) > 0 {
			return
		}
	}
}

// runC05Conc: free-running producers; the trace must be the definition's output for SOME arrival order
// compatible with each source's own order and with real-time precedence of the producer calls.
func runC05Conc(e *Env) {
	sc := e.Sc
	var srcs []*Src
	var obs []ro.Observable[int]
	for _, sp := range sc.Sources {
		s := e.NewSrc(sp)
		srcs = append(srcs, s)
		obs = append(obs, s.Obs())
	}
	o := combs[sc.Sub].Apply(e, obs)
	rec := e.NewRec("o")
	e.Subscribe(o, rec.Obs(), nil)
	e.SettleFor(50 * Unit)
	if e.K.Capped() {
		return
	}
	got := eventsToN(rec.Events)
	// calls per source in order
	type call struct {
		n        N
		inv, ret int
	}
	per := make([][]call, len(srcs))
	total := 0
	for i, s := range srcs {
		for _, c := range s.Calls {
			ret := c.Return
			if ret == 0 {
				ret = 1 << 30
			}
			per[i] = append(per[i], call{N{K: c.Step.K[0], V: c.Step.V}, c.Invoke, ret})
			total++
		}
	}
	if total > 10 {
		e.Probe("history-too-long")
		return
	}
	pos := make([]int, len(srcs))
	explored := 0
	var dfs func(st *cstate, out int) bool
	dfs = func(st *cstate, out int) bool {
		explored++
		if explored > 200000 {
			return true // inconclusive: never reported
		}
		rem := 0
		for i := range per {
			rem += len(per[i]) - pos[i]
		}
		if rem == 0 {
			return out == len(got)
		}
		for i := range per {
			if pos[i] >= len(per[i]) {
				continue
			}
			c := per[i][pos[i]]
			// real-time precedence: c may come next only if no other pending call returned before c was invoked
			okRT := true
			for j := range per {
				if j != i && pos[j] < len(per[j]) && per[j][pos[j]].ret < c.inv {
					okRT = false
				}
			}
			if !okRT {
				continue
			}
			for _, br := range st.arrive(i, c.n) {
				if out+len(br.out) > len(got) || !sameN(br.out, got[out:out+len(br.out)]) {
					continue
				}
				pos[i]++
				if dfs(br.next, out+len(br.out)) {
					pos[i]--
					return true
				}
				pos[i]--
			}
		}
		return false
	}
	if !dfs(newCState(sc.Sub, len(srcs)), 0) {
		var sb strings.Builder
		for i := range per {
			fmt.Fprintf(&sb, "s%d:", i)
			for _, c := range per[i] {
				fmt.Fprintf(&sb, " %s@%d-%d", c.n, c.inv, c.ret)
			}
			sb.WriteString("; ")
		}
		clause := "no-arrival-order:" + sc.Sub
		if (sc.Sub == "TakeUntil" || sc.Sub == "SkipUntil") && len(per) > 1 {
			for _, c := range per[1] {
				if c.n.K == 'E' && c.ret < 1<<30 {
					clause += ":notifier-error" // the notifier failed: the known swallowed-error finding applies
				}
			}
		}
		e.Violate("C05", clause, fmt.Sprintf("%s delivered [%s], which is not the definition's output for any arrival order compatible with the producers' calls (%s)", sc.Sub, traceN(got), sb.String()))
	} else {
		e.Probe("explained")
	}
}
