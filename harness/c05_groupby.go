package roverif

// C05.groupby — group-by is one of the operators that produce an observable of observables: whatever the
// arrival order, every value reaches the group of its key exactly once and in order, groups are announced in
// order of first appearance, completion and error reach the outer stream and every group.
//
// Sub-modes (manual source, one arrival processed to quiescence before the next):
//   merge    GroupBy | MergeAll is the identity on the arrival sequence
//   take1    GroupBy | Take(1) | MergeAll delivers the first value and completes at once
//   regroup  the groups are consumed by hand: consumer A takes the first group, leaves after two values,
//            consumer B takes the same group over: nothing is delivered twice, nothing is lost
//   late     (free-running) the first group is subscribed late and from a goroutine of its own while the
//            producer keeps emitting: the group's consumer receives the values of its key in source order,
//            the queued ones first, each exactly once

import (
	"fmt"

	"github.com/samber/ro"
)

func init() {
	Register(&Family{
		Name:   "C05.groupby",
		Props:  []string{"C05"},
		Weight: 1,
		Gen: func(g *Gen) *Scn {
			sc := &Scn{Family: "C05.groupby"}
			sc.Sub = g.Pick("merge", "take1", "regroup", "late", "late")
			sc.SetInt("k", g.Range(1, 3))
			sc.Sources = []SrcSpec{{Mode: "manual", Script: genScript(g, 10, 6, "CCE-", false)}}
			sc.SetInt("seqmode", 1)
			if sc.Sub == "late" {
				sc.SetInt("seqmode", 0)
				sc.SetInt("after", g.Range(1, 4))
			}
			return sc
		},
		Run: runC05GroupBy,
	})
}

func runC05GroupBy(e *Env) {
	sc := e.Sc
	k := sc.Int("k", 2)
	src := e.NewSrc(sc.Sources[0])
	key := func(v int) int { return v % k }
	groups := ro.GroupBy(key)(src.Obs())
	script := sc.Sources[0].Script
	push := func(st Step) bool {
		done := false
		e.Go("feeder", func() { src.Push(st); done = true })
		e.Settle()
		if e.K.Capped() {
			return false
		}
		if !done {
			e.Violate("C05", "arrival-blocks:GroupBy", fmt.Sprintf("GroupBy/%s: delivering %s%d never returned", sc.Sub, st.K, st.V))
			return false
		}
		return true
	}
	switch sc.Sub {
	case "late":
		var first ro.Observable[int]
		onGroup := ro.NewObserver(
			func(g ro.Observable[int]) {
				if first == nil {
					first = g
				}
			},
			func(err error) {},
			func() {},
		)
		e.Go("subscriber", func() { groups.Subscribe(onGroup) })
		e.Settle()
		firstKey, pushed, producerDone, subscribed := -1, 0, false, false
		var want []N
		var term *Step
		for i := range script {
			if script[i].K != "N" {
				term = &script[i]
				break
			}
			if firstKey < 0 {
				firstKey = key(script[i].V)
			}
			if key(script[i].V) == firstKey {
				want = append(want, N{K: 'N', V: script[i].V})
			}
		}
		if firstKey < 0 {
			return
		}
		after := sc.Int("after", 1)
		if after > len(want) {
			after = len(want)
		}
		rec := e.NewRec("late")
		e.Go("producer", func() {
			for _, st := range script {
				if st.K != "N" {
					break
				}
				src.Push(st)
				if key(st.V) == firstKey {
					pushed++
				}
			}
			producerDone = true
		})
		e.Go("consumer", func() {
			e.WaitFor(func() bool { return first != nil && pushed >= after })
			first.Subscribe(rec.Obs())
			subscribed = true
		})
		e.Settle()
		if e.K.Capped() {
			return
		}
		if !producerDone || !subscribed {
			e.Violate("C05", "arrival-blocks:GroupBy", fmt.Sprintf("GroupBy/late: producer finished=%v, late consumer's Subscribe returned=%v at quiescence", producerDone, subscribed))
			return
		}
		if term != nil {
			if !push(*term) {
				return
			}
			want = append(want, N{K: term.K[0], V: term.V})
		}
		if got := eventsToN(rec.Events); !sameN(got, want) {
			e.Violate("C05", "output:GroupBy:late", fmt.Sprintf("GroupBy(v%%%d): the consumer that subscribed to group %d late (after %d of its values, from its own goroutine, the producer still emitting) received [%s]; the values of that key in source order are [%s]", k, firstKey, after, traceN(got), traceN(want)))
		}
	case "merge", "take1":
		o := ro.MergeAll[int]()(groups)
		if sc.Sub == "take1" {
			o = ro.MergeAll[int]()(ro.Take[ro.Observable[int]](1)(groups))
		}
		rec := e.NewRec("o")
		e.Subscribe(o, rec.Obs(), nil)
		e.Settle()
		var want []N
		ended := false
		for _, st := range script {
			if !push(st) {
				return
			}
			if !ended {
				n := N{K: st.K[0], V: st.V}
				want = append(want, n)
				if n.K != 'N' {
					ended = true
				} else if sc.Sub == "take1" {
					want = append(want, N{K: 'C'})
					ended = true
				}
			}
			if got := eventsToN(rec.Events); !sameN(got, want) {
				e.Violate("C05", "output:GroupBy:"+sc.Sub, fmt.Sprintf("GroupBy(v%%%d)/%s after the arrivals up to %s%d: delivered [%s], the definition prescribes [%s]", k, sc.Sub, st.K, st.V, traceN(got), traceN(want)))
				return
			}
		}
	case "regroup":
		var first ro.Observable[int]
		ngroups := 0
		var a, b *Rec
		var subA ro.Subscription
		onGroup := ro.NewObserver(
			func(g ro.Observable[int]) {
				ngroups++
				if first == nil {
					first = g
					a = e.NewRec("A")
					subA = g.Subscribe(a.Obs())
				}
			},
			func(err error) {},
			func() {},
		)
		e.Go("subscriber", func() { groups.Subscribe(onGroup) })
		e.Settle()
		firstKey := -1
		var wantA, wantB []N
		handedOver := false
		for _, st := range script {
			if !push(st) {
				return
			}
			n := N{K: st.K[0], V: st.V}
			if n.K == 'N' && firstKey < 0 {
				firstKey = key(n.V)
			}
			if inGroup := firstKey >= 0 && (n.K != 'N' || key(n.V) == firstKey); inGroup {
				if !handedOver {
					wantA = append(wantA, n)
				} else {
					wantB = append(wantB, n)
				}
			}
			if a != nil && !handedOver && len(a.Values()) >= 2 && a.Terminal() == 0 {
				// A leaves, B takes the same group over
				done := false
				e.Go("handover", func() {
					subA.Unsubscribe()
					b = e.NewRec("B")
					first.Subscribe(b.Obs())
					done = true
				})
				e.Settle()
				if !done {
					e.Violate("C05", "arrival-blocks:GroupBy", "GroupBy/regroup: handing the first group over to a second consumer never returned")
					return
				}
				handedOver = true
			}
			if n.K != 'N' {
				break
			}
		}
		if a != nil {
			if got := eventsToN(a.Events); !sameN(got, wantA) {
				e.Violate("C05", "output:GroupBy:regroup", fmt.Sprintf("GroupBy(v%%%d): the first consumer of group %d received [%s], the values of that key that arrived while it was subscribed are [%s]", k, firstKey, traceN(got), traceN(wantA)))
			}
		}
		if b != nil {
			if got := eventsToN(b.Events); !sameN(got, wantB) {
				e.Violate("C05", "output:GroupBy:regroup", fmt.Sprintf("GroupBy(v%%%d): the consumer that took group %d over received [%s]; the values of that key that arrived after the first consumer left are [%s] (the first consumer had received [%s])", k, firstKey, traceN(got), traceN(wantB), a.Trace()))
			}
		}
	}
}
