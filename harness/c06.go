package roverif

import (
	"fmt"

	"github.com/samber/ro"
)

func syncOnly(d *StageDef) bool { return !d.Hot && !d.Async && !d.Time && !d.Handoff && d.Aux == 0 }

func init() {
	Register(&Family{
		Name:   "C06.cut",
		Props:  []string{"C06", "C13"},
		Weight: 6,
		Gen: func(g *Gen) *Scn {
			sc := &Scn{Family: "C06.cut"}
			mode := g.Pick("sync", "async", "async", "timed", "hot")
			script := genScript(g, 10, 5, "CCE--", mode == "timed")
			sc.Sources = []SrcSpec{{Mode: mode, Script: script}}
			if mode == "async" && g.Bool(0.4) {
				// one source called from several goroutines through a serialising constructor
				sc.Sources[0].Ctor = g.Pick("safe", "default", "eventually")
				sc.Sources[0].CtorAPI = g.PickInt(0, 0, 1, 2)
				sc.Sources[0].Producers = g.Range(2, 3)
			}
			if mode == "hot" && g.Bool(0.6) {
				sc.Sources[0].Subject = subjectKinds[g.Intn(len(subjectKinds))]
				sc.Sources[0].SubjectBuf = g.Range(0, 2)
			}
			n := g.PickInt(0, 1, 1, 2, 3)
			if g.Bool(0.7) {
				sc.Sub = "sync"
				genChain(g, sc, n, nvalues(script), "sync", syncOnly)
			} else {
				sc.Sub = "any"
				genChain(g, sc, n, nvalues(script), g.Pick("sync", "async"), chainable)
			}
			sc.SetInt("cut", g.Range(-1, len(script)+1))
			sc.SetInt("unsubs", g.Range(1, 3))
			sc.SetInt("waits", g.Range(0, 2))
			sc.SetInt("inside", g.Intn(2))
			sc.SetInt("repeat", g.Intn(2))
			if g.Bool(0.15) {
				sc.SetInt("tdpanic", 1) // the source's teardown panics: Wait must still be released
			}
			return sc
		},
		Expand: expandCuts,
		Run:    runC06,
	})

	Register(&Family{
		// the multi-source operators: their own locks are taken on the completion path too
		Name:   "C06.comb",
		Props:  []string{"C06", "C13"},
		Weight: 3,
		Gen: func(g *Gen) *Scn {
			sc := &Scn{Family: "C06.comb"}
			name := combOrder[g.Intn(len(combOrder))]
			c := combs[name]
			sc.Sub = name
			k := g.Range(c.Min, c.Max)
			total := 0
			for i := 0; i < k; i++ {
				mode := g.Pick("sync", "async", "async", "timed", "hot")
				script := genScript(g, (i+1)*10, 3, "CCCE-", mode == "timed")
				total += len(script)
				sc.Sources = append(sc.Sources, SrcSpec{Mode: mode, Script: script})
			}
			sc.SetInt("cut", g.Range(-1, total))
			if g.Bool(0.5) {
				sc.SetInt("cut", -1) // let the stream end by itself: Wait returns after the terminal callback
			}
			sc.SetInt("unsubs", g.Range(1, 3))
			sc.SetInt("waits", g.Range(1, 2))
			sc.SetInt("inside", g.Intn(2))
			sc.SetInt("repeat", g.Intn(2))
			return sc
		},
		Run: runC06,
	})

	Register(&Family{
		Name:   "C06.collect",
		Props:  []string{"C06"},
		Weight: 2,
		Gen: func(g *Gen) *Scn {
			sc := &Scn{Family: "C06.collect"}
			mode := g.Pick("sync", "async", "timed")
			script := genScript(g, 10, 5, "CCE", mode == "timed")
			sc.Sources = []SrcSpec{{Mode: mode, Script: script}}
			genChain(g, sc, g.PickInt(0, 1, 2, 3), nvalues(script), g.Pick("sync", "async"), chainable)
			return sc
		},
		Run: func(e *Env) {
			o, srcs := e.Pipeline()
			var seen []int
			var seenErr error
			termExit := 0
			probe := ro.Tap(func(v int) { seen = append(seen, v) }, func(err error) { seenErr = err; termExit = e.Step() }, func() { termExit = e.Step() })(o)
			var got []int
			var gotErr error
			returned := false
			retStep := 0
			e.Go("collect", func() {
				got, gotErr = ro.Collect(probe)
				returned = true
				retStep = e.Step()
			})
			e.Settle()
			FeedAll(srcs)
			e.RunUntil(func() bool { return returned }, 500)
			if e.K.Capped() {
				return
			}
			if !returned {
				if termExit > 0 {
					e.Violate("C06", "collect-hangs", fmt.Sprintf("the stream terminated (values %v err %v) but Collect never returned", seen, seenErr))
				}
				return
			}
			if fmt.Sprint(got) != fmt.Sprint(seen) || gotErr != seenErr {
				e.Violate("C06", "collect-wrong", fmt.Sprintf("Collect returned %v,%v but the stream delivered %v,%v", got, gotErr, seen, seenErr))
			}
			if termExit == 0 {
				e.Violate("C06", "collect-early", "Collect returned before the stream terminated")
			} else if retStep < termExit {
				e.Violate("C06", "collect-early", fmt.Sprintf("Collect returned at step %d before the terminal callback returned (step %d)", retStep, termExit))
			}
		},
	})
}

func runC06(e *Env) {
	sc := e.Sc
	var o ro.Observable[int]
	var srcs []*Src
	if sc.Family == "C06.comb" {
		c := combs[sc.Sub]
		var obs []ro.Observable[int]
		for _, sp := range sc.Sources {
			s := e.NewSrc(sp)
			srcs = append(srcs, s)
			obs = append(obs, s.Obs())
		}
		if c == nil || len(obs) < c.Min || len(obs) > c.Max {
			return
		}
		o = c.Apply(e, obs)
	} else {
		o, srcs = e.Pipeline()
	}
	cut := sc.Int("cut", -1)
	tdpanic := sc.Int("tdpanic", 0) == 1
	if tdpanic {
		srcs[0].PanicTeardown = true
	}
	rec := e.NewRec("o")
	var h *SubHandle
	firstUnsubRet := 0
	unsubCalls := 0
	doUnsub := func(who string) {
		if h == nil || h.Sub() == nil {
			return
		}
		unsubCalls++
		func() {
			defer func() {
				if r := recover(); r != nil && !tdpanic {
					e.Violate("C06", "unsubscribe-panics", fmt.Sprintf("Unsubscribe panicked: %v", r))
				}
			}()
			h.Sub().Unsubscribe()
		}()
		ret := e.Step()
		if firstUnsubRet == 0 || ret < firstUnsubRet {
			firstUnsubRet = ret
		}
		if !h.Sub().IsClosed() {
			e.Violate("C06", "not-closed-after-unsubscribe", who+": IsClosed() is false after Unsubscribe returned")
		}
		if sc.Int("repeat", 0) == 1 {
			h.Sub().Unsubscribe()
		}
	}
	insideDone := false
	if cut > 0 && sc.Int("inside", 0) == 1 {
		hook := func() {
			if !insideDone && len(rec.Events) >= cut && h.Sub() != nil {
				insideDone = true
				doUnsub("observer")
			}
		}
		rec.OnNextHook = func(r *Rec, v int) { hook() }
		rec.OnTermHook = func(r *Rec, k byte) { hook() }
	}
	h = e.Subscribe(o, rec.Observer(), nil)
	if cut >= 0 {
		for i := 0; i < sc.Int("unsubs", 1); i++ {
			e.Go("unsubscriber", func() {
				e.WaitFor(func() bool { return h.Ret() && len(rec.Events) >= cut })
				doUnsub("unsubscriber")
			})
		}
	}
	type waiter struct {
		ret      int
		returned bool
		closedAt bool
	}
	var waiters []*waiter
	for i := 0; i < sc.Int("waits", 0); i++ {
		w := &waiter{}
		waiters = append(waiters, w)
		early := i == 0
		e.Go("waiter", func() {
			if early {
				e.WaitFor(func() bool { return h.Ret() })
			} else {
				e.WaitFor(func() bool { return h.Ret() && h.Sub().IsClosed() })
			}
			h.Sub().Wait()
			w.closedAt = h.Sub().IsClosed()
			w.ret = e.Step()
			w.returned = true
		})
	}
	e.Settle()
	FeedAll(srcs)
	closed := func() bool { return h.Ret() && h.Sub() != nil && h.Sub().IsClosed() }
	ok := e.RunUntil(closed, 400)
	if e.K.Capped() {
		return
	}
	e.SettleFor(50 * Unit)
	if e.K.Capped() {
		return
	}
	if msg := rec.GrammarError(); msg != "" {
		e.Violate("C01", "grammar", msg)
	}
	// Wait rules
	for i, w := range waiters {
		if w.returned && !w.closedAt {
			e.Violate("C06", "wait-early", fmt.Sprintf("Wait #%d returned while IsClosed() was still false", i))
		}
		if w.returned && rec.Terminal() != 0 && unsubCalls == 0 {
			for _, ev := range rec.Events {
				if ev.K != 'N' && ev.Exit > 0 && w.ret < ev.Exit {
					e.Violate("C06", "wait-before-terminal", fmt.Sprintf("Wait #%d returned at step %d before the terminal callback returned at step %d", i, w.ret, ev.Exit))
				}
			}
		}
		if ok && !w.returned {
			e.Violate("C06", "wait-hangs", fmt.Sprintf("subscription is closed but Wait #%d never returned", i))
		}
	}
	// the unsubscription itself (explicit, or the one a terminal notification triggers) must finish: an actor
	// parked on a mutex at quiescence means it deadlocked inside the teardown chain
	if ok {
		for _, a := range e.K.Actors() {
			if a.Blocked() && a.PendingKind().String() == "lock" {
				e.Violate("C06", "unsubscription-deadlocked", fmt.Sprintf("the subscription reports closed but %s is blocked on a lock at quiescence: the teardown chain never finished (trace %s)", a.Site, rec.Trace()))
				break
			}
		}
	}
	// cut rule (sound only when every delivery happens inside a producer call: synchronous chains)
	if firstUnsubRet > 0 && sc.Sub == "sync" {
		u := firstUnsubRet
		for _, ev := range rec.Events {
			if ev.Enter <= u {
				continue
			}
			inFlight := false
			for _, s := range srcs {
				for _, c := range s.Calls {
					if c.Invoke <= u && (c.Return == 0 || c.Return > u) {
						inFlight = true
					}
				}
			}
			if !inFlight {
				e.Violate("C06", "delivery-after-unsubscribe", fmt.Sprintf("callback %s entered at step %d, after Unsubscribe had returned at step %d, and no producer call was in progress at that step (trace %s)", ev, ev.Enter, u, rec.Trace()))
			}
		}
		e.Probe("cut-rule-evaluated")
	}
}
