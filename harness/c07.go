package roverif

import (
	"errors"
	"fmt"
	"runtime"
	"strings"

	"github.com/samber/ro"
)

// stages usable in C07 pipelines: synchronous, deterministic, and not error-handling (an operator that
// is *meant* to swallow or replace errors would make "exactly one matching Error" the wrong expectation)
func c07Stage(d *StageDef) bool {
	if d.Hot || d.Async || d.Time || d.Handoff || d.Aux > 0 || d.Resub {
		return false
	}
	switch d.Name {
	case "Catch", "OnErrorReturn", "OnErrorResumeNextWith", "TapOnFinalize", "MaterializeDematerialize":
		return false
	}
	return true
}

func init() {
	Register(&Family{
		Name:   "C07.callback",
		Props:  []string{"C07"},
		Weight: 6,
		Gen: func(g *Gen) *Scn {
			sc := &Scn{Family: "C07.callback"}
			script := genScript(g, 1, 4, "CCE", false)
			sc.Sources = []SrcSpec{{Mode: g.Pick("sync", "sync", "async"), Script: script}}
			genChain(g, sc, g.PickInt(1, 1, 1, 2, 3), nvalues(script), "sync", c07Stage)
			sc.Sub = "single"
			sc.SetInt("seqmode", 1)
			return sc
		},
		// fault enumeration: a fault-free discovery run numbers every invocation of every user callback,
		// then one scenario per <site, invocation, kind>, plus sampled pairs
		ExpandRun: func(sc *Scn, run func(*Scn) *RunResult) []*Scn {
			base := cloneScn(sc)
			base.Faults = nil
			res := run(base)
			if res.HarnessErr != "" {
				return []*Scn{base}
			}
			out := []*Scn{base}
			for _, c := range res.CallLog {
				kinds := []string{"panic-err", "panic-str", "panic-rt"}
				if c.Site == "MapErr" {
					kinds = append(kinds, "ret-err")
				}
				for ki, k := range kinds {
					x := cloneScn(base)
					x.Faults = []FaultSpec{{Kind: k, Site: c.Site, Inv: c.Inv, Arg: ki}}
					out = append(out, x)
				}
			}
			// pairs: first and last call sites together (the first fault decides the outcome)
			if n := len(res.CallLog); n >= 2 {
				a, b := res.CallLog[0], res.CallLog[n-1]
				x := cloneScn(base)
				x.Sub = "pair"
				x.Faults = []FaultSpec{{Kind: "panic-err", Site: a.Site, Inv: a.Inv, Arg: 1}, {Kind: "panic-str", Site: b.Site, Inv: b.Inv, Arg: 2}}
				out = append(out, x)
			}
			return out
		},
		Run: runC07,
	})
}

func runC07(e *Env) {
	sc := e.Sc
	hookObserver := func(r *Rec) {
		// observer callbacks are user functions too
		r.OnNextHook = func(r *Rec, v int) { e.Call("obs.next") }
		r.OnTermHook = func(r *Rec, k byte) {
			if k == 'E' {
				e.Call("obs.error")
			} else {
				e.Call("obs.complete")
			}
		}
	}
	// reference: the same pipeline, freshly built, with the fault plan switched off
	var ref []Ev
	if len(sc.Faults) > 0 {
		e.faultsOff = true
		o0, _ := buildPipelineFrom(e, sc)
		r0 := e.NewRec("ref")
		e.evCount = func() int { return len(r0.Events) }
		hookObserver(r0)
		e.Subscribe(o0, r0.Observer(), nil)
		e.SettleFor(50 * Unit)
		if e.K.Capped() {
			return
		}
		ref = r0.Events
		e.faultsOff = false
		e.calls = map[string]int{}
		e.CallLog = nil
		e.Unhandled = nil
	}
	o, srcs := buildPipelineFrom(e, sc)
	src := srcs[0]
	rec := e.NewRec("o")
	e.evCount = func() int { return len(rec.Events) }
	hookObserver(rec)
	h := e.Subscribe(o, rec.Observer(), nil)
	e.SettleFor(50 * Unit)
	if e.K.Capped() {
		return
	}
	e.Out["trace"] = rec.Trace()
	// 1. nothing escapes as a panic
	if h.Panic != nil {
		e.Violate("C07", "panic-escapes-subscribe", fmt.Sprintf("a panic escaped from Subscribe: %v (faults %v)", h.Panic, sc.Faults))
	}
	for _, c := range src.Calls {
		if c.Panic != nil {
			e.Violate("C07", "panic-escapes-next", fmt.Sprintf("a panic escaped into the producer's %s call: %v (faults %v)", c.Step.K, c.Panic, sc.Faults))
		}
	}
	for _, esc := range e.K.Escapes {
		if esc.Lib {
			e.Violate("C07", "panic-kills-goroutine", fmt.Sprintf("a panic escaped a library goroutine started at %s: %v", esc.Site, esc.Value))
		}
	}
	if !h.Ret() && h.Panic == nil {
		e.Violate("C07", "subscribe-blocked", fmt.Sprintf("Subscribe did not return (faults %v, trace %s)", sc.Faults, rec.Trace()))
		return
	}
	if msg := rec.GrammarError(); msg != "" && !(e.firedFaults > 0 && strings.HasPrefix(e.firstFault.Site, "obs.")) {
		e.Violate("C01", "grammar", msg)
	}
	if len(sc.Faults) == 0 || e.firedFaults == 0 {
		// fault-free (or the planned invocation never happened): a source error must surface exactly once
		nerr := 0
		for _, ev := range rec.Events {
			if ev.K == 'E' {
				nerr++
			}
		}
		last := Step{}
		if n := len(src.Spec.Script); n > 0 {
			last = src.Spec.Script[n-1]
		}
		if last.K == "E" && len(sc.Faults) == 0 {
			// the error may legitimately be absent only when the chain terminated earlier (Take, First, ...)
			if nerr > 1 {
				e.Violate("C07", "error-delivered-twice", "source error delivered more than once: "+rec.Trace())
			}
			for _, ev := range rec.Events {
				if ev.K == 'E' && !errors.Is(ev.Err, ScriptError(last.V)) && !isOperatorError(ev.Err) {
					e.Violate("C07", "error-cause-lost", fmt.Sprintf("the delivered error %v does not match the source's error %v", ev.Err, ScriptError(last.V)))
				}
			}
		}
		return
	}
	f := *e.firstFault
	before := e.faultBefore
	e.Probe("fault-fired:" + f.Kind)
	// the fault-free prefix must be intact
	for i := 0; i < before && i < len(rec.Events) && f.Site != "obs.next"; i++ {
		if i >= len(ref) || rec.Events[i].String() != ref[i].String() {
			e.Violate("C07", "prefix-differs", fmt.Sprintf("events before the fault differ from the fault-free run: %s vs %s", rec.Trace(), traceOf(ref)))
			break
		}
	}
	matches := func(err error) bool {
		switch f.Kind {
		case "panic-err", "ret-err":
			return errors.Is(err, ScriptError(90+f.Arg))
		case "panic-rt":
			var rt runtime.Error
			return errors.As(err, &rt) && strings.Contains(err.Error(), "nil map")
		default:
			return err != nil && strings.Contains(err.Error(), fmt.Sprintf("injected-panic-%d (100%% sure, 5%%d)", f.Arg))
		}
	}
	// follow-up: locks were released, the observable and the subscription are still usable
	followUp := func() {
		rec2 := e.NewRec("followup")
		h2 := e.Subscribe(o, rec2.Observer(), nil)
		released := false
		e.Go("late-unsubscriber", func() {
			e.WaitFor(func() bool { return h.Ret() })
			if h.Sub() != nil {
				func() {
					defer func() { recover() }()
					h.Sub().Unsubscribe()
				}()
				h.Sub().Wait()
			}
			released = true
		})
		e.SettleFor(50 * Unit)
		if e.K.Capped() {
			return
		}
		if !h2.Ret() {
			e.Violate("C07", "unusable-after-failure", fmt.Sprintf("after fault %s at %s#%d a new Subscribe on the same observable does not return", f.Kind, f.Site, f.Inv))
		} else if msg := rec2.GrammarError(); msg != "" {
			e.Violate("C01", "grammar", msg)
		}
		if h.Ret() && !released {
			e.Violate("C07", "subscription-unusable-after-failure", fmt.Sprintf("after fault %s at %s#%d Unsubscribe/Wait on the subscription that Subscribe had returned never come back", f.Kind, f.Site, f.Inv))
		}
		for _, a := range e.K.Actors() {
			if a.Blocked() && a.PendingKind().String() == "lock" {
				e.Violate("C07", "lock-left-held", fmt.Sprintf("actor %s is blocked on a lock at quiescence after the failure", a.Site))
			}
		}
	}
	for i := 0; i < before && i < len(rec.Events); i++ {
		if rec.Events[i].K != 'N' {
			// the stream had already terminated when the callback failed: nobody is left to be told
			e.Probe("fault-after-terminal")
			if f.Site == "src.teardown" {
				e.Probe("fault-in-teardown")
				followUp()
			}
			return
		}
	}
	switch f.Site {
	case "src.teardown":
		// (reached when the teardown ran before any terminal was delivered) nobody is promised an Error
		// for it; what is promised is checked above and in the follow-up
		e.Probe("fault-in-teardown")
	case "obs.error", "obs.complete":
		// nobody can be told: the unhandled-error hook must have fired
		if len(e.Unhandled) == 0 {
			e.Violate("C07", "unhandled-hook-silent", fmt.Sprintf("a panic inside the observer's %s callback reached neither a subscriber nor the unhandled-error hook", f.Site))
		}
	case "obs.next":
		// the failing observer is told through its own error callback (or the hook), exactly once, and nothing after
		evs := rec.Events
		if before >= len(evs) {
			if len(e.Unhandled) == 0 {
				e.Violate("C07", "observer-panic-lost", fmt.Sprintf("a panic inside the observer's next callback was reported nowhere (trace %s)", rec.Trace()))
			}
			break
		}
		nx := evs[before]
		if nx.K != 'E' || !matches(nx.Err) {
			e.Violate("C07", "observer-panic-not-error", fmt.Sprintf("after its next callback panicked the observer received %s instead of one matching Error (trace %s)", nx, rec.Trace()))
		}
		if len(evs) > before+1 {
			e.Violate("C07", "delivery-after-observer-panic", fmt.Sprintf("an observer whose next callback panicked kept receiving notifications after its Error: %s", rec.Trace()))
		}
	default:
		evs := rec.Events
		if len(evs) < before {
			e.Violate("C07", "prefix-lost", fmt.Sprintf("%d events were delivered before the fault in the fault-free run, only %d now: %s", before, len(evs), rec.Trace()))
			break
		}
		rest := evs[before:]
		if e.firedFaults > 1 && len(e.Unhandled) > 0 && (len(rest) == 0 || rest[0].K != 'E' || !matches(rest[0].Err)) {
			// pair of faults: the Error raised for the first failure was handed to a callback on the
			// terminal path that failed as well; the library sends that to the unhandled-error hook and
			// the subscriber is never told (same root cause as the single-fault clause of that name)
			e.Violate("C07", "failure-swallowed-to-unhandled-hook:pair:"+swallowSite(sc.Faults), fmt.Sprintf("faults %v: the first failure (%s at %s#%d) never reached the subscriber as an Error: its error path failed too and went to the unhandled-error hook %v (trace %s)", sc.Faults, f.Kind, f.Site, f.Inv, e.Unhandled, rec.Trace()))
			break
		}
		if len(rest) == 0 {
			clause := "failure-swallowed"
			if len(e.Unhandled) > 0 {
				clause = "failure-swallowed-to-unhandled-hook:" + f.Site
			}
			e.Violate("C07", clause, fmt.Sprintf("fault %s at %s#%d: no Error notification reached the subscriber (trace %s, unhandled %v)", f.Kind, f.Site, f.Inv, rec.Trace(), e.Unhandled))
			break
		}
		if rest[0].K != 'E' || !matches(rest[0].Err) {
			e.Violate("C07", "failure-not-matching-error", fmt.Sprintf("fault %s at %s#%d: expected one Error matching the cause right after the fault-free prefix, got %s (trace %s)", f.Kind, f.Site, f.Inv, rest[0], rec.Trace()))
		}
		if len(rest) > 1 {
			e.Violate("C07", "delivery-after-failure", fmt.Sprintf("fault %s at %s#%d: notifications delivered after the Error: %s", f.Kind, f.Site, f.Inv, rec.Trace()))
		}
	}
	followUp()
}

func isOperatorError(err error) bool {
	// errors raised by operators themselves (Head/First/ElementAt on short input, MapErr's own error...)
	var se *scriptErr
	if errors.As(err, &se) {
		return se.code >= 50
	}
	return true
}

func init() {
	// failures arriving from one of several sources after Subscribe returned: the error path of the
	// multi-source operators must not leave a lock held or a producer stuck
	Register(&Family{
		Name:   "C07.multi",
		Props:  []string{"C07"},
		Weight: 2,
		Gen: func(g *Gen) *Scn {
			sc := &Scn{Family: "C07.multi"}
			name := combOrder[g.Intn(len(combOrder))]
			c := combs[name]
			sc.Sub = name
			k := g.Range(c.Min, c.Max)
			bad := g.Intn(k)
			for i := 0; i < k; i++ {
				end := "C-"
				if i == bad {
					end = "E"
				}
				sc.Sources = append(sc.Sources, SrcSpec{Mode: g.Pick("async", "async", "hot"), Script: genScript(g, (i+1)*10, 3, end, false)})
			}
			return sc
		},
		Valid: func(sc *Scn) bool {
			c := combs[sc.Sub]
			return c != nil && len(sc.Sources) >= c.Min && len(sc.Sources) <= c.Max
		},
		Run: func(e *Env) {
			sc := e.Sc
			var srcs []*Src
			var obs []ro.Observable[int]
			for _, sp := range sc.Sources {
				s := e.NewSrc(sp)
				srcs = append(srcs, s)
				obs = append(obs, s.Obs())
			}
			o := combs[sc.Sub].Apply(e, obs)
			rec := e.NewRec("o")
			h := e.Subscribe(o, rec.Observer(), nil)
			e.Settle()
			FeedAll(srcs)
			e.SettleFor(50 * Unit)
			if e.K.Capped() {
				return
			}
			if h.Panic != nil {
				e.Violate("C07", "panic-escapes-subscribe", fmt.Sprintf("%s: a panic escaped from Subscribe: %v", sc.Sub, h.Panic))
			}
			nerr := 0
			for _, ev := range rec.Events {
				if ev.K == 'E' {
					nerr++
				}
			}
			if nerr > 1 {
				e.Violate("C07", "error-delivered-twice", fmt.Sprintf("%s: %d Error notifications: %s", sc.Sub, nerr, rec.Trace()))
			}
			for _, s := range srcs {
				for _, c := range s.Calls {
					if c.Panic != nil {
						e.Violate("C07", "panic-escapes-next", fmt.Sprintf("%s: a panic escaped into a producer's %s call: %v", sc.Sub, c.Step.K, c.Panic))
					}
					if c.Return == 0 && h.Ret() {
						e.Violate("C07", "producer-call-blocked", fmt.Sprintf("%s: a producer's %s%d call never returned although Subscribe had returned (a lock left held on the failure path?); trace %s", sc.Sub, c.Step.K, c.Step.V, rec.Trace()))
					}
				}
			}
			for _, a := range e.K.Actors() {
				if a.Blocked() && a.PendingKind().String() == "lock" && h.Ret() {
					e.Violate("C07", "lock-left-held", fmt.Sprintf("%s: actor %s is blocked on a lock at quiescence", sc.Sub, a.Site))
				}
			}
		},
	})
}

// swallowSite names the fault sites of a pair (stage names stripped, callback kinds kept) for the fingerprint.
func swallowSite(fs []FaultSpec) string {
	var parts []string
	for _, f := range fs {
		parts = append(parts, f.Site)
	}
	return strings.Join(parts, "+")
}
