package roverif

// C07.noerrcb — an observer built without an error callback (ro.NewObserver(onNext, nil, ...)): a panic of
// its Next callback cannot become an Error notification for it, so it is reported to the unhandled-error
// hook — once per failure, and with the cause (the error value itself, the panic text, or a runtime.Error
// that is still recognisable as one). Nothing escapes into the producer.

import (
	"context"
	"errors"
	"fmt"
	"runtime"
	"strings"

	"github.com/samber/ro"
)

func init() {
	Register(&Family{
		Name:   "C07.noerrcb",
		Props:  []string{"C07"},
		Weight: 1,
		Gen: func(g *Gen) *Scn {
			sc := &Scn{Family: "C07.noerrcb"}
			sc.Sub = g.Pick("NewObserver", "NewObserverWithContext")
			n := g.Range(1, 4)
			var script []Step
			for i := 0; i < n; i++ {
				script = append(script, Step{K: "N", V: 10 + i})
			}
			if g.Bool(0.7) {
				script = append(script, Step{K: "C"})
			}
			sc.Sources = []SrcSpec{{Mode: g.Pick("sync", "async"), Ctor: g.Pick("unsafe", "safe"), Script: script}}
			sc.SetInt("at", g.Intn(n))
			sc.SetInt("kind", g.Intn(3))
			if g.Bool(0.4) {
				addStage(g, sc, g.Pick("Map", "Tap", "Filter", "Serialize"), n, "sync")
			}
			return sc
		},
		Run: func(e *Env) {
			sc := e.Sc
			o, srcs := e.Pipeline()
			at, kind := sc.Int("at", 0), sc.Int("kind", 0)
			seen := 0
			cause := ScriptError(77)
			fail := func() {
				seen++
				if seen-1 != at {
					return
				}
				switch kind {
				case 0:
					panic(cause)
				case 1:
					panic("observer-panic (100% sure, 5%d)")
				default:
					var m map[int]int
					m[1] = 1
				}
			}
			var hooked []error
			prev := ro.OnUnhandledError
			ro.OnUnhandledError = func(ctx context.Context, err error) {
				hooked = append(hooked, err)
				e.K.Log("unhandled " + fmt.Sprint(err))
			}
			defer func() { ro.OnUnhandledError = prev }()
			var obs ro.Observer[int]
			if sc.Sub == "NewObserver" {
				obs = ro.NewObserver(func(v int) { fail() }, nil, func() {})
			} else {
				obs = ro.NewObserverWithContext(func(ctx context.Context, v int) { fail() }, nil, func(ctx context.Context) {})
			}
			var escaped interface{}
			e.Go("subscriber", func() {
				defer func() { escaped = recover() }()
				o.Subscribe(obs)
			})
			e.SettleFor(20 * Unit)
			if e.K.Capped() {
				return
			}
			if escaped != nil {
				e.Violate("C07", "panic-escapes-subscribe", fmt.Sprintf("observer without an error callback: the panic of its Next callback escaped from Subscribe: %v", escaped))
			}
			for _, c := range srcs[0].Calls {
				if c.Panic != nil {
					e.Violate("C07", "panic-escapes-next", fmt.Sprintf("observer without an error callback: the panic of its Next callback escaped into the producer's %s call: %v", c.Step.K, c.Panic))
				}
			}
			for _, esc := range e.K.Escapes {
				if esc.Lib {
					e.Violate("C07", "panic-kills-goroutine", fmt.Sprintf("a panic escaped a library goroutine started at %s: %v", esc.Site, esc.Value))
				}
			}
			if seen <= at {
				return // a filtering stage kept the failing value away
			}
			matches := func(err error) bool {
				switch kind {
				case 0:
					return errors.Is(err, cause)
				case 1:
					return err != nil && strings.Contains(err.Error(), "observer-panic (100% sure, 5%d)")
				}
				var rt runtime.Error
				return errors.As(err, &rt) && strings.Contains(err.Error(), "nil map")
			}
			n := 0
			for _, h := range hooked {
				if matches(h) {
					n++
				}
			}
			if n != 1 {
				e.Violate("C07", "unhandled-hook-cause", fmt.Sprintf("%s(onNext, nil, ...): the Next callback panicked once (kind %d); the unhandled-error hook received %d error(s) matching the cause, want exactly 1 (it received %v)", sc.Sub, kind, n, hooked))
			}
		},
	})
}
