package roverif

import (
	"context"
	"fmt"
	"rosim/simcontext"

	"github.com/samber/ro"
)

func init() {
	Register(&Family{
		Name:   "C08.sync",
		Props:  []string{"C08"},
		Weight: 5,
		Gen: func(g *Gen) *Scn {
			sc := &Scn{Family: "C08.sync"}
			script := genScript(g, 10, 5, "CCE-", false)
			sc.Sources = []SrcSpec{{Mode: g.Pick("async", "async", "sync", "hot"), Script: script}}
			genChain(g, sc, g.PickInt(1, 1, 2, 3, 4), nvalues(script), "sync", func(d *StageDef) bool {
				return syncOnly(d) && !d.Waits && !d.Resub
			})
			sc.Sub = "sync"
			sc.SetInt("raw", g.PickInt(0, 0, 1, 1, 2, 3))
			return sc
		},
		Run: func(e *Env) {
			o, srcs := e.Pipeline()
			rec := e.NewRec("o")
			h := e.Subscribe(o, rec.Obs(), nil)
			e.Settle()
			FeedAll(srcs)
			e.SettleFor(20 * Unit)
			if e.K.Capped() {
				return
			}
			// every callback must have run on a producer's goroutine, inside one of its calls
			// (or inside the Subscribe call itself): nothing is handed to a hidden goroutine or queue
			for _, ev := range rec.Events {
				ok := ev.Actor == h.Actor.ID && ev.Enter >= h.Invoke && (!h.Ret() || ev.Enter <= h.RetStep)
				for _, s := range srcs {
					for _, c := range s.Calls {
						if c.Actor == ev.Actor && c.Invoke <= ev.Enter && (c.Return == 0 || ev.Enter <= c.Return) {
							ok = true
						}
					}
				}
				if !ok {
					e.Violate("C08", "delivery-outside-producer-call", fmt.Sprintf("callback %s entered at step %d on actor a%d, which is not inside any producer call on that goroutine: a synchronous pipeline delivered from a hidden goroutine or after Next had returned (trace %s)", ev, ev.Enter, ev.Actor, rec.Trace()))
				}
			}
			for _, a := range e.K.Actors() {
				if a.Lib {
					e.Violate("C08", "hidden-goroutine", fmt.Sprintf("a synchronous pipeline started a library goroutine at %s", a.Site))
				}
			}
		},
	})

	Register(&Family{
		Name:   "C08.handoff",
		Props:  []string{"C08", "C07", "C13"},
		Weight: 4,
		Gen: func(g *Gen) *Scn {
			sc := &Scn{Family: "C08.handoff"}
			n := g.Range(2, 8)
			var script []Step
			for i := 0; i < n; i++ {
				script = append(script, Step{K: "N", V: i + 1, Gap: g.PickInt(0, 0, 0, 1)})
			}
			switch g.Intn(4) {
			case 0:
				script = append(script, Step{K: "E", V: 1})
			case 1:
			default:
				script = append(script, Step{K: "C"})
			}
			sc.Sources = []SrcSpec{{Mode: "timed", Script: script}}
			sc.Sub = g.Pick("ObserveOn", "SubscribeOn")
			sc.SetInt("cap", g.Range(1, 4))
			sc.SetInt("slow", g.PickInt(0, 1, 2, 3))
			sc.SetInt("stall", g.Intn(2))
			if g.Bool(0.3) {
				sc.SetInt("deadctx", g.Range(1, 255))
			}
			// the subscription context ends (0: not; 1: before Subscribe; k: after k-1 simulated units) while the
			// subscription stays open: a context that is over is not an unsubscription, everything still arrives
			sc.SetInt("subctx", g.PickInt(0, 0, 0, 1, 2, 3, 4))
			if g.Bool(0.3) {
				addStage(g, sc, g.Pick("Map", "Filter", "Scan", "Tap"), n, "sync")
			}
			sc.SetInt("raw", g.PickInt(0, 0, 1, 1, 2, 3))
			return sc
		},
		Run: func(e *Env) {
			sc := e.Sc
			src := e.NewSrc(sc.Sources[0])
			capN := sc.Int("cap", 1)
			var o ro.Observable[int]
			in := src.Obs()
			if mask := sc.Int("deadctx", 0); mask != 0 {
				// some values travel with a context that is already cancelled (a per-item timeout upstream
				// that expired): the hand-off queue carries them like any other value
				in = ro.ContextMapI[int](func(ctx context.Context, i int64) context.Context {
					if mask>>uint(i)&1 == 1 {
						c, cancel := context.WithCancel(ctx)
						cancel()
						return c
					}
					return ctx
				})(in)
			}
			if sc.Sub == "ObserveOn" {
				o = ro.ObserveOn[int](capN)(in)
			} else {
				o = ro.SubscribeOn[int](capN)(in)
			}
			// the extra stage (if any) is 1:1 or filtering and synchronous: put it upstream of the hand-off
			if len(sc.Stages) > 0 {
				up := e.BuildChain(in, sc.Stages, func(int) ro.Observable[int] { return ro.Empty[int]() })
				if sc.Sub == "ObserveOn" {
					o = ro.ObserveOn[int](capN)(up)
				} else {
					o = ro.SubscribeOn[int](capN)(up)
				}
			}
			produced := 0 // producer Next calls that returned
			consumed := 0 // consumer callbacks entered
			maxAhead := 0
			check := func(where string) {
				ahead := produced - consumed
				if ahead > maxAhead {
					maxAhead = ahead
				}
				if len(sc.Stages) == 0 && ahead > capN+2 {
					e.Violate("C08", "queue-unbounded", fmt.Sprintf("%s(%d): at %s the producer had completed %d Next calls while the consumer had entered %d callbacks: ahead by %d > capacity+2", sc.Sub, capN, where, produced, consumed, ahead))
				}
			}
			src.AfterCall = func(c *ProdCall) {
				if c.Step.K == "N" {
					produced++
					check("producer return")
				}
			}
			rec := e.NewRec("o")
			slow := sc.Int("slow", 0)
			rec.OnNextHook = func(r *Rec, v int) {
				consumed++
				check("consumer callback")
				if slow > 0 {
					simSleep(dur(slow))
				}
			}
			// note: consumed must count at entry; Rec calls the hook after recording, inside the callback
			if k := sc.Int("subctx", 0); k > 0 {
				ctx, cancel := simcontext.WithCancel(context.Background())
				if k == 1 {
					cancel()
				} else {
					e.Go("canceller", func() { simSleep(dur(k - 1)); cancel() })
				}
				e.Subscribe(o, rec.Obs(), ctx)
			} else {
				e.Subscribe(o, rec.Obs(), nil)
			}
			e.SettleFor(200 * Unit)
			if e.K.Capped() {
				return
			}
			if len(sc.Stages) > 0 {
				return // FIFO oracle below is for the bare hand-off
			}
			// FIFO, no loss, terminal after every queued value
			want := scriptToN(sc.Sources[0].Script)
			got := rec.Events
			if n := len(want); n > 0 && want[n-1].K == 'E' {
				// C07: the source's error reaches the subscriber exactly once, after the values
				nerr := 0
				for _, ev := range got {
					if ev.K == 'E' {
						nerr++
					}
				}
				if nerr != 1 {
					e.Violate("C07", "source-error-lost", fmt.Sprintf("%s(%d): the source failed after %d values but the subscriber received %d Error notifications (trace %s)", sc.Sub, capN, n-1, nerr, rec.Trace()))
				}
			}
			if len(got) != len(want) {
				e.Violate("C08", "handoff-loss", fmt.Sprintf("%s(%d): produced %s but delivered %s", sc.Sub, capN, traceN(want), rec.Trace()))
				return
			}
			for i := range want {
				if want[i].K != got[i].K || (want[i].K == 'N' && want[i].V != got[i].V) {
					e.Violate("C08", "handoff-order", fmt.Sprintf("%s(%d): produced %s but delivered %s", sc.Sub, capN, traceN(want), rec.Trace()))
					return
				}
			}
			e.Probe(fmt.Sprintf("max-ahead-%d", maxAhead-capN))
		},
	})
}
