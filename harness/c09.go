package roverif

// C09 — context flows and is never nil.
//
// Families:
//   C09.chain    main source (own scripted source attaching a per-item marker) | probe | stage | probe | ... | observer
//   C09.subjects the five subject kinds: published (ctx,value) pairs reach live and late subscribers unchanged
//
// Markers: kC09Sub attached at subscription, kC09Mid(i) attached by the context operators / context-aware
// callbacks of stage i, kC09Item attached per item by the main source, kC09Term attached by the main source to
// its terminal notification, kC09Reset carried by the context a ContextReset stage installs.

import (
	"context"
	"fmt"
	"math"
	"strings"

	"github.com/samber/ro"

	"rosim/simrt"
	"rosim/simtime"
)

type c09Key string

func (k c09Key) String() string { return string(k) }

const (
	kC09Sub   c09Key = "c09.sub"
	kC09Item  c09Key = "c09.item"
	kC09Term  c09Key = "c09.term"
	kC09Reset c09Key = "c09.reset"
	kC09Pub   c09Key = "c09.pub"
)

func kC09Mid(i int) c09Key { return c09Key(fmt.Sprintf("c09.mid%d", i)) }

// ---------------------------------------------------------------------------------------------
// context-flow model of the stages

const (
	fN uint8 = 1 << iota // derives from the context of an upstream Next
	fE                   // ... of the upstream Error
	fC                   // ... of the upstream Complete
	fX                   // ... from elsewhere (subscription context, auxiliary source, timer, constant)
)

// c09Flow says, per output kind, which upstream notification contexts the delivered context may derive
// from (0: the stage never emits that kind), and how an output value identifies the input item whose
// context it has to carry.
type c09Flow struct {
	N, E, C uint8
	Item    string // "" none | "id" same value | "map2" (v-1)/2 | "map10" v/10 | "inc" v-1 | "trig" triggering input | "tuple" a*100+b
	Synth   []int  // values the stage makes up itself (excluded from value matching)
	Attach  uint8  // kinds on which the stage attaches its own mid marker
	Reset   bool   // replaces the context (documented): every upstream marker is void downstream
}

func c09idn(item string, synth ...int) c09Flow {
	return c09Flow{N: fN, E: fE, C: fC, Item: item, Synth: synth}
}

var c09Flows = func() map[string]c09Flow {
	inner := c09Flow{N: fN | fX, E: fE | fX, C: fC | fX}
	takeLike := c09Flow{N: fN, E: fE, C: fC | fN, Item: "id"}
	firstLike := c09Flow{N: fN, E: fE | fC, C: fN, Item: "id"}
	mapErr := c09Flow{N: fN, E: fE | fN, C: fC, Item: "inc"}
	withTick := c09Flow{N: fN, E: fE | fX, C: fC | fX, Item: "id"}
	att := func(f c09Flow, a uint8) c09Flow { f.Attach = a; return f }
	m := map[string]c09Flow{
		"Map": c09idn("map2"), "MapI": c09idn("map10"),
		"MapWithContext": att(c09idn("map2"), fN), "MapIWithContext": att(c09idn("map10"), fN),
		"MapTo": c09idn("trig"), "MapErr": mapErr, "Scan": c09idn("trig"), "ScanI": c09idn("trig"),
		"Cast":    {N: fN, E: fE | fN, C: fC, Item: "id"},
		"FlatMap": inner, "FlatMapI": inner, "MergeMap": inner, "MergeMapI": inner,
		"BufferWithCount": {N: fN | fC, E: fE, C: fC}, "BufferWithCountSum": {N: fN | fC, E: fE, C: fC},
		"Pairwise": {N: fN, E: fE, C: fC}, "GroupByMerge": c09idn("id"),
		"Filter": c09idn("id"), "FilterI": c09idn("id"), "Distinct": c09idn("id"), "DistinctBy": c09idn("id"),
		"IgnoreElements": {N: 0, E: fE, C: fC},
		"Skip":           c09idn("id"), "SkipWhile": c09idn("id"), "SkipLast": c09idn("id"),
		"Take": takeLike, "TakeWhile": takeLike, "TakeLast": c09idn("id"),
		"Head": firstLike, "First": firstLike, "Last": firstLike, "ElementAt": firstLike,
		"Tail":               {N: fN, E: fE | fC, C: fC, Item: "id"},
		"ElementAtOrDefault": {N: fN | fC, E: fE, C: fN | fC, Item: "id", Synth: []int{77}},
		"All":                {N: fC, E: fE, C: fC}, "Contains": {N: fN | fC, E: fE, C: fN | fC},
		"Find":           {N: fN, E: fE, C: fN | fC, Item: "id"},
		"DefaultIfEmpty": {N: fN | fX, E: fE, C: fC, Item: "id", Synth: []int{55}},
		"Count":          {N: fC, E: fE, C: fC}, "Sum": {N: fC, E: fE, C: fC},
		"Min":    c09idn("id"),
		"Max":    {N: fN | fX, E: fE, C: fC, Item: "id", Synth: []int{0}},
		"Reduce": {N: fN | fC, E: fE, C: fC}, "Clamp": c09idn("trig"),
		"Catch":                 {N: fN | fE, E: 0, C: fC | fE, Item: "id", Synth: []int{61, 62}},
		"OnErrorReturn":         {N: fN | fE, E: 0, C: fC | fE, Item: "id", Synth: []int{63}},
		"OnErrorResumeNextWith": {N: fN | fX, E: fX, C: fX, Item: "id", Synth: []int{64, 65}},
		"ThrowIfEmpty":          {N: fN, E: fE | fC, C: fC, Item: "id"},
		"RetryN":                {N: fN, E: fX, C: fC, Item: "id"},
		"RepeatWith":            c09idn("id"),
		"Tap":                   c09idn("id"), "TapOnNext": c09idn("id"), "TapOnError": c09idn("id"), "TapOnComplete": c09idn("id"),
		"TapOnSubscribe": c09idn("id"), "TapOnFinalize": c09idn("id"), "Defer": c09idn("id"), "Serialize": c09idn("id"),
		"MaterializeDematerialize": c09idn("id"), "Delay": c09idn("id"), "DelayEach": c09idn("id"),
		"ObserveOn": c09idn("id"), "SubscribeOn": c09idn("id"), "ThrottleTime": c09idn("id"),
		"Timeout":               {N: fN, E: fE | fN | fX, C: fC, Item: "id"},
		"SampleTime":            withTick,
		"BufferWithTime":        {N: fC | fX, E: fE | fX, C: fC | fX},
		"BufferWithTimeOrCount": {N: fN | fC | fX, E: fE | fX, C: fC | fX},
		"ContextWithValue":      att(c09idn("id"), fN|fE|fC), "ContextMap": att(c09idn("id"), fN),
		"ThrowOnContextCancel": {N: fN, E: fE | fN | fX, C: fC | fX, Item: "id"},
		"StartWith":            {N: fN | fX, E: fE, C: fC, Item: "id", Synth: []int{71, 72}},
		"EndWith":              {N: fN | fC, E: fE, C: fC, Item: "id", Synth: []int{73, 74}},
		"MergeWith":            {N: fN | fX, E: fE | fX, C: fX, Item: "id"},
		"ConcatWith":           {N: fN | fX, E: fE | fX, C: fX, Item: "id"},
		"RaceWith":             {N: fN | fX, E: fE | fX, C: fC | fX, Item: "id"},
		"CombineLatestWith":    {N: fN | fX, E: fE | fX, C: fC | fX, Item: "tuple"},
		"ZipWith":              {N: fN | fX, E: fE | fX, C: fN | fC | fX, Item: "tuple"},
		"TakeUntil":            {N: fN, E: fE, C: fC | fX, Item: "id"}, "SkipUntil": c09idn("id"),
		"BufferWhen":      {N: fC | fX, E: fE | fX, C: fC | fX},
		"WindowWhenMerge": withTick, "SampleWhen": withTick, "ThrottleWhen": withTick,
		"SequenceEqual":  {N: fN | fC | fX, E: fE | fX, C: fN | fC | fX},
		"ToSliceFlatten": {N: fC, E: fE, C: fC},
		// local stages (c09Local)
		"ContextReset":          {N: fN, E: fE, C: fC, Reset: true},
		"ContextWithTimeout":    c09idn("id"),
		"ContextWithDeadline":   c09idn("id"),
		"ToChannel":             {N: fX, E: 0, C: fE | fC},
		"FilterWithContext":     att(c09idn("id"), fN),
		"ScanWithContext":       att(c09idn("trig"), fN),
		"TakeWhileWithContext":  att(takeLike, fN),
		"FirstWithContext":      att(firstLike, fN),
		"LastWithContext":       att(firstLike, fN),
		"DistinctByWithContext": att(c09idn("id"), fN),
		"MapErrWithContext":     att(mapErr, fN),
		"Rounding":              c09idn(""),
	}
	return m
}()

func c09FlowOf(st StageSpec) c09Flow {
	f, ok := c09Flows[st.Op]
	if !ok {
		// a stage nobody modelled: only the never-nil and subscription-marker oracles apply
		return c09Flow{N: fN | fE | fC | fX, E: fN | fE | fC | fX, C: fN | fE | fC | fX}
	}
	switch st.Op {
	case "Take", "TakeLast", "RepeatWith":
		if pi(st.P, 0, 1) == 0 { // the operator degenerates to Empty: the source is never subscribed
			return c09Flow{N: 0, E: 0, C: fX}
		}
	}
	return f
}

// stages that only exist in this family
var c09Local = map[string]bool{
	"ContextReset": true, "ContextWithTimeout": true, "ContextWithDeadline": true, "ToChannel": true, "FilterWithContext": true, "ScanWithContext": true,
	"TakeWhileWithContext": true, "FirstWithContext": true, "LastWithContext": true, "DistinctByWithContext": true, "MapErrWithContext": true, "Rounding": true,
}

var c09LocalNames = []string{"ContextReset", "ContextWithTimeout", "ContextWithDeadline", "ToChannel", "FilterWithContext", "ScanWithContext",
	"TakeWhileWithContext", "FirstWithContext", "LastWithContext", "DistinctByWithContext", "MapErrWithContext", "Rounding"}

var c09CtxStages = []string{"ContextWithValue", "ContextMap", "MapWithContext", "MapIWithContext"}

// ---------------------------------------------------------------------------------------------
// recording

type c09Ev struct {
	Seq   int
	Pos   int  // probe position: -1 main source, p = downstream of stage p-1, len(stages) = final observer
	K     byte // 'S' subscribe function, 'N', 'E', 'C'
	V     int
	Err   error
	Actor int
	Nil   bool
	Sub   bool
	Reset bool
	Item  int // -1: no per-item marker
	Term  string
	Mid   uint32
	What  string
}

type c09Run struct {
	e        *Env
	sc       *Scn
	log      []c09Ev
	mainSubs int
	srcs     []*Src
	obs      []ro.Observable[int]
	owner    map[int]int // auxiliary source index -> stage index
}

func c09Describe(ctx context.Context) string {
	if ctx == nil {
		return "nil"
	}
	s := fmt.Sprint(ctx)
	if len(s) > 140 {
		s = s[:140] + "..."
	}
	return s
}

func (r *c09Run) rec(pos int, k byte, v int, err error, ctx context.Context) {
	ev := c09Ev{Seq: len(r.log), Pos: pos, K: k, V: v, Err: err, Item: -1, Actor: r.e.K.Cur().ID, What: c09Describe(ctx)}
	if ctx == nil {
		ev.Nil = true
	} else {
		ev.Sub = ctx.Value(kC09Sub) == "sub"
		ev.Reset = ctx.Value(kC09Reset) == "reset"
		if it, ok := ctx.Value(kC09Item).(int); ok {
			ev.Item = it
		}
		if t, ok := ctx.Value(kC09Term).(string); ok {
			ev.Term = t
		}
		for i := range r.sc.Stages {
			if ctx.Value(kC09Mid(i)) != nil {
				ev.Mid |= 1 << uint(i)
			}
		}
	}
	r.log = append(r.log, ev)
	r.e.K.Log(fmt.Sprintf("c09 p%d %c%d nil=%v", pos, k, v, ev.Nil))
}

// mainSource is the scripted main source: item i travels with subCtx+kC09Item=i, the terminal with subCtx+kC09Term.
func (r *c09Run) mainSource(spec SrcSpec) ro.Observable[int] {
	e := r.e
	return ro.NewUnsafeObservableWithContext(func(ctx context.Context, dest ro.Observer[int]) ro.Teardown {
		n := r.mainSubs
		r.mainSubs++
		r.rec(-1, 'S', n, nil, ctx)
		released := false
		with := func(k c09Key, v interface{}) context.Context {
			if ctx == nil {
				return nil // already a violation upstream of us; hand it on unchanged
			}
			return context.WithValue(ctx, k, v)
		}
		play := func() {
			idx := 0
			for _, st := range spec.Script {
				if spec.Mode == "timed" && st.Gap > 0 {
					simSleep(dur(st.Gap))
				} else {
					e.Yield()
				}
				if released {
					return
				}
				func() {
					defer func() {
						if p := recover(); p != nil {
							e.K.Log(fmt.Sprintf("c09 main source: call panicked: %v", p))
						}
					}()
					switch st.K {
					case "N":
						c := with(kC09Item, idx)
						idx++
						dest.NextWithContext(c, st.V)
					case "E":
						dest.ErrorWithContext(with(kC09Term, "E"), ScriptError(st.V))
					case "C":
						dest.CompleteWithContext(with(kC09Term, "C"))
					}
				}()
			}
		}
		switch spec.Mode {
		case "sync":
			play()
		case "async", "timed":
			e.Go(fmt.Sprintf("c09.main%d", n), play)
		default:
			panic("C09: unsupported main source mode " + spec.Mode)
		}
		return func() { released = true }
	})
}

// probe records every callback and the subscription context seen at position pos.
func (r *c09Run) probe(pos int) func(ro.Observable[int]) ro.Observable[int] {
	e := r.e
	tap := ro.TapWithContext(
		func(ctx context.Context, v int) { r.rec(pos, 'N', v, nil, ctx); e.Yield() },
		func(ctx context.Context, err error) { r.rec(pos, 'E', 0, err, ctx); e.Yield() },
		func(ctx context.Context) { r.rec(pos, 'C', 0, nil, ctx); e.Yield() },
	)
	onSub := ro.TapOnSubscribeWithContext[int](func(ctx context.Context) { r.rec(pos, 'S', 0, nil, ctx); e.Yield() })
	return func(src ro.Observable[int]) ro.Observable[int] { return onSub(tap(src)) }
}

func (r *c09Run) auxOf(i int) ro.Observable[int] {
	if i < 1 || i >= len(r.srcs) {
		return ro.Empty[int]()
	}
	if r.obs[i] == nil {
		r.obs[i] = r.srcs[i].Obs()
	}
	return r.obs[i]
}

// build returns stage idx of the chain. The context-attaching stages are built here so that each
// position has its own marker key.
func (r *c09Run) build(idx int, st StageSpec) func(ro.Observable[int]) ro.Observable[int] {
	e := r.e
	key := kC09Mid(idx)
	mark := func(ctx context.Context) context.Context { return context.WithValue(ctx, key, st.Op) }
	switch st.Op {
	case "ContextWithValue":
		if pi(st.P, 0, 0)%2 == 1 {
			// any value may be attached to a context, also one that cannot be compared with ==
			return ro.ContextWithValue[int](key, []string{st.Op})
		}
		return ro.ContextWithValue[int](key, st.Op)
	case "ContextMap":
		return ro.ContextMap[int](func(ctx context.Context) context.Context { e.Yield(); return mark(ctx) })
	case "MapWithContext":
		return ro.MapWithContext(func(ctx context.Context, x int) (context.Context, int) { e.Yield(); return mark(ctx), x*2 + 1 })
	case "MapIWithContext":
		return ro.MapIWithContext(func(ctx context.Context, x int, i int64) (context.Context, int) {
			e.Yield()
			return mark(ctx), x*10 + int(i)
		})
	case "FilterWithContext":
		return ro.FilterWithContext(func(ctx context.Context, x int) (context.Context, bool) { e.Yield(); return mark(ctx), x%2 == 1 })
	case "ScanWithContext":
		return ro.ScanWithContext(func(ctx context.Context, acc int, x int) (context.Context, int) { e.Yield(); return mark(ctx), acc + x }, 100)
	case "TakeWhileWithContext":
		lim := pi(st.P, 0, 2)
		n := 0
		return func(src ro.Observable[int]) ro.Observable[int] {
			return ro.Defer(func() ro.Observable[int] {
				n = 0
				return ro.TakeWhileWithContext(func(ctx context.Context, x int) (context.Context, bool) {
					e.Yield()
					n++
					return mark(ctx), n <= lim
				})(src)
			})
		}
	case "FirstWithContext":
		return ro.FirstWithContext(func(ctx context.Context, x int) (context.Context, bool) {
			e.Yield()
			return mark(ctx), x%2 == pi(st.P, 0, 0)%2
		})
	case "LastWithContext":
		return ro.LastWithContext(func(ctx context.Context, x int) (context.Context, bool) {
			e.Yield()
			return mark(ctx), x%2 == pi(st.P, 0, 0)%2
		})
	case "DistinctByWithContext":
		return ro.DistinctByWithContext(func(ctx context.Context, x int) (context.Context, int) { e.Yield(); return mark(ctx), x % 3 })
	case "MapErrWithContext":
		k := pi(st.P, 0, 99)
		return func(src ro.Observable[int]) ro.Observable[int] {
			return ro.Defer(func() ro.Observable[int] {
				i := 0
				return ro.MapErrWithContext(func(ctx context.Context, x int) (int, context.Context, error) {
					e.Yield()
					i++
					if i-1 == k {
						return 0, mark(ctx), ScriptError(50)
					}
					return x + 1, mark(ctx), nil
				})(src)
			})
		}
	case "Rounding":
		// the rounding operators over floats of both signs, with ordinary, zero and extreme precisions
		// (the latter take the arbitrary-precision paths and saturate to an infinity)
		ops := []func(ro.Observable[float64]) ro.Observable[float64]{
			ro.Floor(), ro.Ceil(), ro.FloorWithPrecision(2), ro.CeilWithPrecision(-2), ro.FloorWithPrecision(-400), ro.CeilWithPrecision(-400),
			ro.FloorWithPrecision(-309), ro.CeilWithPrecision(-9000), ro.FloorWithPrecision(400), ro.Round(), ro.Trunc(), ro.Abs(),
			ro.CeilWithPrecision(-1), ro.FloorWithPrecision(-1), ro.CeilWithPrecision(-300), ro.FloorWithPrecision(-300),
		}
		op := ops[pi(st.P, 0, 0)%len(ops)]
		// ordinary magnitudes of both signs, and magnitudes at the ends of the float range (scaling them
		// under- or overflows: the operators have separate branches for that)
		table := []float64{-2.5, -1e-30, -math.SmallestNonzeroFloat64, 0, math.SmallestNonzeroFloat64, 1e-30, 1.25, 3.75, 1e300, -1e300}
		in := ro.Map(func(x int) float64 { return table[int(uint64(x)%uint64(len(table)))] })
		out := ro.Map(func(f float64) int {
			switch {
			case math.IsInf(f, 1):
				return 9999
			case math.IsInf(f, -1):
				return -9999
			case math.IsNaN(f):
				return 0
			}
			return int(f)
		})
		return func(src ro.Observable[int]) ro.Observable[int] { return out(op(in(src))) }
	case "ContextReset":
		return ro.ContextReset[int](context.WithValue(context.Background(), kC09Reset, "reset"))
	case "ContextWithTimeout":
		return ro.ContextWithTimeout[int](1000 * Unit)
	case "ContextWithDeadline":
		return ro.ContextWithDeadline[int](simtime.Now().Add(1000 * Unit))
	case "ToChannel":
		size := pi(st.P, 0, 1)
		return func(src ro.Observable[int]) ro.Observable[int] {
			return ro.Map(func(ch <-chan ro.Notification[int]) int {
				e.Go("c09.drain", func() {
					for {
						if _, ok := simrt.Recv2(ch); !ok {
							return
						}
					}
				})
				return 900 + cap(ch)
			})(ro.ToChannel[int](size)(src))
		}
	}
	d := catalog[st.Op]
	if d == nil {
		panic("C09: unknown stage " + st.Op)
	}
	var aux []ro.Observable[int]
	for i := 0; i < d.Aux; i++ {
		aux = append(aux, r.auxOf(pi(st.P, i, -1)))
	}
	var p []int
	if len(st.P) > d.Aux {
		p = st.P[d.Aux:]
	}
	return d.Build(e, aux, p)
}

// auxValues lists the values the auxiliary sources of a stage may emit.
func (r *c09Run) auxValues(st StageSpec) []int {
	d := catalog[st.Op]
	if d == nil {
		return nil
	}
	var out []int
	for i := 0; i < d.Aux; i++ {
		si := pi(st.P, i, -1)
		if si >= 1 && si < len(r.sc.Sources) {
			for _, s := range r.sc.Sources[si].Script {
				if s.K == "N" {
					out = append(out, s.V)
				}
			}
		}
	}
	return out
}

// ---------------------------------------------------------------------------------------------
// family registration

// DoWhile/While re-subscribe their source with the context of the completion that ended the previous run
// (documented: the condition callback receives and returns it). Behind a ContextReset that is the reset
// context, by design; the chain oracle's "subscribed with the subscription context" rule does not model
// that, the dedicated family C09.loop judges those operators.
func c09StageOK(d *StageDef) bool { return !d.Hot && d.Name != "DoWhile" && d.Name != "While" }

func c09ChainValid(sc *Scn) bool {
	if len(sc.Sources) < 1 || len(sc.Stages) < 1 || len(sc.Stages) > 30 {
		return false
	}
	switch sc.Sources[0].Mode {
	case "sync", "async", "timed":
	default:
		return false
	}
	for _, st := range sc.Stages {
		if !c09Local[st.Op] && catalog[st.Op] == nil {
			return false
		}
	}
	return true
}

func init() {
	Register(&Family{
		Name:   "C09.chain",
		Props:  []string{"C09"},
		Weight: 8,
		Gen: func(g *Gen) *Scn {
			sc := &Scn{Family: "C09.chain", Sub: "chain"}
			mode := g.Pick("sync", "sync", "async", "timed")
			script := genScript(g, 10, 5, "CCE-", mode == "timed")
			sc.Sources = []SrcSpec{{Mode: mode, Script: script}}
			nv := nvalues(script)
			n := g.PickInt(1, 1, 2, 2, 3, 4)
			for i := 0; i < n; i++ {
				switch x := g.Intn(10); {
				case x < 2: // marker placement: a context operator / context-aware callback mid-pipeline
					addStage(g, sc, c09CtxStages[g.Intn(len(c09CtxStages))], nv, "sync")
					if last := &sc.Stages[len(sc.Stages)-1]; last.Op == "ContextWithValue" {
						last.P = []int{g.Intn(2)} // 1: the attached value is a slice
					}
				case x < 3:
					name := c09LocalNames[g.Intn(len(c09LocalNames))]
					sc.Stages = append(sc.Stages, StageSpec{Op: name, P: []int{g.Intn(nv + 2)}})
					if name == "Rounding" {
						sc.Stages[len(sc.Stages)-1].P = []int{g.Intn(16)}
					}
				default:
					genChain(g, sc, 1, nv, g.Pick("sync", "async"), c09StageOK)
				}
			}
			sc.SetInt("ctxtype", g.Intn(2))
			for i := range sc.Stages {
				if sc.Stages[i].Op == "RetryN" && pi(sc.Stages[i].P, 0, 1) == 0 {
					sc.Stages[i].P[0] = 2 // 0 = retry for ever: a failing source would only spin to the step cap
				}
			}
			return sc
		},
		Valid: c09ChainValid,
		Run:   runC09Chain,
	})
	Register(&Family{
		Name:   "C09.subjects",
		Props:  []string{"C09"},
		Weight: 2,
		Gen: func(g *Gen) *Scn {
			sc := &Scn{Family: "C09.subjects"}
			sc.Sub = subjectKinds[g.Intn(len(subjectKinds))]
			sc.SetInt("buf", g.Range(1, 3))
			sc.SetInt("cancelpub", g.Intn(2))
			n := g.Range(3, 9)
			v, subs, term := 0, 0, false
			for i := 0; i < n; i++ {
				switch x := g.Intn(10); {
				case x < 3 || (x == 8 && term):
					if subs < 4 {
						sc.Ops = append(sc.Ops, OpSpec{Client: subs, Op: "sub"})
						subs++
					}
				case x < 7:
					v++
					sc.Ops = append(sc.Ops, OpSpec{Op: "next", A: v})
				case x == 7:
					sc.Ops = append(sc.Ops, OpSpec{Op: "settle"})
				case x == 8:
					term = true
					sc.Ops = append(sc.Ops, OpSpec{Op: g.Pick("error", "complete"), A: 3})
				default:
					if subs > 0 {
						sc.Ops = append(sc.Ops, OpSpec{Client: g.Intn(subs), Op: "unsub"})
					}
				}
			}
			if g.Bool(0.6) && subs < 4 {
				sc.Ops = append(sc.Ops, OpSpec{Op: "settle"}, OpSpec{Client: subs, Op: "sub"})
			}
			return sc
		},
		Valid: func(sc *Scn) bool {
			seen := map[int]bool{}
			for _, op := range sc.Ops {
				if op.Op == "sub" {
					if seen[op.Client] {
						return false
					}
					seen[op.Client] = true
				}
			}
			return true
		},
		Run: runC09Subjects,
	})
}

// ---------------------------------------------------------------------------------------------
// C09.chain

func runC09Chain(e *Env) {
	sc := e.Sc
	if !c09ChainValid(sc) {
		panic("C09.chain: invalid scenario")
	}
	r := &c09Run{e: e, sc: sc, owner: map[int]int{}}
	for _, sp := range sc.Sources {
		r.srcs = append(r.srcs, e.NewSrc(sp)) // index 0 is a placeholder: the main source is r.mainSource
	}
	r.obs = make([]ro.Observable[int], len(r.srcs))
	n := len(sc.Stages)
	cur := r.mainSource(sc.Sources[0])
	for idx, st := range sc.Stages {
		if d := catalog[st.Op]; d != nil && !c09Local[st.Op] {
			for i := 0; i < d.Aux; i++ {
				r.owner[pi(st.P, i, -1)] = idx
			}
		}
		cur = r.probe(idx)(cur)
		cur = r.build(idx, st)(cur)
	}
	observer := ro.NewObserverWithContext(
		func(ctx context.Context, v int) { r.rec(n, 'N', v, nil, ctx); e.Yield() },
		func(ctx context.Context, err error) { r.rec(n, 'E', 0, err, ctx); e.Yield() },
		func(ctx context.Context) { r.rec(n, 'C', 0, nil, ctx); e.Yield() },
	)
	subCtx := context.WithValue(context.Background(), kC09Sub, "sub")
	if sc.Int("ctxtype", 0) == 1 {
		// the same values, carried by a context of the caller's own type: the concrete type of the
		// subscription context then differs from the derived contexts that travel with the items
		subCtx = c09OwnCtx{context.Background()}
	}
	h := e.Subscribe(cur, observer, subCtx)
	e.SettleFor(80 * Unit)
	if e.K.Capped() {
		return
	}
	if h.Returned && h.S != nil {
		e.Go("c09.unsubscribe", func() { h.S.Unsubscribe() })
		e.SettleFor(5 * Unit)
		if e.K.Capped() {
			return
		}
	}
	r.judge()
}

func c09KindName(k byte) string {
	switch k {
	case 'S':
		return "subscribe function"
	case 'N':
		return "Next"
	case 'E':
		return "Error"
	}
	return "Complete"
}

func c09Bit(k byte) uint8 {
	switch k {
	case 'N':
		return fN
	case 'E':
		return fE
	}
	return fC
}

// stageName of the stage that produced the events seen at position pos (kind != 'S'),
// or that handed the subscription context to position pos (kind 'S').
func (r *c09Run) producer(pos int, k byte) string {
	idx := pos - 1
	if k == 'S' {
		idx = pos
	}
	if idx < 0 || idx >= len(r.sc.Stages) {
		return "Tap(probe)"
	}
	return r.sc.Stages[idx].Op
}

type c09Marker struct {
	name string
	from string
	cov  []uint8 // per position 0..n: kinds on which the marker is guaranteed
	has  func(ev *c09Ev) bool
}

func (r *c09Run) judge() {
	e, sc := r.e, r.sc
	n := len(sc.Stages)
	flows := make([]c09Flow, n)
	resetAt := -1 // first ContextReset stage
	for i, st := range sc.Stages {
		flows[i] = c09FlowOf(st)
		if flows[i].Reset && resetAt < 0 {
			resetAt = i
		}
	}
	pipeline := func() string {
		var ops []string
		for _, st := range sc.Stages {
			ops = append(ops, st.Op)
		}
		return strings.Join(ops, " | ")
	}()

	// ---- 1 + 2: never nil; subscription marker on every callback and every subscribe function
	bad := func(ev *c09Ev) bool {
		if ev.Nil {
			return true
		}
		if ev.Sub {
			return false
		}
		// downstream of a ContextReset the installed context is the documented one
		return !(ev.K != 'S' && resetAt >= 0 && ev.Pos > resetAt && ev.Reset)
	}
	lowBad := 1 << 30 // lowest position that showed a bad N/E/C (or S) so far
	highBadS := -2    // highest position that showed a bad subscription context so far
	anyNil := false
	for i := range r.log {
		ev := &r.log[i]
		if !bad(ev) {
			continue
		}
		stage := r.producer(ev.Pos, ev.K)
		if ev.K == 'S' {
			inherited := highBadS > ev.Pos
			if ev.Pos > highBadS {
				highBadS = ev.Pos
			}
			if ev.Pos < lowBad {
				lowBad = ev.Pos
			}
			if inherited {
				continue
			}
			if ev.Nil {
				anyNil = true
				e.Violate("C09", "nil-context:"+stage, fmt.Sprintf("%s subscribed its source with a nil context (position %d of [%s])", stage, ev.Pos, pipeline))
			} else {
				e.Violate("C09", "marker-lost:"+stage+":S", fmt.Sprintf("%s subscribed its source with %s, which is not derived from the context given to SubscribeWithContext (position %d of [%s])", stage, ev.What, ev.Pos, pipeline))
			}
			continue
		}
		inherited := lowBad < ev.Pos
		if ev.Pos < lowBad {
			lowBad = ev.Pos
		}
		if ev.Nil {
			anyNil = true
		}
		if inherited {
			continue
		}
		if ev.Nil {
			e.Violate("C09", "nil-context:"+stage, fmt.Sprintf("the %s callback downstream of %s was invoked with a nil context (value %d, position %d of [%s], source script %v)", c09KindName(ev.K), stage, ev.V, ev.Pos, pipeline, sc.Sources[0].Script))
		} else {
			e.Violate("C09", fmt.Sprintf("marker-lost:%s:%c", stage, ev.K), fmt.Sprintf("the %s callback downstream of %s received %s: the value attached to the subscription context is not visible (value %d, position %d of [%s], source script %v)", c09KindName(ev.K), stage, ev.What, ev.V, ev.Pos, pipeline, sc.Sources[0].Script))
		}
	}
	for si := 1; si < len(r.srcs); si++ {
		s := r.srcs[si]
		owner, ok := r.owner[si]
		if !ok {
			if s.Subs != 0 {
				panic("C09: an auxiliary source nobody owns was subscribed")
			}
			continue
		}
		if highBadS > owner {
			continue // the owner itself was subscribed with a bad context
		}
		for _, ctx := range s.Ctxs {
			if ctx == nil {
				anyNil = true
				e.Violate("C09", "nil-context:"+sc.Stages[owner].Op, fmt.Sprintf("%s subscribed its auxiliary source with a nil context ([%s])", sc.Stages[owner].Op, pipeline))
			} else if ctx.Value(kC09Sub) != "sub" {
				e.Violate("C09", "marker-lost:"+sc.Stages[owner].Op+":S", fmt.Sprintf("%s subscribed its auxiliary source with %s, not derived from the subscription context ([%s])", sc.Stages[owner].Op, c09Describe(ctx), pipeline))
			}
		}
	}
	// ---- 2b: a context operator forwards every notification it receives, with the value attached: when the
	// operator's own code failed (a run-time error reported through OnUnhandledError, nothing here injects
	// panics) and notifications that entered it never came out, the attached value never became visible
	for i, st := range sc.Stages {
		if st.Op != "ContextWithValue" && st.Op != "ContextMap" {
			continue
		}
		in, out := 0, 0
		for j := range r.log {
			if ev := &r.log[j]; ev.K != 'S' {
				if ev.Pos == i {
					in++
				} else if ev.Pos == i+1 {
					out++
				}
			}
		}
		if out >= in {
			continue
		}
		for _, u := range e.Unhandled {
			if strings.Contains(u, "runtime error") {
				e.Violate("C09", "marker-not-delivered:"+st.Op, fmt.Sprintf("%s (stage %d of [%s]) received %d notifications and forwarded %d: its own code failed with %q, the value it attaches never became visible downstream", st.Op, i, pipeline, in, out, u))
				break
			}
		}
	}
	if anyNil {
		e.Probe("c09.nil-run")
		return // a nil context makes context-aware callbacks fail: the marker oracles would only echo it
	}

	// ---- 3: markers attached mid-pipeline / by the source, propagated through the flow model
	var markers []*c09Marker
	newMarker := func(name, from string, at int, attach uint8, has func(ev *c09Ev) bool) {
		m := &c09Marker{name: name, from: from, cov: make([]uint8, n+1), has: has}
		m.cov[at] = attach
		for p := at; p < n; p++ {
			f := flows[p]
			var out uint8
			if !f.Reset {
				for _, k := range []struct{ bit, src uint8 }{{fN, f.N}, {fE, f.E}, {fC, f.C}} {
					if k.src == 0 || (k.src&fX == 0 && k.src&^m.cov[p] == 0) {
						out |= k.bit
					}
				}
			}
			m.cov[p+1] = out
		}
		markers = append(markers, m)
	}
	newMarker("term", "the main source", 0, fE|fC, func(ev *c09Ev) bool { return ev.Term != "" })
	newMarker("item", "the main source", 0, fN, func(ev *c09Ev) bool { return ev.Item >= 0 })
	for i := range sc.Stages {
		i := i
		if flows[i].Attach != 0 {
			newMarker("mid", fmt.Sprintf("%s (stage %d)", sc.Stages[i].Op, i), i+1, flows[i].Attach, func(ev *c09Ev) bool { return ev.Mid&(1<<uint(i)) != 0 })
		}
		if flows[i].Reset {
			newMarker("reset", fmt.Sprintf("ContextReset (stage %d)", i), i+1, fN|fE|fC, func(ev *c09Ev) bool { return ev.Reset })
		}
	}

	// ---- 4: per-item marker, stage-local (events at position p against events at position p-1)
	itemReported := map[int]bool{}
	for i := range r.log {
		ev := &r.log[i]
		if ev.K != 'N' || ev.Pos < 1 {
			continue
		}
		st := sc.Stages[ev.Pos-1]
		f := flows[ev.Pos-1]
		if f.Item == "" || f.Reset {
			continue
		}
		skip := false
		for _, s := range f.Synth {
			if s == ev.V {
				skip = true
			}
		}
		auxVals := r.auxValues(st)
		if f.Item != "tuple" {
			for _, s := range auxVals {
				if s == ev.V {
					skip = true
				}
			}
		}
		if skip {
			continue
		}
		var cands []*c09Ev
		switch f.Item {
		case "trig":
			for j := i - 1; j >= 0; j-- {
				in := &r.log[j]
				if in.Pos == ev.Pos-1 && in.K == 'N' && in.Actor == ev.Actor {
					cands = append(cands, in)
					break
				}
			}
		default:
			ord := -1 // ordinal of the input among the Next notifications seen at that position
			for j := 0; j < i; j++ {
				in := &r.log[j]
				if in.Pos != ev.Pos-1 || in.K != 'N' {
					continue
				}
				ord++
				match := false
				switch f.Item {
				case "id":
					match = in.V == ev.V
				case "map2":
					match = in.V*2+1 == ev.V
				case "map10":
					// x*10+index; the index never exceeds the number of inputs seen so far (set-valued when ambiguous)
					match = ev.V-in.V*10 >= 0 && ev.V-in.V*10 <= ord
				case "inc":
					match = in.V+1 == ev.V
				case "tuple":
					for _, b := range auxVals {
						if in.V*100+b == ev.V {
							match = true
						}
					}
				}
				if match {
					cands = append(cands, in)
				}
			}
		}
		if len(cands) == 0 {
			e.Probe("c09.item-no-candidate")
			continue
		}
		ok, unknown := false, false
		var want []int
		for _, c := range cands {
			if c.Item < 0 {
				unknown = true
			}
			if c.Item == ev.Item {
				ok = true
			}
			want = append(want, c.Item)
		}
		if f.Item == "tuple" && ev.Item < 0 {
			ok = true // the context of the auxiliary member
		}
		if unknown || ok {
			e.Probe("c09.item-checked")
			continue
		}
		itemReported[i] = true
		clause := "item-ctx-mismatch:" + st.Op
		if f.Item == "tuple" {
			clause = "item-ctx-foreign:" + st.Op
		}
		got := fmt.Sprintf("the context of item %d", ev.Item)
		if ev.Item < 0 {
			got = "a context without the per-item value (" + ev.What + ")"
		}
		e.Violate("C09", clause, fmt.Sprintf("%s delivered value %d with %s; the input item(s) it derives from travelled with the context(s) of item(s) %v (position %d of [%s], source script %v)", st.Op, ev.V, got, want, ev.Pos, pipeline, sc.Sources[0].Script))
	}

	for _, m := range markers {
		low := 1 << 30
		for i := range r.log {
			ev := &r.log[i]
			if ev.K == 'S' || ev.Pos < 0 || ev.Nil {
				continue
			}
			if m.cov[ev.Pos]&c09Bit(ev.K) == 0 || m.has(ev) {
				continue
			}
			inherited := low < ev.Pos
			if ev.Pos < low {
				low = ev.Pos
			}
			if inherited || itemReported[i] {
				continue
			}
			stage := r.producer(ev.Pos, ev.K)
			if m.name == "item" && ev.Pos >= 1 && flows[ev.Pos-1].Item != "" {
				continue // the stage-local rule above is the precise one
			}
			e.Violate("C09", fmt.Sprintf("%s-marker-lost:%s:%c", m.name, stage, ev.K), fmt.Sprintf("the %s callback downstream of %s received %s: the value attached by %s is not visible although every stage in between passes that notification's context through (value %d, position %d of [%s], source script %v)", c09KindName(ev.K), stage, ev.What, m.from, ev.V, ev.Pos, pipeline, sc.Sources[0].Script))
		}
	}
	e.Probe("c09.judged")
}

// ---------------------------------------------------------------------------------------------
// C09.subjects

func runC09Subjects(e *Env) {
	sc := e.Sc
	kind := sc.Sub
	subj := newSubject(kind, sc.Int("buf", 2))
	pub := context.WithValue(context.Background(), kC09Pub, "pub")
	recs := map[int]*Rec{}
	handles := map[int]*SubHandle{}
	var order []int
	for _, op := range sc.Ops {
		op := op
		switch op.Op {
		case "sub":
			if recs[op.Client] != nil {
				panic("C09.subjects: client subscribed twice")
			}
			rec := e.NewRec(fmt.Sprintf("s%d", op.Client))
			recs[op.Client] = rec
			order = append(order, op.Client)
			ctx := context.WithValue(context.Background(), kC09Sub, fmt.Sprintf("sub%d", op.Client))
			handles[op.Client] = e.Subscribe(subj, rec.Observer(), ctx)
		case "next":
			e.Go("c09.pub", func() {
				e.Yield()
				ctx := context.WithValue(pub, kC09Item, op.A)
				if sc.Int("cancelpub", 0) == 1 {
					// a request-scoped context: over as soon as the publisher is done with the call; what a
					// subject stores and replays later is still that context (its values stay readable)
					c, cancel := context.WithCancel(ctx)
					subj.NextWithContext(c, op.A)
					cancel()
					return
				}
				subj.NextWithContext(ctx, op.A)
			})
		case "error":
			e.Go("c09.pub", func() {
				e.Yield()
				subj.ErrorWithContext(context.WithValue(pub, kC09Term, "E"), ScriptError(op.A))
			})
		case "complete":
			e.Go("c09.pub", func() {
				e.Yield()
				subj.CompleteWithContext(context.WithValue(pub, kC09Term, "C"))
			})
		case "unsub":
			e.Settle()
			if h := handles[op.Client]; h != nil && h.Returned && h.S != nil {
				e.Go("c09.unsub", func() { h.S.Unsubscribe() })
			}
		case "settle":
			e.Settle()
		default:
			panic("C09.subjects: unknown op " + op.Op)
		}
		if e.K.Capped() {
			return
		}
	}
	e.Settle()
	if e.K.Capped() {
		return
	}
	for _, c := range order {
		rec := recs[c]
		own := fmt.Sprintf("sub%d", c)
		for _, ev := range rec.Events {
			if ev.CtxNil || ev.Ctx == nil {
				e.Violate("C09", fmt.Sprintf("nil-context:%c", ev.K), fmt.Sprintf("subscriber %d of the %s subject had its %s callback invoked with a nil context (ops %v, trace %s)", c, kind, c09KindName(ev.K), sc.Ops, rec.Trace()))
				continue
			}
			isOwn := ev.Ctx.Value(kC09Sub) == own
			switch ev.K {
			case 'N':
				if kind == "behavior" && ev.V == 900 {
					// the constructor's initial value was published by nobody (the subject stores it with context.TODO())
					if !isOwn && ev.Ctx.Value(kC09Pub) == nil {
						e.Probe("c09.behavior-initial-foreign-ctx")
					}
					continue
				}
				if it, ok := ev.Ctx.Value(kC09Item).(int); !ok || it != ev.V {
					e.Violate("C09", "value-context-mismatch", fmt.Sprintf("subscriber %d of the %s subject received value %d with %s, not the context it was published with (ops %v, trace %s)", c, kind, ev.V, c09Describe(ev.Ctx), sc.Ops, rec.Trace()))
				}
			case 'E':
				published := ev.Ctx.Value(kC09Term) == "E"
				if _, script := ev.Err.(*scriptErr); script {
					if !published {
						e.Violate("C09", "error-context-mismatch", fmt.Sprintf("subscriber %d of the %s subject received the error with %s, not the context it was published with (ops %v, trace %s)", c, kind, c09Describe(ev.Ctx), sc.Ops, rec.Trace()))
					}
				} else if !published && !isOwn {
					e.Violate("C09", "error-context-foreign", fmt.Sprintf("subscriber %d of the %s subject received error %v with %s: neither a publisher's nor its own subscription context (ops %v)", c, kind, ev.Err, c09Describe(ev.Ctx), sc.Ops))
				}
			case 'C':
				if ev.Ctx.Value(kC09Term) != "C" && !isOwn {
					e.Violate("C09", "complete-context-foreign", fmt.Sprintf("subscriber %d of the %s subject received the completion with %s: neither the publisher's nor its own subscription context (ops %v, trace %s)", c, kind, c09Describe(ev.Ctx), sc.Ops, rec.Trace()))
				}
			}
		}
	}
	e.Probe("c09.subjects-judged")
}

// c09OwnCtx is a caller-defined context type carrying the subscription marker.
type c09OwnCtx struct{ context.Context }

func (c c09OwnCtx) Value(key any) any {
	if key == kC09Sub {
		return "sub"
	}
	return c.Context.Value(key)
}

func (c c09OwnCtx) String() string { return "c09OwnCtx(sub)" }
