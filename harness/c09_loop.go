package roverif

// C09.loop — the context returned by the condition callback of the re-subscribing operators
// (DoWhile*WithContext, While*WithContext) is the context of the next run: the source is re-subscribed with
// it, the values of that run travel with it, and nothing is ever nil.

import (
	"context"
	"fmt"

	"github.com/samber/ro"
)

const kC09Run c09Key = "c09.run"

func init() {
	Register(&Family{
		Name:   "C09.loop",
		Props:  []string{"C09"},
		Weight: 1,
		Gen: func(g *Gen) *Scn {
			sc := &Scn{Family: "C09.loop"}
			sc.Sub = g.Pick("DoWhileWithContext", "DoWhileIWithContext", "WhileWithContext", "WhileIWithContext")
			mode := g.Pick("sync", "async", "timed")
			script := genScript(g, 10, 3, "CCCE", mode == "timed")
			sc.Sources = []SrcSpec{{Mode: mode, Script: script}}
			sc.SetInt("yes", g.Range(1, 3)) // how many times the condition answers true
			return sc
		},
		Run: runC09Loop,
	})
}

func runC09Loop(e *Env) {
	sc := e.Sc
	s := e.NewSrc(sc.Sources[0])
	yes := sc.Int("yes", 1)
	calls := 0
	var condNil int
	cond := func(ctx context.Context, i int) (context.Context, bool) {
		calls++
		if ctx == nil {
			condNil++
			ctx = context.Background()
		}
		// each answer names the run it allows: run numbers start at 1 for the first re-run decided here
		return context.WithValue(ctx, kC09Run, calls), calls <= yes
	}
	var op func(ro.Observable[int]) ro.Observable[int]
	switch sc.Sub {
	case "DoWhileWithContext":
		op = ro.DoWhileWithContext[int](func(ctx context.Context) (context.Context, bool) { return cond(ctx, -1) })
	case "DoWhileIWithContext":
		op = ro.DoWhileIWithContext[int](func(ctx context.Context, i int64) (context.Context, bool) { return cond(ctx, int(i)) })
	case "WhileWithContext":
		op = ro.WhileWithContext[int](func(ctx context.Context) (context.Context, bool) { return cond(ctx, -1) })
	default:
		op = ro.WhileIWithContext[int](func(ctx context.Context, i int64) (context.Context, bool) { return cond(ctx, int(i)) })
	}
	type got struct {
		k   byte
		v   int
		run interface{}
		nil bool
	}
	var evs []got
	mk := func(k byte, v int, ctx context.Context) {
		g := got{k: k, v: v, nil: ctx == nil}
		if ctx != nil {
			g.run = ctx.Value(kC09Run)
		}
		evs = append(evs, g)
	}
	obs := ro.NewObserverWithContext(
		func(ctx context.Context, v int) { mk('N', v, ctx) },
		func(ctx context.Context, err error) { mk('E', 0, ctx) },
		func(ctx context.Context) { mk('C', 0, ctx) },
	)
	subCtx := context.WithValue(context.Background(), kC09Sub, "sub")
	e.Go("subscriber", func() { op(s.Obs()).SubscribeWithContext(subCtx, obs) })
	e.SettleFor(200 * Unit)
	if e.K.Capped() {
		return
	}
	describe := func() string {
		var runs []string
		for i, c := range s.Ctxs {
			if c == nil {
				runs = append(runs, fmt.Sprintf("#%d:nil", i))
			} else {
				runs = append(runs, fmt.Sprintf("#%d:run=%v", i, c.Value(kC09Run)))
			}
		}
		return fmt.Sprintf("%s, condition true %d times, called %d times; source subscribed with %v; observer saw %v", sc.Sub, yes, calls, runs, evs)
	}
	if condNil > 0 {
		e.Violate("C09", "nil-ctx:"+sc.Sub+":condition", "the condition callback received a nil context: "+describe())
	}
	for i, c := range s.Ctxs {
		if c == nil {
			e.Violate("C09", "nil-ctx:"+sc.Sub+":subscribe", fmt.Sprintf("run #%d subscribed the source with a nil context: %s", i, describe()))
			return
		}
		if c.Value(kC09Sub) != "sub" {
			e.Violate("C09", "sub-marker-lost:"+sc.Sub, fmt.Sprintf("run #%d subscribed the source with a context that lost the subscription's values: %s", i, describe()))
		}
		// the run that follows the n-th "true" answer is subscribed with the context that answer returned
		want := interface{}(nil)
		switch sc.Sub {
		case "DoWhileWithContext", "DoWhileIWithContext":
			if i > 0 {
				want = i // run #i was allowed by condition call #i
			}
		default:
			want = i + 1 // While asks first: run #i was allowed by condition call #i+1
		}
		if c.Value(kC09Run) != want {
			e.Violate("C09", "returned-ctx-not-used:"+sc.Sub, fmt.Sprintf("run #%d of the source was subscribed with run marker %v, the condition callback had returned a context marked %v for it: %s", i, c.Value(kC09Run), want, describe()))
			return
		}
	}
	for _, g := range evs {
		if g.nil {
			e.Violate("C09", "nil-ctx:"+sc.Sub+":"+string(g.k), "the observer received a nil context: "+describe())
			return
		}
	}
}

// C09.share — a shared observable connects its source with the context of the subscriber that causes the
// connection: after a reset (completion, error, or the last subscriber leaving) the next connection is made
// with the context of the subscriber that causes THAT connection, not with a context kept from an earlier one.
func init() {
	Register(&Family{
		Name:   "C09.share",
		Props:  []string{"C09"},
		Weight: 1,
		Gen: func(g *Gen) *Scn {
			sc := &Scn{Family: "C09.share"}
			sc.Sub = g.Pick("Share", "ShareReplay", "ShareWithConfig")
			mode := g.Pick("sync", "async")
			sc.Sources = []SrcSpec{{Mode: mode, Script: genScript(g, 10, 3, "CCE", false)}}
			sc.SetInt("end", g.Intn(2)) // 0: the first connection ends by itself, 1: its only subscriber leaves
			return sc
		},
		Run: func(e *Env) {
			sc := e.Sc
			spec := sc.Sources[0]
			if sc.Int("end", 0) == 1 {
				spec.Script = []Step{{K: "N", V: 10}} // stays open: the connection ends when the subscriber leaves
				spec.Mode = "async"
			}
			s := e.NewSrc(spec)
			var o ro.Observable[int]
			switch sc.Sub {
			case "Share":
				o = ro.Share[int]()(s.Obs())
			case "ShareReplay":
				o = ro.ShareReplay[int](1)(s.Obs())
			default:
				o = ro.ShareWithConfig(ro.ShareConfig[int]{Connector: func() ro.Subject[int] { return ro.NewPublishSubject[int]() }, ResetOnError: true, ResetOnComplete: true, ResetOnRefCountZero: true})(s.Obs())
			}
			type seen struct {
				who interface{}
				nil bool
			}
			var got [2][]seen
			mk := func(i int) ro.Observer[int] {
				rec := func(ctx context.Context) {
					if ctx == nil {
						got[i] = append(got[i], seen{nil: true})
						return
					}
					got[i] = append(got[i], seen{who: ctx.Value(kC09Sub)})
				}
				return ro.NewObserverWithContext(
					func(ctx context.Context, v int) { rec(ctx) },
					func(ctx context.Context, err error) { rec(ctx) },
					func(ctx context.Context) { rec(ctx) },
				)
			}
			ctxA := context.WithValue(context.Background(), kC09Sub, "A")
			ctxB := context.WithValue(context.Background(), kC09Sub, "B")
			var subA ro.Subscription
			doneA := false
			e.Go("subscriber-A", func() { subA = o.SubscribeWithContext(ctxA, mk(0)); doneA = true })
			e.SettleFor(20 * Unit)
			if e.K.Capped() || !doneA {
				return
			}
			if sc.Int("end", 0) == 1 {
				e.Go("unsubscriber-A", func() { subA.Unsubscribe() })
				e.SettleFor(20 * Unit)
			}
			if s.Live != 0 || e.K.Capped() {
				return // the first connection is still up (ShareReplay keeps it on completion by design): no second connection to judge
			}
			before := s.Subs
			e.Go("subscriber-B", func() { o.SubscribeWithContext(ctxB, mk(1)) })
			e.SettleFor(20 * Unit)
			if e.K.Capped() || s.Subs == before {
				return // no new connection was made (replayed execution): nothing to judge
			}
			describe := func() string {
				var cs []string
				for i, c := range s.Ctxs {
					if c == nil {
						cs = append(cs, fmt.Sprintf("#%d:nil", i))
					} else {
						cs = append(cs, fmt.Sprintf("#%d:%v", i, c.Value(kC09Sub)))
					}
				}
				return fmt.Sprintf("%s: the source was connected with the contexts of %v; subscriber A (context A) saw %v, subscriber B (context B) saw %v", sc.Sub, cs, got[0], got[1])
			}
			c := s.Ctxs[len(s.Ctxs)-1]
			if c == nil {
				e.Violate("C09", "nil-ctx:"+sc.Sub+":subscribe", "the source was connected with a nil context: "+describe())
				return
			}
			if c.Value(kC09Sub) != "B" {
				e.Violate("C09", "stale-connection-ctx:"+sc.Sub, "the second connection was not made with the context of the subscriber that caused it: "+describe())
			}
			for _, g := range got[1] {
				if g.nil {
					e.Violate("C09", "nil-ctx:"+sc.Sub+":callback", "subscriber B received a nil context: "+describe())
				} else if g.who != "B" {
					e.Violate("C09", "stale-connection-ctx:"+sc.Sub, "subscriber B, alone on a fresh connection, received notifications carrying another subscription's values: "+describe())
				}
			}
		},
	})
}

// C09.groupby — the context returned by GroupBy's key selector travels with the item into its group, for the
// item that opens a group and for every later item of that group alike.
func init() {
	Register(&Family{
		Name:   "C09.groupby",
		Props:  []string{"C09"},
		Weight: 1,
		Gen: func(g *Gen) *Scn {
			sc := &Scn{Family: "C09.groupby"}
			sc.Sub = g.Pick("GroupByWithContext", "GroupByIWithContext")
			sc.SetInt("k", g.Range(1, 3))
			sc.Sources = []SrcSpec{{Mode: g.Pick("sync", "async"), Script: genScript(g, 10, 6, "CCE-", false)}}
			return sc
		},
		Run: func(e *Env) {
			sc := e.Sc
			k := sc.Int("k", 2)
			s := e.NewSrc(sc.Sources[0])
			mark := func(ctx context.Context, v int) context.Context {
				if ctx == nil {
					ctx = context.Background()
				}
				return context.WithValue(ctx, kC09Run, v)
			}
			var groups ro.Observable[ro.Observable[int]]
			if sc.Sub == "GroupByWithContext" {
				groups = ro.GroupByWithContext(func(ctx context.Context, v int) (context.Context, int) { return mark(ctx, v), v % k })(s.Obs())
			} else {
				groups = ro.GroupByIWithContext(func(ctx context.Context, v int, _ int64) (context.Context, int) { return mark(ctx, v), v % k })(s.Obs())
			}
			subCtx := context.WithValue(context.Background(), kC09Sub, "sub")
			var bad []string
			obs := ro.NewObserverWithContext(
				func(ctx context.Context, v int) {
					switch {
					case ctx == nil:
						bad = append(bad, fmt.Sprintf("N%d:nil", v))
					case ctx.Value(kC09Run) != v:
						bad = append(bad, fmt.Sprintf("N%d:selector-marker=%v", v, ctx.Value(kC09Run)))
					case ctx.Value(kC09Sub) != "sub":
						bad = append(bad, fmt.Sprintf("N%d:subscription-marker-lost", v))
					}
				},
				func(ctx context.Context, err error) {
					if ctx == nil {
						bad = append(bad, "E:nil")
					}
				},
				func(ctx context.Context) {
					if ctx == nil {
						bad = append(bad, "C:nil")
					}
				},
			)
			e.Go("subscriber", func() { ro.MergeAll[int]()(groups).SubscribeWithContext(subCtx, obs) })
			e.SettleFor(50 * Unit)
			if e.K.Capped() {
				return
			}
			if len(bad) > 0 {
				e.Violate("C09", "selector-ctx-lost:"+sc.Sub, fmt.Sprintf("%s(v%%%d) | MergeAll over [%s]: the selector returns the item's context enriched with the item's own value, but these deliveries do not carry it: %v", sc.Sub, k, traceN(scriptToN(sc.Sources[0].Script)), bad))
			}
		},
	})
}

// C09.itemcancel — ThrowOnContextCancel turns a cancelled ITEM context into an error that still travels with
// that item's context (whatever was attached upstream stays visible), whether the context was already done
// when the item arrived or became done while the item was being delivered downstream.
func init() {
	Register(&Family{
		Name:   "C09.itemcancel",
		Props:  []string{"C09"},
		Weight: 1,
		Gen: func(g *Gen) *Scn {
			sc := &Scn{Family: "C09.itemcancel"}
			sc.Sub = g.Pick("before", "during")
			sc.Sources = []SrcSpec{{Mode: g.Pick("sync", "async"), Script: genScript(g, 10, 4, "C-", false)}}
			sc.SetInt("at", g.Range(0, 3))
			return sc
		},
		Run: func(e *Env) {
			sc := e.Sc
			s := e.NewSrc(sc.Sources[0])
			at := sc.Int("at", 0)
			var cancels []context.CancelFunc
			o := ro.Pipe3(s.Obs(),
				ro.ContextWithValue[int](kC09Run, "mid"),
				ro.ContextMapI[int](func(ctx context.Context, i int64) context.Context {
					c, cancel := context.WithCancel(ctx)
					cancels = append(cancels, cancel)
					if sc.Sub == "before" && int(i) == at {
						cancel()
					}
					return c
				}),
				ro.ThrowOnContextCancel[int](),
			)
			n := 0
			var errCtx context.Context
			gotErr := false
			obs := ro.NewObserverWithContext(
				func(ctx context.Context, v int) {
					if sc.Sub == "during" && n == at && n < len(cancels) {
						cancels[n]()
					}
					n++
				},
				func(ctx context.Context, err error) { errCtx, gotErr = ctx, true },
				func(ctx context.Context) {},
			)
			subCtx := context.WithValue(context.Background(), kC09Sub, "sub")
			e.Go("subscriber", func() { o.SubscribeWithContext(subCtx, obs) })
			e.SettleFor(50 * Unit)
			if e.K.Capped() || !gotErr {
				return
			}
			switch {
			case errCtx == nil:
				e.Violate("C09", "nil-ctx:ThrowOnContextCancel:E", "the cancellation error was delivered with a nil context")
			case errCtx.Value(kC09Run) != "mid" || errCtx.Value(kC09Sub) != "sub":
				e.Violate("C09", "item-ctx-lost:ThrowOnContextCancel", fmt.Sprintf("item #%d's context was cancelled %s its delivery; the resulting error travels with a context that lost the values attached upstream (mid-pipeline marker %v, subscription marker %v)", at, sc.Sub, errCtx.Value(kC09Run), errCtx.Value(kC09Sub)))
			}
		},
	})
}
