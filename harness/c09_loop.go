package roverif

// C09.loop — the context returned by the condition callback of the re-subscribing operators
// (DoWhile*WithContext, While*WithContext) is the context of the next run: the source is re-subscribed with
// it, the values of that run travel with it, and nothing is ever nil.

import (
	"context"
	"fmt"

	"github.com/samber/ro"
)

const kC09Run c09Key = "c09.run"

func init() {
	Register(&Family{
		Name:   "C09.loop",
		Props:  []string{"C09"},
		Weight: 1,
		Gen: func(g *Gen) *Scn {
			sc := &Scn{Family: "C09.loop"}
			sc.Sub = g.Pick("DoWhileWithContext", "DoWhileIWithContext", "WhileWithContext", "WhileIWithContext")
			mode := g.Pick("sync", "async", "timed")
			script := genScript(g, 10, 3, "CCCE", mode == "timed")
			sc.Sources = []SrcSpec{{Mode: mode, Script: script}}
			sc.SetInt("yes", g.Range(1, 3)) // how many times the condition answers true
			return sc
		},
		Run: runC09Loop,
	})
}

func runC09Loop(e *Env) {
	sc := e.Sc
	s := e.NewSrc(sc.Sources[0])
	yes := sc.Int("yes", 1)
	calls := 0
	var condNil int
	cond := func(ctx context.Context, i int) (context.Context, bool) {
		calls++
		if ctx == nil {
			condNil++
			ctx = context.Background()
		}
		// each answer names the run it allows: run numbers start at 1 for the first re-run decided here
		return context.WithValue(ctx, kC09Run, calls), calls <= yes
	}
	var op func(ro.Observable[int]) ro.Observable[int]
	switch sc.Sub {
	case "DoWhileWithContext":
		op = ro.DoWhileWithContext[int](func(ctx context.Context) (context.Context, bool) { return cond(ctx, -1) })
	case "DoWhileIWithContext":
		op = ro.DoWhileIWithContext[int](func(ctx context.Context, i int64) (context.Context, bool) { return cond(ctx, int(i)) })
	case "WhileWithContext":
		op = ro.WhileWithContext[int](func(ctx context.Context) (context.Context, bool) { return cond(ctx, -1) })
	default:
		op = ro.WhileIWithContext[int](func(ctx context.Context, i int64) (context.Context, bool) { return cond(ctx, int(i)) })
	}
	type got struct {
		k   byte
		v   int
		run interface{}
		nil bool
	}
	var evs []got
	mk := func(k byte, v int, ctx context.Context) {
		g := got{k: k, v: v, nil: ctx == nil}
		if ctx != nil {
			g.run = ctx.Value(kC09Run)
		}
		evs = append(evs, g)
	}
	obs := ro.NewObserverWithContext(
		func(ctx context.Context, v int) { mk('N', v, ctx) },
		func(ctx context.Context, err error) { mk('E', 0, ctx) },
		func(ctx context.Context) { mk('C', 0, ctx) },
	)
	subCtx := context.WithValue(context.Background(), kC09Sub, "sub")
	e.Go("subscriber", func() { op(s.Obs()).SubscribeWithContext(subCtx, obs) })
	e.SettleFor(200 * Unit)
	if e.K.Capped() {
		return
	}
	describe := func() string {
		var runs []string
		for i, c := range s.Ctxs {
			if c == nil {
				runs = append(runs, fmt.Sprintf("#%d:nil", i))
			} else {
				runs = append(runs, fmt.Sprintf("#%d:run=%v", i, c.Value(kC09Run)))
			}
		}
		return fmt.Sprintf("%s, condition true %d times, called %d times; source subscribed with %v; observer saw %v", sc.Sub, yes, calls, runs, evs)
	}
	if condNil > 0 {
		e.Violate("C09", "nil-ctx:"+sc.Sub+":condition", "the condition callback received a nil context: "+describe())
	}
	for i, c := range s.Ctxs {
		if c == nil {
			e.Violate("C09", "nil-ctx:"+sc.Sub+":subscribe", fmt.Sprintf("run #%d subscribed the source with a nil context: %s", i, describe()))
			return
		}
		if c.Value(kC09Sub) != "sub" {
			e.Violate("C09", "sub-marker-lost:"+sc.Sub, fmt.Sprintf("run #%d subscribed the source with a context that lost the subscription's values: %s", i, describe()))
		}
		// the run that follows the n-th "true" answer is subscribed with the context that answer returned
		want := interface{}(nil)
		switch sc.Sub {
		case "DoWhileWithContext", "DoWhileIWithContext":
			if i > 0 {
				want = i // run #i was allowed by condition call #i
			}
		default:
			want = i + 1 // While asks first: run #i was allowed by condition call #i+1
		}
		if c.Value(kC09Run) != want {
			e.Violate("C09", "returned-ctx-not-used:"+sc.Sub, fmt.Sprintf("run #%d of the source was subscribed with run marker %v, the condition callback had returned a context marked %v for it: %s", i, c.Value(kC09Run), want, describe()))
			return
		}
	}
	for _, g := range evs {
		if g.nil {
			e.Violate("C09", "nil-ctx:"+sc.Sub+":"+string(g.k), "the observer received a nil context: "+describe())
			return
		}
	}
}
