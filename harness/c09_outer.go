package roverif

// C09.outer — operators that flatten an observable of observables: values attached to the context of the
// OUTER stream (a context operator placed on the stream of observables) are upstream of the flattening
// operator like any other; the inner observables are subscribed with a context that carries them, and so
// do the notifications delivered downstream.

import (
	"context"
	"fmt"

	"github.com/samber/ro"
)

const kC09Outer c09Key = "c09.outer"

func init() {
	Register(&Family{
		Name:   "C09.outer",
		Props:  []string{"C09"},
		Weight: 1,
		Gen: func(g *Gen) *Scn {
			sc := &Scn{Family: "C09.outer"}
			sc.Sub = g.Pick("MergeAll", "ConcatAll", "ZipAll", "CombineLatestAll")
			k := g.Range(1, 3)
			for i := 0; i < k; i++ {
				mode := g.Pick("sync", "sync", "async")
				sc.Sources = append(sc.Sources, SrcSpec{Mode: mode, Script: genScript(g, 10*(i+1), 3, "CCCE", false)})
			}
			sc.SetInt("ownctx", g.Intn(2))
			return sc
		},
		Run: func(e *Env) {
			sc := e.Sc
			var srcs []*Src
			var inner []ro.Observable[int]
			for _, sp := range sc.Sources {
				s := e.NewSrc(sp)
				srcs = append(srcs, s)
				inner = append(inner, s.Obs())
			}
			outer := ro.ContextWithValue[ro.Observable[int]](kC09Outer, "outer")(ro.Just(inner...))
			sum := ro.Map(func(vs []int) int {
				t := 0
				for _, v := range vs {
					t += v
				}
				return t
			})
			var o ro.Observable[int]
			switch sc.Sub {
			case "MergeAll":
				o = ro.MergeAll[int]()(outer)
			case "ConcatAll":
				o = ro.ConcatAll[int]()(outer)
			case "ZipAll":
				o = sum(ro.ZipAll[int]()(outer))
			default:
				o = sum(ro.CombineLatestAll[int]()(outer))
			}
			type seen struct {
				k   byte
				ctx context.Context
			}
			var got []seen
			obs := ro.NewObserverWithContext(
				func(ctx context.Context, v int) { got = append(got, seen{'N', ctx}) },
				func(ctx context.Context, err error) { got = append(got, seen{'E', ctx}) },
				func(ctx context.Context) { got = append(got, seen{'C', ctx}) },
			)
			var subCtx context.Context = context.WithValue(context.Background(), kC09Sub, "sub")
			if sc.Int("ownctx", 0) == 1 {
				subCtx = c09OwnCtx{context.Background()}
			}
			e.Go("subscriber", func() { o.SubscribeWithContext(subCtx, obs) })
			e.SettleFor(50 * Unit)
			if e.K.Capped() {
				return
			}
			for i, s := range srcs {
				for _, ctx := range s.Ctxs {
					switch {
					case ctx == nil:
						e.Violate("C09", "nil-context:"+sc.Sub, fmt.Sprintf("%s subscribed inner observable %d with a nil context", sc.Sub, i))
					case ctx.Value(kC09Sub) != "sub":
						e.Violate("C09", "marker-lost:"+sc.Sub+":S", fmt.Sprintf("%s subscribed inner observable %d with %s, not derived from the subscription context", sc.Sub, i, c09Describe(ctx)))
					case ctx.Value(kC09Outer) != "outer":
						e.Violate("C09", "outer-marker-lost:"+sc.Sub+":S", fmt.Sprintf("%s subscribed inner observable %d with %s: the value a context operator attached to the stream of observables is not visible", sc.Sub, i, c09Describe(ctx)))
					}
				}
			}
			for _, g := range got {
				switch {
				case g.ctx == nil:
					e.Violate("C09", "nil-context:"+sc.Sub, fmt.Sprintf("%s invoked the %s callback with a nil context", sc.Sub, c09KindName(g.k)))
				case g.ctx.Value(kC09Sub) != "sub":
					e.Violate("C09", fmt.Sprintf("marker-lost:%s:%c", sc.Sub, g.k), fmt.Sprintf("%s: the %s callback received %s, not derived from the subscription context", sc.Sub, c09KindName(g.k), c09Describe(g.ctx)))
				case g.ctx.Value(kC09Outer) != "outer":
					e.Violate("C09", fmt.Sprintf("outer-marker-lost:%s:%c", sc.Sub, g.k), fmt.Sprintf("%s: the %s callback received %s: the value attached to the stream of observables upstream of the operator is not visible downstream", sc.Sub, c09KindName(g.k), c09Describe(g.ctx)))
				}
			}
		},
	})
}
