package roverif

import (
	"context"
	"errors"
	"fmt"
	"sort"
	"strings"
	"time"

	"github.com/anishathalye/porcupine"
	"github.com/samber/ro"
)

// ---- sequential definition of the five subjects (written from the property statement) -----------

type subjState struct {
	Kind    string
	BufSize int // replay: N; unicast: capacity (<=0 unlimited)
	Status  int // 0 open, 1 error, 2 complete
	Err     int
	Buf     []int // replay buffer / unicast backlog
	Last    int   // behavior latest / async final
	HasLast bool
	Subs    []int // subscribed ids (sorted)
	Zombie  []int // cut by an Unsubscribe still in progress: no more deliveries, may still be counted
	Cnt     map[int]int
	// LateBacklogLost selects the behaviour of known finding F1 (a subscriber arriving after a unicast
	// subject terminated gets the terminal only): used to classify a violation, never to accept one.
	LateBacklogLost bool
}

func (s subjState) clone() subjState {
	c := s
	c.Buf = append([]int(nil), s.Buf...)
	c.Subs = append([]int(nil), s.Subs...)
	c.Zombie = append([]int(nil), s.Zombie...)
	c.Cnt = map[int]int{}
	for k, v := range s.Cnt {
		c.Cnt[k] = v
	}
	return c
}

func (s subjState) key() string {
	ids := make([]int, 0, len(s.Cnt))
	for k := range s.Cnt {
		ids = append(ids, k)
	}
	sort.Ints(ids)
	var sb strings.Builder
	fmt.Fprintf(&sb, "%d/%d/%v/%d/%v/%v/%v|", s.Status, s.Err, s.Buf, s.Last, s.HasLast, s.Subs, s.Zombie)
	for _, k := range ids {
		fmt.Fprintf(&sb, "%d:%d,", k, s.Cnt[k])
	}
	return sb.String()
}

type subjIn struct {
	Op string // next error complete subscribe unsubscribe hasobserver count isclosed hasthrown iscompleted
	A  int
	// CutOK: subscribers whose Unsubscribe call overlaps this operation in real time. Their share of
	// this operation's deliveries may be cut short (C06: Unsubscribe may take effect between two
	// deliveries of one broadcast); they then count as unsubscribed.
	CutOK []int
}

func (i subjIn) String() string {
	if len(i.CutOK) > 0 {
		return fmt.Sprintf("%s(%d cut-ok %v)", i.Op, i.A, i.CutOK)
	}
	return fmt.Sprintf("%s(%d)", i.Op, i.A)
}

func bySub(deliv []string) map[string][]string {
	m := map[string][]string{}
	for _, d := range deliv {
		i := strings.Index(d, "@")
		m[d[:i]] = append(m[d[:i]], d)
	}
	return m
}

// accept compares observed with prescribed deliveries, allowing a cut for subscribers in cutOK.
func (s subjState) accept(in subjIn, out subjOut) (bool, subjState) {
	d, a, ns := s.step(in)
	if a != out.Answer {
		// a subscriber whose Unsubscribe is in progress may or may not be counted any more
		switch {
		case in.Op == "hasobserver" && len(s.Zombie) > 0 && out.Answer == 1:
		case in.Op == "count" && out.Answer >= len(s.Subs) && out.Answer <= len(s.Subs)+len(s.Zombie):
		default:
			return false, ns
		}
	}
	// two-phase Unsubscribe of the single unicast subscriber: while it is in progress the slot may
	// still be taken, so a concurrent Subscribe may be rejected
	if s.Kind == "unicast" && in.Op == "subscribe" && s.Status == 0 && len(s.Subs) == 0 && len(s.Zombie) > 0 {
		rej := fmt.Sprintf("[s%d@%d:E(e%d)]", in.A, s.Cnt[in.A], errConcurrentCode)
		if fmt.Sprint(out.Deliv) == rej {
			rs := s.clone()
			rs.Cnt[in.A] = s.Cnt[in.A] + 1
			return true, rs
		}
	}
	want, got := bySub(d), bySub(out.Deliv)
	for sub := range got {
		if _, ok := want[sub]; !ok {
			return false, ns
		}
	}
	for sub, w := range want {
		g := got[sub]
		if fmt.Sprint(g) == fmt.Sprint(w) {
			continue
		}
		var id int
		fmt.Sscanf(sub, "s%d", &id)
		cut := false
		for _, c := range in.CutOK {
			if c == id {
				cut = true
			}
		}
		if !cut || len(g) >= len(w) || fmt.Sprint(g) != fmt.Sprint(w[:len(g)]) {
			return false, ns
		}
		// cut short: the subscriber is gone from here on
		ns.Cnt[id] = s.Cnt[id] + len(g)
		for i, x := range ns.Subs {
			if x == id {
				ns.Subs = append(ns.Subs[:i:i], ns.Subs[i+1:]...)
				ns.Zombie = append(ns.Zombie, id)
				sort.Ints(ns.Zombie)
				break
			}
		}
	}
	return true, ns
}

const errConcurrentCode = 99

// step returns the deliveries the definition prescribes for the operation, the query answer, and the next state.
func (s subjState) step(in subjIn) (deliv []string, answer int, ns subjState) {
	ns = s.clone()
	emit := func(sub int, what string) {
		deliv = append(deliv, fmt.Sprintf("s%d@%d:%s", sub, ns.Cnt[sub], what))
		ns.Cnt[sub]++
	}
	n := func(v int) string { return fmt.Sprintf("N%d", v) }
	term := func() string {
		if ns.Status == 1 {
			return fmt.Sprintf("E(e%d)", ns.Err)
		}
		return "C"
	}
	switch in.Op {
	case "next":
		if s.Status != 0 {
			return
		}
		switch s.Kind {
		case "publish":
			for _, sub := range s.Subs {
				emit(sub, n(in.A))
			}
		case "behavior":
			ns.Last, ns.HasLast = in.A, true
			for _, sub := range s.Subs {
				emit(sub, n(in.A))
			}
		case "replay":
			for _, sub := range s.Subs {
				emit(sub, n(in.A))
			}
			ns.Buf = append(ns.Buf, in.A)
			if s.BufSize >= 0 && len(ns.Buf) > s.BufSize {
				ns.Buf = ns.Buf[len(ns.Buf)-s.BufSize:]
			}
		case "async":
			ns.Last, ns.HasLast = in.A, true
		case "unicast":
			if len(s.Subs) > 0 {
				emit(s.Subs[0], n(in.A))
			} else {
				ns.Buf = append(ns.Buf, in.A)
				if s.BufSize >= 0 && len(ns.Buf) > s.BufSize {
					ns.Buf = ns.Buf[len(ns.Buf)-s.BufSize:]
				}
			}
		}
	case "error", "complete":
		if s.Status != 0 {
			return
		}
		if in.Op == "error" {
			ns.Status, ns.Err = 1, in.A
		} else {
			ns.Status = 2
		}
		for _, sub := range s.Subs {
			if s.Kind == "async" && in.Op == "complete" && s.HasLast {
				emit(sub, n(s.Last))
			}
			emit(sub, term())
		}
		ns.Subs = nil
		ns.Zombie = nil
	case "subscribe":
		if _, seen := s.Cnt[in.A]; !seen {
			ns.Cnt[in.A] = 0
		}
		if s.Status == 0 {
			switch s.Kind {
			case "behavior":
				emit(in.A, n(s.Last))
			case "replay":
				for _, v := range s.Buf {
					emit(in.A, n(v))
				}
			case "unicast":
				if len(s.Subs) > 0 {
					emit(in.A, fmt.Sprintf("E(e%d)", errConcurrentCode))
					return
				}
				for _, v := range s.Buf {
					emit(in.A, n(v))
				}
				ns.Buf = nil
			}
			ns.Subs = append(ns.Subs, in.A)
			sort.Ints(ns.Subs)
			return
		}
		// terminated
		switch s.Kind {
		case "replay":
			for _, v := range s.Buf {
				emit(in.A, n(v))
			}
		case "async":
			if s.Status == 2 && s.HasLast {
				emit(in.A, n(s.Last))
			}
		case "unicast":
			if !s.LateBacklogLost {
				for _, v := range s.Buf {
					emit(in.A, n(v))
				}
				ns.Buf = nil
			}
		}
		emit(in.A, term())
	case "unsubscribe":
		for i, sub := range s.Subs {
			if sub == in.A {
				ns.Subs = append(ns.Subs[:i:i], ns.Subs[i+1:]...)
			}
		}
		for i, sub := range s.Zombie {
			if sub == in.A {
				ns.Zombie = append(ns.Zombie[:i:i], ns.Zombie[i+1:]...)
			}
		}
	case "hasobserver":
		answer = b2i(len(s.Subs) > 0)
	case "count":
		answer = len(s.Subs)
	case "isclosed":
		answer = b2i(s.Status != 0)
	case "hasthrown":
		answer = b2i(s.Status == 1)
	case "iscompleted":
		answer = b2i(s.Status == 2)
	}
	return
}

type subjOut struct {
	Deliv  []string
	Answer int
}

func (o subjOut) key() string {
	d := append([]string(nil), o.Deliv...)
	sort.Strings(d)
	return fmt.Sprintf("%v/%d", d, o.Answer)
}

// acceptAll returns every state the definition allows after the operation with this output
// (more than one only while an Unsubscribe of the single unicast subscriber is in progress).
func (s subjState) acceptAll(in subjIn, out subjOut) []interface{} {
	var res []interface{}
	if ok, ns := s.accept(in, out); ok {
		res = append(res, ns)
	}
	if s.Kind == "unicast" && in.Op == "next" && s.Status == 0 && len(s.Subs) == 0 && len(s.Zombie) > 0 && len(out.Deliv) == 0 {
		// handed to the subscriber that is being unsubscribed: dropped rather than queued
		res = append(res, s.clone())
	}
	return res
}

func subjModel(kind string, buf int, f1 bool) porcupine.Model {
	nm := porcupine.NondeterministicModel{
		Init: func() []interface{} {
			st := subjState{Kind: kind, BufSize: buf, Cnt: map[int]int{}, LateBacklogLost: f1}
			if kind == "behavior" {
				st.Last, st.HasLast = 900, true
			}
			return []interface{}{st}
		},
		Step: func(state, input, output interface{}) []interface{} {
			return state.(subjState).acceptAll(input.(subjIn), output.(subjOut))
		},
		Equal: func(a, b interface{}) bool { return a.(subjState).key() == b.(subjState).key() },
		DescribeOperation: func(input, output interface{}) string {
			return fmt.Sprintf("%v -> %v", input, output.(subjOut).key())
		},
	}
	return nm.ToModel()
}

// ---- scenario ------------------------------------------------------------------------------------

func genSubjectOps(g *Gen, clients, maxOps int) []OpSpec {
	if g.Tier == "thorough" {
		maxOps += 2
	}
	n := g.Range(2, maxOps)
	var ops []OpSpec
	nextVal := 1
	nextSub := 0
	subscribedBy := map[int]int{} // sub id -> client
	for i := 0; i < n; i++ {
		c := g.Intn(clients)
		switch x := g.Intn(20); {
		case x < 7:
			ops = append(ops, OpSpec{Client: c, Op: "next", A: nextVal})
			nextVal++
		case x < 12 && nextSub < 4:
			ops = append(ops, OpSpec{Client: c, Op: "subscribe", A: nextSub})
			subscribedBy[nextSub] = c
			nextSub++
		case x < 15 && len(subscribedBy) > 0:
			// unsubscribe by the client that subscribed (so that its Subscribe call has returned)
			ids := make([]int, 0, len(subscribedBy))
			for id := range subscribedBy {
				ids = append(ids, id)
			}
			sort.Ints(ids)
			id := ids[g.Intn(len(ids))]
			ops = append(ops, OpSpec{Client: subscribedBy[id], Op: "unsubscribe", A: id})
			delete(subscribedBy, id)
		case x < 16:
			ops = append(ops, OpSpec{Client: c, Op: "complete"})
		case x < 17:
			ops = append(ops, OpSpec{Client: c, Op: "error", A: g.Intn(4)})
		default:
			ops = append(ops, OpSpec{Client: c, Op: g.Pick("hasobserver", "count", "isclosed", "hasthrown", "iscompleted")})
		}
	}
	return ops
}

func init() {
	Register(&Family{
		Name:   "C10.seq",
		Props:  []string{"C10"},
		Weight: 3,
		Gen: func(g *Gen) *Scn {
			sc := &Scn{Family: "C10.seq"}
			sc.Sub = subjectKinds[g.Intn(len(subjectKinds))]
			sc.SetInt("buf", g.PickInt(0, 1, 2, 3, 4)) // 0 = unlimited, k = size k-1 (so size 0 is covered)
			sc.SetInt("seqmode", 1)
			sc.Ops = genSubjectOps(g, 1, 10)
			return sc
		},
		Run: runC10,
	})
	Register(&Family{
		Name:   "C10.conc",
		Props:  []string{"C10", "C13"},
		Weight: 5,
		Gen: func(g *Gen) *Scn {
			sc := &Scn{Family: "C10.conc"}
			sc.Sub = subjectKinds[g.Intn(len(subjectKinds))]
			sc.SetInt("buf", g.PickInt(0, 1, 2, 3, 4))
			sc.SetInt("clients", g.Range(2, 4))
			sc.Ops = genSubjectOps(g, sc.Int("clients", 2), 12)
			return sc
		},
		Run: runC10,
	})
}

func deliveryName(ev Ev) string {
	if ev.K == 'E' && errors.Is(ev.Err, ro.ErrUnicastSubjectConcurrent) {
		return fmt.Sprintf("E(e%d)", errConcurrentCode)
	}
	return ev.String()
}

func runC10(e *Env) {
	sc := e.Sc
	kind := sc.Sub
	buf := sc.Int("buf", 0)
	var subject ro.Subject[int]
	// Ints["buf"]: 0 = unlimited, k>0 = buffer size k-1 (size 0 keeps nothing)
	mbuf := buf - 1
	switch kind {
	case "replay":
		if buf == 0 {
			subject = ro.NewReplaySubject[int](ro.ReplaySubjectUnlimitedBufferSize)
		} else {
			subject = ro.NewReplaySubject[int](buf - 1)
		}
	case "unicast":
		if buf == 0 {
			subject = ro.NewUnicastSubject[int](ro.UnicastSubjectUnlimitedBufferSize)
		} else {
			subject = ro.NewUnicastSubject[int](buf - 1)
		}
	default:
		subject = newSubject(kind, buf)
	}
	clients := sc.Int("clients", 1)
	recs := make([]*opRec, len(sc.Ops))
	curOp := map[int]*opRec{} // actor id -> op in progress
	subs := map[int]ro.Subscription{}
	counts := map[int]int{}
	stray := 0
	mkObserver := func(id int) ro.Observer[int] {
		r := e.NewRec(fmt.Sprintf("s%d", id))
		hook := func() {
			ev := r.Events[len(r.Events)-1]
			if ev.K == 'N' && !(kind == "behavior" && ev.V == 900) {
				// a delivery, live or replayed, is the notification that was published: same context
				if pv, ok := ctxValueInt(ev.Ctx, c10Pub{}); !ok || pv != ev.V {
					e.Violate("C10", "delivered-context", fmt.Sprintf("%s subject: subscriber %d received value %d with a context that is not the one it was published with (ops %v)", kind, id, ev.V, sc.Ops))
				}
			}
			op := curOp[e.K.Cur().ID]
			if op == nil {
				stray++
				return
			}
			op.out.Deliv = append(op.out.Deliv, fmt.Sprintf("s%d@%d:%s", id, counts[id], deliveryName(ev)))
			counts[id]++
		}
		r.OnNextHook = func(*Rec, int) { hook() }
		r.OnTermHook = func(*Rec, byte) { hook() }
		return r.Observer()
	}
	perClient := make([][]int, clients)
	for i, op := range sc.Ops {
		c := op.Client
		if c >= clients {
			c = 0
		}
		perClient[c] = append(perClient[c], i)
	}
	exec := func(i int) {
		op := sc.Ops[i]
		r := &opRec{in: subjIn{Op: op.Op, A: op.A}, client: op.Client}
		recs[i] = r
		me := e.K.Cur().ID
		curOp[me] = r
		r.call = e.Step()
		e.K.Log("op " + r.in.String())
		e.Yield()
		switch op.Op {
		case "next":
			subject.NextWithContext(context.WithValue(context.Background(), c10Pub{}, op.A), op.A)
		case "error":
			subject.Error(ScriptError(op.A))
		case "complete":
			subject.Complete()
		case "subscribe":
			subs[op.A] = subject.Subscribe(mkObserver(op.A))
		case "unsubscribe":
			if s := subs[op.A]; s != nil {
				s.Unsubscribe()
			}
		case "hasobserver":
			r.out.Answer = b2i(subject.HasObserver())
		case "count":
			r.out.Answer = subject.CountObservers()
		case "isclosed":
			r.out.Answer = b2i(subject.IsClosed())
		case "hasthrown":
			r.out.Answer = b2i(subject.HasThrown())
		case "iscompleted":
			r.out.Answer = b2i(subject.IsCompleted())
		}
		e.Yield()
		r.ret = e.Step()
		r.done = true
		delete(curOp, me)
	}
	for c := 0; c < clients; c++ {
		c := c
		e.Go(fmt.Sprintf("client%d", c), func() {
			for _, i := range perClient[c] {
				exec(i)
			}
		})
	}
	e.SettleFor(10 * Unit)
	if e.K.Capped() {
		return
	}
	for _, a := range e.K.Actors() {
		if !a.Done() && a != e.K.Cur() {
			e.Violate("C10", "deadlock", fmt.Sprintf("%s subject: client %s is %s on %s at quiescence (ops %v)", kind, a.Site, a.State(), a.PendingKind(), sc.Ops))
			return
		}
	}
	if stray > 0 {
		e.Violate("C10", "stray-delivery", "a delivery happened outside any operation")
	}
	model := subjModel(kind, mbuf, false)
	if clients == 1 {
		// sequential: exact, operation by operation
		var st interface{} = subjState{Kind: kind, BufSize: mbuf, Cnt: map[int]int{}}
		if kind == "behavior" {
			st = subjState{Kind: kind, BufSize: mbuf, Cnt: map[int]int{}, Last: 900, HasLast: true}
		}
		for i, r := range recs {
			ok, ns := st.(subjState).accept(r.in, r.out)
			if !ok {
				d, a, _ := st.(subjState).step(r.in)
				clause := "sequential:" + r.in.Op
				if kind == "unicast" && r.in.Op == "subscribe" {
					// classify: is it exactly "backlog lost for a subscriber arriving after termination"?
					alt := st.(subjState).clone()
					alt.LateBacklogLost = true
					if ok2, ns2 := alt.accept(r.in, r.out); ok2 {
						clause = "sequential:unicast-backlog-after-termination"
						e.Violate("C10", clause, fmt.Sprintf("unicast subject (buf %d), op #%d %v of %v: observed %s, definition says %s", buf, i, r.in, sc.Ops, r.out.key(), subjOut{d, a}.key()))
						ns2.LateBacklogLost = false
						st = ns2
						continue
					}
				}
				e.Violate("C10", clause, fmt.Sprintf("%s subject (buf %d), op #%d %v of %v: observed %s, definition says %s", kind, buf, i, r.in, sc.Ops, r.out.key(), subjOut{d, a}.key()))
				return
			}
			st = ns
		}
		return
	}
	// The statement makes the five calls linearizable; the diagnostic queries are exact in the
	// sequential sub-mode only (mid-call they legitimately see a terminating subject half emptied).
	// One final query, issued after every client finished, is part of the history.
	final := &opRec{in: subjIn{Op: "count"}, client: clients, call: e.Step()}
	final.out.Answer = subject.CountObservers()
	final.ret = e.Step() + 1
	final.done = true
	recs = append(recs, final)
	var ops []porcupine.Operation
	for _, r := range recs {
		if r == nil || !r.done {
			continue
		}
		switch r.in.Op {
		case "hasobserver", "count", "isclosed", "hasthrown", "iscompleted":
			if r != final {
				continue
			}
		}
		for _, u := range recs {
			if u != nil && u.done && u.in.Op == "unsubscribe" && u.call < r.ret && r.call < u.ret {
				r.in.CutOK = append(r.in.CutOK, u.in.A)
			}
		}
		ops = append(ops, porcupine.Operation{ClientId: r.client, Input: r.in, Call: int64(r.call), Output: r.out, Return: int64(r.ret)})
	}
	// the linearizability check runs after the bubble: its timeout is real time
	e.After(func() { c10Linearizable(e, model, ops, recs, kind, buf, mbuf) })
}

// opRec is one recorded operation of a C10 history.
type opRec struct {
	in     subjIn
	out    subjOut
	call   int
	ret    int
	client int
	done   bool
}

func c10Linearizable(e *Env, model porcupine.Model, ops []porcupine.Operation, recs []*opRec, kind string, buf, mbuf int) {
	res := porcupine.CheckOperationsTimeout(model, ops, 10*time.Second)
	switch res {
	case porcupine.Illegal:
		var sb strings.Builder
		for _, r := range recs {
			fmt.Fprintf(&sb, "[c%d %v @%d-%d -> %s] ", r.client, r.in, r.call, r.ret, r.out.key())
		}
		clause := "not-linearizable"
		if kind == "unicast" && porcupine.CheckOperationsTimeout(subjModel(kind, mbuf, true), ops, 10*time.Second) == porcupine.Ok {
			clause = "not-linearizable:unicast-backlog-after-termination"
		}
		e.Violate("C10", clause, fmt.Sprintf("%s subject (buf %d): history is not linearizable w.r.t. the sequential definition: %s", kind, buf, sb.String()))
	case porcupine.Unknown:
		e.Probe("porcupine-timeout")
	default:
		e.Probe("linearizable")
	}
}

// c10Pub keys the published value in the context of a publication.
type c10Pub struct{}

func ctxValueInt(ctx context.Context, key any) (int, bool) {
	if ctx == nil {
		return 0, false
	}
	v, ok := ctx.Value(key).(int)
	return v, ok
}
