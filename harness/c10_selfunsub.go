package roverif

// C10.selfunsub — observers are dropped from a subject on unsubscription, also when the subscriber (a
// ro.Subscriber handed to Subscribe) unsubscribes itself from inside the very first delivery: the replay of a
// behavior/replay/unicast subject during Subscribe, or the first live notification.

import (
	"fmt"

	"github.com/samber/ro"
)

func init() {
	Register(&Family{
		Name:   "C10.selfunsub",
		Props:  []string{"C10", "C03", "C14"},
		Weight: 1,
		Gen: func(g *Gen) *Scn {
			sc := &Scn{Family: "C10.selfunsub"}
			sc.Sub = subjectKinds[g.Intn(len(subjectKinds))]
			sc.SetInt("buf", g.Range(0, 2))
			sc.SetInt("pre", g.Range(0, 2))             // values published before the subscription
			sc.SetInt("ctor", g.Intn(3))                // NewSubscriber / NewSafeSubscriber / NewUnsafeSubscriber
			sc.SetInt("closed", b2i(g.Bool(0.2)))       // the subscriber is already closed when it subscribes
			sc.SetInt("term", g.PickInt(0, 0, 0, 1, 2)) // the subject is terminated before the subscription: 1 complete, 2 error
			sc.SetInt("seqmode", 1)
			return sc
		},
		Run: func(e *Env) {
			sc := e.Sc
			subject := newSubject(sc.Sub, sc.Int("buf", 1))
			for i := 0; i < sc.Int("pre", 0); i++ {
				subject.Next(10 + i)
			}
			switch sc.Int("term", 0) {
			case 1:
				subject.Complete()
			case 2:
				subject.Error(ScriptError(1))
			}
			var got []string
			var sub ro.Subscriber[int]
			leave := func() {
				if sub != nil {
					sub.Unsubscribe()
				}
			}
			obs := ro.NewObserver(
				func(v int) { got = append(got, fmt.Sprintf("N%d", v)); leave() },
				func(err error) { got = append(got, "E"); leave() },
				func() { got = append(got, "C"); leave() },
			)
			switch sc.Int("ctor", 0) {
			case 1:
				sub = ro.NewSafeSubscriber(obs)
			case 2:
				sub = ro.NewUnsafeSubscriber(obs)
			default:
				sub = ro.NewSubscriber(obs)
			}
			if sc.Int("closed", 0) == 1 {
				sub.Unsubscribe()
			}
			done := false
			e.Go("subscriber", func() { subject.Subscribe(sub); done = true })
			e.Settle()
			if e.K.Capped() {
				return
			}
			describe := func() string {
				return fmt.Sprintf("%s subject (buffer %d, %d value(s) published before, terminated=%d, subscriber closed beforehand=%v): the subscriber received %v", sc.Sub, sc.Int("buf", 1), sc.Int("pre", 0), sc.Int("term", 0), sc.Int("closed", 0) == 1, got)
			}
			if !done {
				e.Violate("C10", "subscribe-blocks", "Subscribe with a subscriber that unsubscribes itself during the first delivery never returned: "+describe())
				return
			}
			gone := len(got) > 0 || sc.Int("closed", 0) == 1
			if gone {
				// the subscriber has left (or was never open): the subject must not keep it
				if n := subject.CountObservers(); n != 0 || subject.HasObserver() {
					e.Violate("C10", "observer-not-dropped", fmt.Sprintf("the subscriber unsubscribed itself, yet the subject still counts %d observer(s) (HasObserver=%v): %s", n, subject.HasObserver(), describe()))
					e.Violate("C14", "subject-keeps-subscriber", fmt.Sprintf("the downstream side (a subscriber of the caller's) has terminated, but its upstream source, the subject, has not let go of it: %d observer(s) left: %s", n, describe()))
					e.Violate("C03", "subject-teardown-not-run", fmt.Sprintf("the subscriber handed to Subscribe was unsubscribed, but the teardown the subject attached for it (removing it from the subject) never ran: %d observer(s) left: %s", n, describe()))
					return
				}
			}
			if sc.Int("term", 0) != 0 {
				return
			}
			before := len(got)
			e.Go("producer", func() { subject.Next(99) })
			e.Settle()
			if gone && len(got) != before {
				e.Violate("C10", "delivery-after-unsubscribe", "a value published after the subscriber had unsubscribed itself was delivered to it: "+describe())
			}
			if !gone && sc.Sub != "async" {
				if len(got) != 1 || got[0] != "N99" {
					e.Violate("C10", "live-value-lost", "nothing was replayed, so the subscriber was still subscribed; the next value must reach it: "+describe())
				} else if n := subject.CountObservers(); n != 0 {
					e.Violate("C10", "observer-not-dropped", fmt.Sprintf("the subscriber unsubscribed itself inside the delivery of that value, yet the subject still counts %d observer(s): %s", n, describe()))
				}
			}
		},
	})
}
