package roverif

// C10.slowunsub — "observers are dropped from the subject on termination": also an observer that is in the
// middle of leaving. A Subscriber made by the caller carries a slow teardown of its own, registered before the
// subject's; its Unsubscribe is parked inside that teardown (closed already, not yet removed from the subject)
// when the subject is terminated from another goroutine. Once Complete/Error has returned the subject counts no
// observer, whatever the other goroutine is still doing.

import (
	"fmt"

	"github.com/samber/ro"
)

func init() {
	Register(&Family{
		Name:   "C10.slowunsub",
		Props:  []string{"C10"},
		Weight: 1,
		Gen: func(g *Gen) *Scn {
			sc := &Scn{Family: "C10.slowunsub"}
			sc.Sub = subjectKinds[g.Intn(len(subjectKinds))]
			sc.SetInt("buf", g.Range(0, 2))
			sc.SetInt("term", g.Range(1, 2)) // 1 complete, 2 error
			sc.SetInt("others", g.Range(0, 2))
			sc.SetInt("seqmode", 1)
			return sc
		},
		Run: func(e *Env) {
			sc := e.Sc
			if sc.Sub == "unicast" && sc.Int("others", 0) > 0 {
				sc.Ints["others"] = 0 // one observer at a time
			}
			subject := newSubject(sc.Sub, sc.Int("buf", 1))
			for i := 0; i < sc.Int("others", 0); i++ {
				subject.Subscribe(ro.NoopObserver[int]())
			}
			release, parked := false, false
			sub := ro.NewSubscriber(ro.NoopObserver[int]())
			sub.Add(func() {
				parked = true
				for !release {
					simSleep(Unit) // (the teardown is slow: it polls on the simulated clock)
				}
			})
			subject.Subscribe(sub)
			left := false
			e.Go("leaver", func() { sub.Unsubscribe(); left = true })
			e.Settle()
			if e.K.Capped() || !parked {
				return
			}
			terminated := false
			e.Go("terminator", func() {
				if sc.Int("term", 1) == 1 {
					subject.Complete()
				} else {
					subject.Error(ScriptError(1))
				}
				terminated = true
				e.Yield()
			})
			e.Settle()
			if e.K.Capped() {
				return
			}
			if !terminated {
				e.Violate("C10", "deadlock", fmt.Sprintf("%s subject: the terminal call does not return while an observer is in the middle of its Unsubscribe", sc.Sub))
				release = true
				return
			}
			n, has := subject.CountObservers(), subject.HasObserver()
			release = true
			e.SettleFor(5 * Unit)
			if n != 0 || has {
				e.Violate("C10", "observer-not-dropped", fmt.Sprintf("%s subject: the terminal call has returned, yet the subject counts %d observer(s) (HasObserver=%v): the observer that was in the middle of leaving (closed, its removal from the subject not run yet) was not dropped on termination", sc.Sub, n, has))
				return
			}
			if !e.K.Capped() && !left {
				e.Violate("C10", "deadlock", fmt.Sprintf("%s subject: Unsubscribe of the leaving observer never returned", sc.Sub))
			}
		},
	})
}
