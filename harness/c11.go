package roverif

import (
	"context"
	"fmt"
	"sort"
	"strings"
	"sync/atomic"

	"github.com/samber/ro"
)

// ---- sequential model of Share / connectable (from the statement and the option docs) --------------

type shareModel struct {
	connectable bool
	kind        string // connector kind
	buf         int
	resetErr    bool
	resetCompl  bool
	resetZero   bool
	resetDisc   bool

	subj      *subjState // current subject (nil = none yet / reset)
	live      bool       // an upstream subscription is live
	refCount  int
	upSubs    int
	upTears   int
	cnt       map[int]int
	joined    map[int]*subjState // which subject instance each live subscriber joined
	connected bool
}

func (m *shareModel) newSubject() *subjState {
	st := subjState{Kind: m.kind, BufSize: m.buf, Cnt: m.cnt}
	if m.kind == "behavior" {
		st.Last, st.HasLast = 900, true
	}
	return &st
}

// apply one subject-level step on st and return deliveries; st is updated in place
func (m *shareModel) on(st *subjState, in subjIn) []string {
	st.Cnt = m.cnt
	d, _, ns := st.step(in)
	for k, v := range ns.Cnt {
		m.cnt[k] = v
	}
	ns.Cnt = m.cnt
	*st = ns
	return d
}

// reentrantOK: subscribing from inside a terminal callback is only exercised when that terminal resets the
// shared state (otherwise the newcomer would have to join the very subject that is busy broadcasting).
func (m *shareModel) reentrantOK(term string) bool {
	if m.connectable {
		return false
	}
	if term == "srcE" {
		return m.resetErr
	}
	return m.resetCompl
}

func (m *shareModel) release() {
	if m.live {
		m.live = false
		m.upTears++
	}
}

// step applies one scenario operation and returns the deliveries the definition prescribes.
func (m *shareModel) step(op OpSpec) []string {
	switch op.Op {
	case "sub":
		if m.connectable {
			if m.subj == nil {
				m.subj = m.newSubject()
			}
			d := m.on(m.subj, subjIn{Op: "subscribe", A: op.A})
			m.joined[op.A] = m.subj
			return d
		}
		m.refCount++
		if m.subj == nil {
			m.subj = m.newSubject()
			m.upSubs++
			m.live = true
		}
		st := m.subj
		d := m.on(st, subjIn{Op: "subscribe", A: op.A})
		m.joined[op.A] = st
		if st.Status != 0 {
			// joined a terminated subject: receives the terminal at once and leaves
			m.refCount--
			delete(m.joined, op.A)
		}
		return d
	case "unsub":
		st := m.joined[op.A]
		if st == nil {
			return nil
		}
		m.on(st, subjIn{Op: "unsubscribe", A: op.A})
		delete(m.joined, op.A)
		if m.connectable {
			return nil
		}
		m.refCount--
		if m.refCount == 0 && m.resetZero && m.subj == st && st.Status == 0 {
			m.release()
			m.subj = nil
		}
		return nil
	case "subq":
		// a subscriber that leaves from inside its first delivery (the connector's replay, during Subscribe)
		d := m.step(OpSpec{Client: op.Client, Op: "sub", A: op.A})
		if len(d) > 0 {
			m.step(OpSpec{Client: op.Client, Op: "unsub", A: op.A})
		}
		return d
	case "twin":
		return nil // the other observable built from the same operator value ends: no effect here
	case "srcN":
		if !m.live || m.subj == nil {
			return nil
		}
		return m.on(m.subj, subjIn{Op: "next", A: op.A})
	case "srcE", "srcC":
		if !m.live || m.subj == nil {
			return nil
		}
		st := m.subj
		in := subjIn{Op: "complete"}
		reset := m.resetCompl
		if op.Op == "srcE" {
			in = subjIn{Op: "error", A: op.A}
			reset = m.resetErr
		}
		var leaving []int
		leaving = append(leaving, st.Subs...)
		d := m.on(st, in)
		m.release()
		for _, id := range leaving {
			delete(m.joined, id)
			if !m.connectable {
				m.refCount--
			}
		}
		if m.connectable {
			m.connected = false
			if m.resetDisc {
				m.subj = m.newSubject()
			}
			return d
		}
		if reset {
			m.subj = nil
		}
		return d
	case "srcE>sub", "srcC>sub":
		// the source terminates; a new subscriber (id B) subscribes from inside the terminal callback of a
		// current subscriber. With the matching reset option the shared state was reset before the terminal
		// was handed out, so the newcomer starts a fresh execution.
		term := OpSpec{Client: op.Client, Op: op.Op[:4], A: op.A}
		host := m.live && m.subj != nil && len(m.subj.Subs) > 0
		d := m.step(term)
		if host && m.reentrantOK(term.Op) {
			d = append(d, m.step(OpSpec{Client: op.Client, Op: "sub", A: op.B})...)
		}
		return d
	case "connect":
		if !m.connected {
			if m.subj == nil {
				m.subj = m.newSubject()
			}
			m.connected = true
			m.upSubs++
			m.live = true
		}
		return nil
	case "disconnect":
		if m.connected {
			m.connected = false
			m.release()
			if m.resetDisc {
				m.subj = m.newSubject()
			}
		}
		return nil
	}
	panic("c11 model: " + op.Op)
}

func genShareOps(g *Gen, connectable bool, clients int) []OpSpec {
	n := g.Range(2, 10)
	if g.Tier == "thorough" {
		n = g.Range(2, 14)
	}
	var ops []OpSpec
	nextSub, nextVal := 0, 1
	live := map[int]int{}
	for i := 0; i < n; i++ {
		c := g.Intn(clients)
		x := g.Intn(20)
		switch {
		case x < 5 && nextSub < 4:
			ops = append(ops, OpSpec{Client: c, Op: "sub", A: nextSub})
			live[nextSub] = c
			nextSub++
		case x < 8 && len(live) > 0:
			ids := make([]int, 0, len(live))
			for id := range live {
				ids = append(ids, id)
			}
			sort.Ints(ids)
			id := ids[g.Intn(len(ids))]
			ops = append(ops, OpSpec{Client: live[id], Op: "unsub", A: id})
			delete(live, id)
		case x < 14:
			ops = append(ops, OpSpec{Client: c, Op: "srcN", A: nextVal})
			nextVal++
		case x < 15 && !connectable && clients == 1 && nextSub < 4 && g.Bool(0.4):
			// terminal + a subscription made from inside a subscriber's terminal callback (sequential mode)
			ops = append(ops, OpSpec{Client: c, Op: g.Pick("srcE>sub", "srcC>sub"), A: g.Intn(4), B: nextSub})
			live = map[int]int{nextSub: c}
			nextSub++
		case x < 15:
			ops = append(ops, OpSpec{Client: c, Op: "srcC"})
		case x < 16:
			ops = append(ops, OpSpec{Client: c, Op: "srcE", A: g.Intn(4)})
		default:
			if connectable {
				ops = append(ops, OpSpec{Client: c, Op: g.Pick("connect", "connect", "disconnect")})
			} else {
				ops = append(ops, OpSpec{Client: c, Op: "srcN", A: nextVal})
				nextVal++
			}
		}
	}
	return ops
}

func init() {
	gen := func(name string, clients int) func(g *Gen) *Scn {
		return func(g *Gen) *Scn {
			sc := &Scn{Family: name}
			sc.Sub = g.Pick("share", "share", "sharereplay", "connectable")
			sc.SetInt("connector", g.Intn(6))        // publish, behavior, replay1, replay2, replay0, replay-unlimited
			sc.SetInt("rbuf", g.PickInt(0, 1, 1, 2)) // ShareReplay's buffer size
			sc.SetInt("rE", g.Intn(2))
			sc.SetInt("rC", g.Intn(2))
			sc.SetInt("rZ", g.Intn(2))
			sc.SetInt("rD", g.Intn(2))
			sc.SetInt("cvar", g.Intn(6))             // which constructor builds the connectable observable
			sc.SetInt("twin", g.PickInt(0, 0, 1, 2)) // the operator value has been applied to another source before (1: which completed, 2: failed)
			sc.SetInt("cwc", g.Intn(2))              // connect with ConnectWithContext: the source is subscribed with that context
			if clients > 1 {
				sc.SetInt("clients", g.Range(2, 3))
			} else {
				sc.SetInt("seqmode", 1)
			}
			sc.Sources = []SrcSpec{{Mode: "manual"}}
			sc.Ops = genShareOps(g, sc.Sub == "connectable", sc.Int("clients", 1))
			if sc.Sub == "share" && sc.Int("connector", 0) == 1 && clients == 1 && g.Bool(0.5) {
				// (behavior connector: it replays its current value inside Subscribe)
				at := g.Intn(len(sc.Ops) + 1)
				sc.Ops = append(sc.Ops[:at], append([]OpSpec{{Client: 0, Op: "subq", A: 8}}, sc.Ops[at:]...)...)
			}
			if sc.Int("twin", 0) > 0 && sc.Sub != "connectable" {
				at := g.Intn(len(sc.Ops) + 1)
				sc.Ops = append(sc.Ops[:at], append([]OpSpec{{Client: 0, Op: "twin"}}, sc.Ops[at:]...)...)
			}
			if sc.Sub == "connectable" && clients == 1 && g.Bool(0.3) {
				// a cold source that plays [101 102 complete] synchronously inside every Connect
				sc.SetInt("syncsrc", 1)
				sc.Sources = []SrcSpec{{Mode: "sync", Script: []Step{{K: "N", V: 101}, {K: "N", V: 102}, {K: "C"}}}}
				var ops []OpSpec
				for _, op := range sc.Ops {
					if !strings.HasPrefix(op.Op, "src") {
						ops = append(ops, op)
					}
				}
				ops = append(ops, OpSpec{Op: "connect"}, OpSpec{Op: "sub", A: 7}, OpSpec{Op: "connect"})
				sc.Ops = ops
			} else if sc.Sub != "connectable" && clients == 1 && g.Bool(0.2) {
				// Share over a cold source that plays its whole script synchronously inside the first Subscribe
				// (it has terminated before Share gets to look at anything again)
				sc.SetInt("syncsrc", 1)
				end := Step{K: "C"}
				if g.Bool(0.4) {
					end = Step{K: "E", V: 2}
				}
				sc.Sources = []SrcSpec{{Mode: "sync", Script: []Step{{K: "N", V: 101}, {K: "N", V: 102}, end}}}
				var ops []OpSpec
				for _, op := range sc.Ops {
					if !strings.HasPrefix(op.Op, "src") && op.Op != "subq" {
						ops = append(ops, op)
					}
				}
				ops = append(ops, OpSpec{Op: "sub", A: 7}, OpSpec{Op: "unsub", A: 7}, OpSpec{Op: "sub", A: 9})
				sc.Ops = ops
			}
			return sc
		}
	}
	Register(&Family{Name: "C11.seq", Props: []string{"C11"}, Weight: 5, Gen: gen("C11.seq", 1), Run: runC11})
	Register(&Family{Name: "C11.conc", Props: []string{"C11", "C13"}, Weight: 3, Gen: gen("C11.conc", 2), Run: runC11})
	// the race detector's view of Share's bookkeeping: the source terminates on one goroutine exactly while
	// the last subscriber leaves (and a new one arrives) on others, over the whole cube of reset options
	Register(&Family{Name: "C13.share", Props: []string{"C13"}, Weight: 60, Gen: func(g *Gen) *Scn {
		sc := &Scn{Family: "C13.share", Sub: g.Pick("share", "share", "sharereplay")}
		sc.SetInt("connector", g.Intn(6))
		sc.SetInt("rbuf", g.PickInt(0, 1, 2))
		sc.SetInt("rE", g.Intn(2))
		sc.SetInt("rC", g.Intn(2))
		sc.SetInt("rZ", g.Intn(2))
		sc.SetInt("clients", 3)
		sc.Sources = []SrcSpec{{Mode: "manual"}}
		term := OpSpec{Client: 0, Op: "srcE", A: 1}
		if g.Bool(0.4) {
			term = OpSpec{Client: 0, Op: "srcC"}
		}
		// client 0 is the source, client 1 holds the subscribers that leave, client 2 brings a newcomer
		sc.Ops = []OpSpec{{Client: 1, Op: "sub", A: 0}}
		if g.Bool(0.5) {
			sc.Ops = append(sc.Ops, OpSpec{Client: 1, Op: "sub", A: 1}, OpSpec{Client: 1, Op: "unsub", A: 1})
		}
		sc.Ops = append(sc.Ops, OpSpec{Client: 0, Op: "srcN", A: 1}, term, OpSpec{Client: 1, Op: "unsub", A: 0}, OpSpec{Client: 2, Op: "sub", A: 2}, OpSpec{Client: 0, Op: "srcN", A: 2})
		return sc
	}, Run: runC11})
}

func runC11(e *Env) {
	sc := e.Sc
	src := e.NewSrc(sc.Sources[0])
	kinds := []string{"publish", "behavior", "replay", "replay", "replay", "replay"}
	bufs := []int{0, 0, 1, 2, 0, -1}
	ci := sc.Int("connector", 0)
	m := &shareModel{kind: kinds[ci], buf: bufs[ci], cnt: map[int]int{}, joined: map[int]*subjState{}}
	connector := func() ro.Subject[int] { return newSubject(kinds[ci], bufs[ci]) }
	var shared ro.Observable[int]
	var conn ro.ConnectableObservable[int]
	var endTwin func()
	switch sc.Sub {
	case "share":
		m.resetErr, m.resetCompl, m.resetZero = sc.Int("rE", 0) == 1, sc.Int("rC", 0) == 1, sc.Int("rZ", 0) == 1
		op := ro.ShareWithConfig(ro.ShareConfig[int]{Connector: connector, ResetOnError: m.resetErr, ResetOnComplete: m.resetCompl, ResetOnRefCountZero: m.resetZero})
		endTwin = c11Twin(e, sc, op)
		shared = op(src.Obs())
	case "sharereplay":
		m.kind, m.buf = "replay", sc.Int("rbuf", 1)
		m.resetErr, m.resetCompl, m.resetZero = true, false, sc.Int("rZ", 0) == 1
		op := ro.ShareReplayWithConfig[int](m.buf, ro.ShareReplayConfig{ResetOnRefCountZero: m.resetZero})
		endTwin = c11Twin(e, sc, op)
		shared = op(src.Obs())
	default:
		m.connectable = true
		m.resetDisc = sc.Int("rD", 0) == 1
		cfg := ro.ConnectableConfig[int]{Connector: connector, ResetOnDisconnect: m.resetDisc}
		subscribeFn := func(dest ro.Observer[int]) ro.Teardown {
			return src.Obs().Subscribe(dest).Unsubscribe
		}
		subscribeFnCtx := func(ctx context.Context, dest ro.Observer[int]) ro.Teardown {
			return src.Obs().SubscribeWithContext(ctx, dest).Unsubscribe
		}
		defaults := kinds[ci] == "publish" && m.resetDisc // what the constructors without a config use
		switch cv := sc.Int("cvar", 0); {
		case cv == 1 && defaults:
			conn = ro.Connectable(src.Obs())
		case cv == 2 && defaults:
			conn = ro.NewConnectableObservable(subscribeFn)
		case cv == 3:
			conn = ro.NewConnectableObservableWithConfig(subscribeFn, cfg)
		case cv == 4 && defaults:
			conn = ro.NewConnectableObservableWithContext(subscribeFnCtx)
		case cv == 5:
			conn = ro.NewConnectableObservableWithConfigAndContext(subscribeFnCtx, cfg)
		default:
			conn = ro.ConnectableWithConfig(src.Obs(), cfg)
		}
		shared = conn
		m.subj = m.newSubject()
	}
	clients := sc.Int("clients", 1)
	subs := map[int]ro.Subscription{}
	counts := map[int]int{}
	recs := map[int]*Rec{}
	var cur []string   // deliveries of the operation in progress (sequential mode)
	var inside *OpSpec // a subscription to be made from inside the next terminal callback
	var mkObserver func(id int) ro.Observer[int]
	mkObserver = func(id int) ro.Observer[int] {
		r := e.NewRec(fmt.Sprintf("s%d", id))
		recs[id] = r
		hook := func() {
			ev := r.Events[len(r.Events)-1]
			cur = append(cur, fmt.Sprintf("s%d@%d:%s", id, counts[id], ev.String()))
			counts[id]++
		}
		r.OnNextHook = func(*Rec, int) { hook() }
		r.OnTermHook = func(*Rec, byte) {
			hook()
			if op := inside; op != nil {
				inside = nil
				e.K.Log(fmt.Sprintf("subscriber %d subscribes %d from inside its terminal callback", id, op.B))
				subs[op.B] = shared.Subscribe(mkObserver(op.B))
			}
		}
		return r.Observer()
	}
	var connSub ro.Subscription
	var connPub uint32 // connSub is handed between client actors: publish/acquire it like a real program would
	maxLiveSeen := 0
	exec := func(op OpSpec) {
		e.K.Log(fmt.Sprintf("op %s %d", op.Op, op.A))
		switch op.Op {
		case "sub":
			subs[op.A] = shared.Subscribe(mkObserver(op.A))
		case "unsub":
			if s := subs[op.A]; s != nil {
				s.Unsubscribe()
			}
		case "subq":
			// a Subscriber made by the caller, which unsubscribes itself inside its first delivery
			id := op.A
			var self ro.Subscriber[int]
			quit := func(k string) {
				cur = append(cur, fmt.Sprintf("s%d@%d:%s", id, counts[id], k))
				counts[id]++
				if self != nil {
					self.Unsubscribe()
				}
			}
			self = ro.NewSubscriber(ro.NewObserver(
				func(v int) { quit(fmt.Sprintf("N%d", v)) },
				func(err error) { quit("E(" + errCode(err) + ")") },
				func() { quit("C") },
			))
			subs[id] = shared.Subscribe(self)
		case "twin":
			if endTwin != nil {
				endTwin()
				endTwin = nil
			}
		case "srcN":
			src.Push(Step{K: "N", V: op.A})
		case "srcE":
			src.Push(Step{K: "E", V: op.A})
		case "srcC":
			src.Push(Step{K: "C"})
		case "srcE>sub", "srcC>sub":
			if m.reentrantOK(op.Op[:4]) {
				o := op
				inside = &o
			}
			if op.Op == "srcE>sub" {
				src.Push(Step{K: "E", V: op.A})
			} else {
				src.Push(Step{K: "C"})
			}
			inside = nil
		case "connect":
			if sc.Int("cwc", 0) == 1 {
				connSub = conn.ConnectWithContext(context.WithValue(context.Background(), c11ConnectKey{}, "connect"))
				// the constructors that hand the context to the subscribe function / subscribe an observable
				if cv := sc.Int("cvar", 0); cv != 2 && cv != 3 {
					for _, ctx := range src.Ctxs {
						if ctx == nil || ctx.Value(c11ConnectKey{}) != "connect" {
							e.Violate("C11", "connect-context-lost", fmt.Sprintf("ConnectWithContext(ctx): the source was subscribed with a context that does not carry the values of ctx (constructor variant %d)", cv))
							break
						}
					}
				}
			} else {
				connSub = conn.Connect()
			}
			atomic.StoreUint32(&connPub, 1)
		case "disconnect":
			if atomic.LoadUint32(&connPub) == 1 && connSub != nil {
				connSub.Unsubscribe()
			}
		}
		if src.Live > maxLiveSeen {
			maxLiveSeen = src.Live
		}
	}
	if clients == 1 {
		var hist []string
		for i, op := range sc.Ops {
			cur = nil
			done := false
			e.Go("client", func() { exec(op); done = true })
			e.Settle()
			if e.K.Capped() {
				return
			}
			hist = append(hist, fmt.Sprintf("%s(%d)", op.Op, op.A))
			if !done {
				e.Violate("C11", "operation-blocks", fmt.Sprintf("%s %v: operation #%d %s never returned (history %s)", sc.Sub, sc.Ints, i, hist[len(hist)-1], strings.Join(hist, " ")))
				return
			}
			upBefore := m.upSubs
			want := m.step(op)
			if sc.Int("syncsrc", 0) == 1 && (op.Op == "connect" || op.Op == "sub") && m.upSubs > upBefore {
				// the connection was made: the cold source played its script inside Connect
				for _, st := range sc.Sources[0].Script {
					switch st.K {
					case "N":
						want = append(want, m.step(OpSpec{Op: "srcN", A: st.V})...)
					case "E":
						want = append(want, m.step(OpSpec{Op: "srcE", A: st.V})...)
					default:
						want = append(want, m.step(OpSpec{Op: "srcC"})...)
					}
				}
			}
			got := append([]string(nil), cur...)
			sort.Strings(want)
			sort.Strings(got)
			if fmt.Sprint(want) != fmt.Sprint(got) {
				e.Violate("C11", "deliveries:"+op.Op, fmt.Sprintf("%s %v: after %s the subscribers received %v, the definition prescribes %v", sc.Sub, sc.Ints, strings.Join(hist, " "), got, want))
				return
			}
			if src.Subs != m.upSubs || src.Teardowns != m.upTears {
				e.Violate("C11", "upstream-count:"+op.Op, fmt.Sprintf("%s %v: after %s the source was subscribed %d times and released %d times, the definition prescribes %d and %d", sc.Sub, sc.Ints, strings.Join(hist, " "), src.Subs, src.Teardowns, m.upSubs, m.upTears))
				return
			}
		}
		if src.MaxLiveStrict > 1 {
			e.Violate("C11", "two-upstream-subscriptions", fmt.Sprintf("%s: %d subscriptions to the source were live at once", sc.Sub, src.MaxLiveStrict))
		}
		return
	}
	// concurrent: invariants only
	per := make([][]OpSpec, clients)
	for _, op := range sc.Ops {
		c := op.Client % clients
		if strings.HasPrefix(op.Op, "src") {
			c = 0 // the source itself is sequential: one producer goroutine
		}
		per[c] = append(per[c], op)
	}
	for c := 0; c < clients; c++ {
		c := c
		e.Go(fmt.Sprintf("client%d", c), func() {
			for _, op := range per[c] {
				e.Yield()
				func() {
					defer func() {
						if r := recover(); r != nil {
							e.Violate("C11", "panic", fmt.Sprintf("%s: operation %s panicked: %v", sc.Sub, op.Op, r))
						}
					}()
					exec(op)
				}()
			}
		})
	}
	e.SettleFor(10 * Unit)
	if e.K.Capped() {
		return
	}
	for _, a := range e.K.Actors() {
		if !a.Done() && a != e.K.Cur() {
			e.Violate("C11", "deadlock", fmt.Sprintf("%s: %s is %s on %s at quiescence", sc.Sub, a.Site, a.State(), a.PendingKind()))
			return
		}
	}
	if src.MaxLiveStrict > 1 {
		e.Violate("C11", "two-upstream-subscriptions", fmt.Sprintf("%s %v: %d subscriptions to the source were live at once, none of them inside its own terminal call (ops %v)", sc.Sub, sc.Ints, src.MaxLiveStrict, sc.Ops))
	}
	for id, r := range recs {
		if msg := r.GrammarError(); msg != "" {
			e.Violate("C01", "grammar", fmt.Sprintf("subscriber %d: %s", id, msg))
		}
		// every subscriber's values are a subsequence (in order) of the values the source emitted
		last := -1
		for _, v := range r.Values() {
			if v == 900 {
				continue
			}
			if v <= last {
				e.Violate("C11", "subscriber-order", fmt.Sprintf("%s: subscriber %d received %v: not in source order", sc.Sub, id, r.Values()))
				break
			}
			if last >= 0 && v != last+1 && !m.connectable {
				// the source emits 1, 2, 3, ...: while it is subscribed a subscriber receives every value of
				// the execution it joined (what it was replayed directly precedes what it then receives live)
				e.Violate("C11", "subscriber-gap", fmt.Sprintf("%s %v: subscriber %d received %v: value(s) between %d and %d reached the other subscribers (or the replay buffer) but not this one (ops %v)", sc.Sub, sc.Ints, id, r.Values(), last, v, sc.Ops))
				break
			}
			last = v
		}
	}
}

type c11ConnectKey struct{}

// c11Twin applies the operator value to another source first and gives that shared observable a subscriber
// and a value; the returned function ends its source (the scenario's "twin" operation does, at any point of
// the judged observable's life) and lets the subscriber leave. An operator value is a recipe: nothing of
// this may show in the observable built from it afterwards.
func c11Twin(e *Env, sc *Scn, op func(ro.Observable[int]) ro.Observable[int]) func() {
	k := sc.Int("twin", 0)
	if k == 0 {
		return nil
	}
	pre := e.NewSrc(SrcSpec{Mode: "manual"})
	a := op(pre.Obs())
	sub := a.Subscribe(ro.NoopObserver[int]())
	pre.Push(Step{K: "N", V: 1})
	return func() {
		if k == 1 {
			pre.Push(Step{K: "C"})
		} else {
			pre.Push(Step{K: "E", V: 3})
		}
		sub.Unsubscribe()
	}
}
