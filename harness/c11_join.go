package roverif

// C11.join — "later subscribers join the running execution": a connectable observable over a source that
// emits synchronously inside Subscribe (Connect does not return while the execution runs), connected from
// one goroutine; the producer pauses before its j-th value until a second observer, subscribing from
// another goroutine, is in. That observer receives the rest of the execution.

import (
	"context"
	"fmt"

	"github.com/samber/ro"
)

func init() {
	Register(&Family{
		Name:   "C11.join",
		Props:  []string{"C11"},
		Weight: 1,
		Gen: func(g *Gen) *Scn {
			sc := &Scn{Family: "C11.join"}
			n := g.Range(1, 4)
			var script []Step
			for i := 0; i < n; i++ {
				script = append(script, Step{K: "N", V: 10 + i})
			}
			if g.Bool(0.3) {
				script = append(script, Step{K: "E", V: 2})
			} else {
				script = append(script, Step{K: "C"})
			}
			sc.Sources = []SrcSpec{{Mode: "sync", Script: script}}
			sc.SetInt("j", g.Range(0, n)) // the producer waits before step j (values and the terminal alike)
			sc.SetInt("cvar", g.Intn(6))
			sc.SetInt("rD", g.Intn(2))
			return sc
		},
		Run: func(e *Env) {
			sc := e.Sc
			src := e.NewSrc(sc.Sources[0])
			script := sc.Sources[0].Script
			j := sc.Int("j", 0)
			if j >= len(script) {
				j = len(script) - 1
			}
			cfg := ro.ConnectableConfig[int]{Connector: func() ro.Subject[int] { return ro.NewPublishSubject[int]() }, ResetOnDisconnect: sc.Int("rD", 0) == 1}
			plain := func(dest ro.Observer[int]) ro.Teardown { return src.Obs().Subscribe(dest).Unsubscribe }
			withCtx := func(ctx context.Context, dest ro.Observer[int]) ro.Teardown {
				return src.Obs().SubscribeWithContext(ctx, dest).Unsubscribe
			}
			var conn ro.ConnectableObservable[int]
			switch sc.Int("cvar", 0) {
			case 1:
				conn = ro.Connectable(src.Obs())
			case 2:
				conn = ro.NewConnectableObservable(plain)
			case 3:
				conn = ro.NewConnectableObservableWithConfig(plain, cfg)
			case 4:
				conn = ro.NewConnectableObservableWithContext(withCtx)
			case 5:
				conn = ro.NewConnectableObservableWithConfigAndContext(withCtx, cfg)
			default:
				conn = ro.ConnectableWithConfig(src.Obs(), cfg)
			}
			first, late := e.NewRec("first"), e.NewRec("late")
			lateIn, gaveUp, emitted, pausing := false, false, 0, false
			src.BeforeCall = func(st Step) {
				if emitted == j {
					pausing = true
					e.Yield() // (a step that is not a spin iteration: the actors that spin on the flag re-evaluate it)
					// the execution is running: let the late observer in before going on
					for i := 0; !lateIn && i < 3000; i++ {
						e.K.Gosched()
					}
					gaveUp = !lateIn
				}
				emitted++
			}
			conn.Subscribe(first.Observer())
			e.Go("connecter", func() { conn.Connect() })
			e.Go("late-subscriber", func() {
				e.WaitFor(func() bool { return pausing })
				conn.Subscribe(late.Observer())
				lateIn = true
				e.Yield()
			})
			e.SettleFor(10 * Unit)
			if e.K.Capped() {
				return
			}
			if gaveUp || (pausing && !lateIn) {
				e.Violate("C11", "late-subscriber-cannot-join", fmt.Sprintf("connectable observable (constructor variant %d) over a synchronous source playing [%s]: an observer that subscribed from another goroutine while the execution was running (before step %d) was still not in at quiescence (the producer yielding for it): it cannot join the running execution", sc.Int("cvar", 0), traceN(scriptToN(script)), j))
				return
			}
			want := scriptToN(script)
			if got := eventsToN(first.Events); !sameN(got, want) {
				e.Violate("C11", "join:first-observer", fmt.Sprintf("the observer present at Connect received [%s], the source played [%s]", traceN(got), traceN(want)))
			}
			if got := eventsToN(late.Events); !sameN(got, want[j:]) {
				e.Violate("C11", "join:late-observer", fmt.Sprintf("the observer that joined before step %d of [%s] received [%s]; all current subscribers receive the same notifications: [%s]", j, traceN(want), traceN(got), traceN(want[j:])))
			}
		},
	})
}
