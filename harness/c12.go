package roverif

import (
	"fmt"
	"strings"

	"github.com/samber/ro"
)

// deterministic cold stages: the trace of one subscription is a function of the source scripts only
func coldDeterministic(d *StageDef) bool {
	return !d.Hot && !d.Async && !d.Time && !d.Handoff
}

func init() {
	Register(&Family{
		Name:   "C12.resub",
		Props:  []string{"C12", "C07"},
		Weight: 5,
		Gen: func(g *Gen) *Scn {
			sc := &Scn{Family: "C12.resub"}
			mode := g.Pick("sync", "sync", "sync", "timed")
			script := genScript(g, 10, 4, "CCE", mode == "timed")
			sc.Sources = []SrcSpec{{Mode: mode, Script: script}}
			genChain(g, sc, g.PickInt(1, 1, 2, 2, 3, 4), nvalues(script), "sync", func(d *StageDef) bool {
				// a timed source runs on its own actor: only single-source stages keep the trace schedule independent
				return coldDeterministic(d) && (mode == "sync" || d.Aux == 0)
			})
			sc.Sub = "sequential"
			sc.SetInt("k", g.Range(2, 4))
			sc.SetInt("vary", g.PickInt(0, 0, 1, 2))
			sc.SetInt("seqmode", 1)
			sc.SetInt("raw", g.PickInt(0, 0, 1, 1, 2, 3))
			return sc
		},
		Valid: c12Valid,
		Run:   runC12,
	})
	Register(&Family{
		Name:   "C12.concurrent",
		Props:  []string{"C12", "C13"},
		Weight: 3,
		Gen: func(g *Gen) *Scn {
			sc := &Scn{Family: "C12.concurrent"}
			script := genScript(g, 10, 4, "CCE", false)
			sc.Sources = []SrcSpec{{Mode: "sync", Script: script}}
			genChain(g, sc, g.PickInt(1, 1, 2, 3), nvalues(script), "sync", coldDeterministic)
			sc.Sub = "concurrent"
			sc.SetInt("k", g.Range(2, 3))
			sc.SetInt("raw", g.PickInt(0, 0, 1, 1, 2, 3))
			return sc
		},
		Valid: c12Valid,
		Run:   runC12,
	})
	Register(&Family{
		Name:   "C12.opvalue",
		Props:  []string{"C12"},
		Weight: 3,
		Gen: func(g *Gen) *Scn {
			sc := &Scn{Family: "C12.opvalue"}
			// one operator value applied to 2..3 different sources
			n := g.Range(2, 3)
			for i := 0; i < n; i++ {
				sc.Sources = append(sc.Sources, SrcSpec{Mode: "sync", Script: genScript(g, 10*(i+1), 3, "CCE", false)})
			}
			names := stagesWhere(func(d *StageDef) bool { return coldDeterministic(d) })
			name := names[g.Intn(len(names))]
			d := catalog[name]
			sc.SetInt("mains", n)
			// auxiliary sources of the operator value (synchronous, shared by every application of it)
			var p []int
			for i := 0; i < d.Aux; i++ {
				sc.Sources = append(sc.Sources, SrcSpec{Mode: "sync", Script: genScript(g, 50+10*i, 3, "CCE", false)})
				p = append(p, len(sc.Sources)-1)
			}
			sc.Stages = []StageSpec{{Op: name, P: append(p, d.GenP(g, 3)...)}}
			sc.Sub = "opvalue"
			sc.SetInt("order", g.Intn(6))
			sc.SetInt("seqmode", 1)
			sc.SetInt("raw", g.PickInt(0, 0, 1, 1, 2, 3))
			return sc
		},
		Valid: c12Valid,
		Run:   runC12OpValue,
	})
}

// collectTrace subscribes once and runs to completion; returns the trace.
func collectTrace(e *Env, o ro.Observable[int], name string) (*Rec, *SubHandle) {
	rec := e.NewRec(name)
	h := e.Subscribe(o, rec.Obs(), nil)
	e.SettleFor(200 * Unit)
	if !e.K.Capped() && (!h.Ret() || h.Sub() == nil || !h.Sub().IsClosed()) {
		// the pipeline does not end by itself within the budget (e.g. unlimited Retry over a failing
		// source): no complete trace to compare; stop it so that it cannot disturb the next subscription
		e.unterminated = true
		if h.Ret() && h.Sub() != nil {
			h.Sub().Unsubscribe()
			e.SettleFor(10 * Unit)
		}
	}
	return rec, h
}

func buildPipelineFrom(e *Env, sc *Scn) (ro.Observable[int], []*Src) {
	var srcs []*Src
	for _, sp := range sc.Sources {
		srcs = append(srcs, e.NewSrc(sp))
	}
	obs := make([]ro.Observable[int], len(srcs))
	get := func(i int) ro.Observable[int] {
		if i < 0 || i >= len(srcs) {
			return ro.Empty[int]()
		}
		if obs[i] == nil {
			obs[i] = srcs[i].Obs()
		}
		return obs[i]
	}
	return e.BuildChain(get(0), sc.Stages, get), srcs
}

func runC12(e *Env) {
	defer e.CheckHeld("C12")
	sc := e.Sc
	// reference: first subscription of a freshly built identical pipeline
	fresh, fsrcs := buildPipelineFrom(e, sc)
	frec, _ := collectTrace(e, fresh, "fresh")
	if e.K.Capped() {
		return
	}
	if e.unterminated {
		e.Probe("unterminated-pipeline")
		return
	}
	want := frec.Trace()
	wantSubs := make([]int, len(fsrcs))
	for i, s := range fsrcs {
		wantSubs[i] = s.Subs
	}
	// "vary": from its second subscription on the main source plays another script (nothing but the
	// terminal, or other values): what a subscription delivers depends on what its own source run emits,
	// never on what an earlier subscription saw. Reference: a fresh pipeline whose source plays that script.
	variant := c12Variant(sc)
	wantVar, wantSubsVar := want, wantSubs
	if variant != nil && sc.Sub == "sequential" {
		vsc := *sc
		vsc.Sources = append([]SrcSpec(nil), sc.Sources...)
		vsc.Sources[0].Script = variant
		fresh2, f2srcs := buildPipelineFrom(e, &vsc)
		f2rec, _ := collectTrace(e, fresh2, "fresh-variant")
		if e.K.Capped() {
			return
		}
		if e.unterminated {
			e.Probe("unterminated-pipeline")
			return
		}
		wantVar = f2rec.Trace()
		wantSubsVar = make([]int, len(f2srcs))
		for i, s := range f2srcs {
			wantSubsVar[i] = s.Subs
		}
	}
	p, srcs := buildPipelineFrom(e, sc)
	for i, s := range srcs {
		if s.Subs != 0 {
			e.Violate("C12", "eager-subscription", fmt.Sprintf("source %d was subscribed %d times while the pipeline was only being built", i, s.Subs))
		}
	}
	k := sc.Int("k", 2)
	if sc.Sub == "sequential" {
		for n := 0; n < k; n++ {
			w, ws, what := want, wantSubs, "a first subscription of a freshly built one"
			if n > 0 && variant != nil {
				// every later run of the main source plays the variant
				srcs[0].Attempts = [][]Step{variant}
				w, ws, what = wantVar, wantSubsVar, fmt.Sprintf("(the source now playing [%s]) a first subscription of a freshly built one", traceN(scriptToN(variant)))
			}
			before := make([]int, len(srcs))
			for i, s := range srcs {
				before[i] = s.Subs
			}
			rec, _ := collectTrace(e, p, fmt.Sprintf("sub%d", n))
			if e.K.Capped() {
				return
			}
			if rec.Trace() != w {
				if strings.Contains(w, "E(") && !strings.Contains(rec.Trace(), "E(") {
					// C07: the failure the fresh pipeline reports never reached this subscriber
					e.Violate("C07", "error-lost-on-later-subscription", fmt.Sprintf("subscription #%d of the same pipeline delivered [%s]; %s ends with the error: [%s]", n+1, rec.Trace(), what, w))
				}
				c12Violate(e, "resubscription-differs", fmt.Sprintf("subscription #%d of the same pipeline delivered [%s]; %s delivers [%s]", n+1, rec.Trace(), what, w))
			}
			for i, s := range srcs {
				if s.Subs-before[i] != ws[i] {
					c12Violate(e, "source-subscribe-count", fmt.Sprintf("subscription #%d subscribed source %d %d times; the fresh pipeline subscribed it %d times", n+1, i, s.Subs-before[i], ws[i]))
				}
			}
		}
		return
	}
	var recs []*Rec
	for n := 0; n < k; n++ {
		rec := e.NewRec(fmt.Sprintf("sub%d", n))
		recs = append(recs, rec)
		e.Subscribe(p, rec.Obs(), nil)
	}
	e.SettleFor(300 * Unit)
	if e.K.Capped() {
		return
	}
	for n, rec := range recs {
		if rec.Trace() != want {
			c12Violate(e, "concurrent-subscription-differs", fmt.Sprintf("concurrent subscription #%d delivered [%s]; a fresh pipeline delivers [%s]", n, rec.Trace(), want))
		}
	}
	for i, s := range srcs {
		if s.Subs != k*wantSubs[i] {
			c12Violate(e, "source-subscribe-count", fmt.Sprintf("%d concurrent subscriptions subscribed source %d %d times; the fresh pipeline subscribes it %d times per subscription", k, i, s.Subs, wantSubs[i]))
		}
	}
}

var perms3 = [][]int{{0, 1, 2}, {0, 2, 1}, {1, 0, 2}, {1, 2, 0}, {2, 0, 1}, {2, 1, 0}}

func runC12OpValue(e *Env) {
	defer e.CheckHeld("C12")
	sc := e.Sc
	st := sc.Stages[0]
	d := catalog[st.Op]
	n := sc.Int("mains", len(sc.Sources))
	if n > len(sc.Sources)-d.Aux {
		n = len(sc.Sources) - d.Aux
	}
	if n < 1 {
		return
	}
	auxSpecs := sc.Sources[len(sc.Sources)-d.Aux:]
	params := st.P[d.Aux:]
	mkAux := func() []ro.Observable[int] {
		var out []ro.Observable[int]
		for _, sp := range auxSpecs {
			out = append(out, e.NewSrc(sp).Obs())
		}
		return out
	}
	// reference: a separately built operator value per source
	want := make([]string, n)
	for i := 0; i < n; i++ {
		s := e.NewSrc(sc.Sources[i])
		o := d.Build(e, mkAux(), params)(s.Obs())
		rec, _ := collectTrace(e, o, fmt.Sprintf("ref%d", i))
		want[i] = rec.Trace()
	}
	if e.K.Capped() {
		return
	}
	if e.unterminated {
		e.Probe("unterminated-pipeline")
		return
	}
	op := d.Build(e, mkAux(), params) // ONE operator value
	order := perms3[sc.Int("order", 0)%6]
	pipes := make([]ro.Observable[int], n)
	srcs := make([]*Src, n)
	// apply in one order ...
	for _, i := range order {
		if i >= n {
			continue
		}
		srcs[i] = e.NewSrc(sc.Sources[i])
		pipes[i] = op(srcs[i].Obs())
	}
	for i, s := range srcs {
		if s != nil && s.Subs != 0 {
			e.Violate("C12", "eager-subscription", fmt.Sprintf("source %d subscribed at operator application time", i))
		}
	}
	// ... subscribe in the reverse order
	for j := len(order) - 1; j >= 0; j-- {
		i := order[j]
		if i >= n {
			continue
		}
		rec, _ := collectTrace(e, pipes[i], fmt.Sprintf("p%d", i))
		if e.K.Capped() {
			return
		}
		if rec.Trace() != want[i] {
			c12Violate(e, "operator-value-shared-state", fmt.Sprintf("one %s value applied to %d sources: pipeline over source %d delivered [%s]; a separately built operator delivers [%s]", st.Op, n, i, rec.Trace(), want[i]))
		}
	}
}

// c12Valid: the pipeline must be deterministic by construction (synchronous or singly timed sources).
func c12Valid(sc *Scn) bool {
	for i, s := range sc.Sources {
		if s.Mode != "sync" && !(i == 0 && s.Mode == "timed" && sc.Family == "C12.resub" && len(sc.Sources) == 1) {
			return false
		}
	}
	if sc.Family == "C12.opvalue" {
		if len(sc.Stages) != 1 {
			return false
		}
		d := catalog[sc.Stages[0].Op]
		if d == nil || len(sc.Sources) < d.Aux+1 || len(sc.Stages[0].P) < d.Aux {
			return false
		}
	}
	return len(sc.Sources) > 0
}

// c12Violate records a C12 violation. When some actor is parked on a mutex at quiescence the run deadlocked
// inside the library and whatever the differential compared is a consequence of that: the violation is
// filed under the clause "deadlock" (still a violation; it keeps the known unicast-subject self-deadlock
// of GroupBy/WindowWhen apart from shared-state findings).
func c12Violate(e *Env, clause, msg string) {
	for _, a := range e.K.Actors() {
		if a.Blocked() && a.PendingKind().String() == "lock" {
			e.Violate("C12", "deadlock", fmt.Sprintf("actor %s is blocked on a lock at quiescence; %s: %s", a.Site, clause, msg))
			return
		}
	}
	e.Violate("C12", clause, msg)
}

// c12Variant is the script the main source plays from the second subscription on (Ints[vary]: 1 = only the
// terminal of the original script, 2 = the same script with other values), nil when the scenario does not vary.
func c12Variant(sc *Scn) []Step {
	if len(sc.Sources) == 0 {
		return nil
	}
	var out []Step
	switch sc.Int("vary", 0) {
	case 1:
		for _, st := range sc.Sources[0].Script {
			if st.K != "N" {
				out = append(out, st)
			}
		}
		if out == nil {
			out = []Step{}
		}
	case 2:
		for _, st := range sc.Sources[0].Script {
			if st.K == "N" {
				st.V += 3
			}
			out = append(out, st)
		}
		if out == nil {
			out = []Step{}
		}
	default:
		return nil
	}
	return out
}
