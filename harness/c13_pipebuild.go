package roverif

// C13.pipebuild — the instrumentation plugin from several goroutines at once: instrumented pipelines are
// BUILT concurrently (one per request is the ordinary use), then subscribed concurrently. Only the race
// detector's reports are judged (C13).

import (
	"fmt"

	"github.com/prometheus/client_golang/prometheus"
	"github.com/samber/ro"
	roprometheus "github.com/samber/ro/ee/plugins/prometheus"
)

func init() {
	Register(&Family{
		Name:   "C13.pipebuild",
		Props:  []string{"C13"},
		Weight: 4,
		Gen: func(g *Gen) *Scn {
			sc := &Scn{Family: "C13.pipebuild"}
			sc.SetInt("builders", g.Range(2, 4))
			sc.SetInt("licence", g.PickInt(0, 1, 1))
			sc.Sources = []SrcSpec{{Mode: g.Pick("sync", "async"), Script: genScript(g, 10, 3, "CCE", false)}}
			return sc
		},
		Run: func(e *Env) {
			sc := e.Sc
			roprometheus.VerifSetLicenseBypass(sc.Int("licence", 1) == 1)
			defer roprometheus.VerifSetLicenseBypass(false)
			n := sc.Int("builders", 2)
			done := 0
			for i := 0; i < n; i++ {
				i := i
				e.Go(fmt.Sprintf("builder%d", i), func() {
					src := e.NewSrc(sc.Sources[0])
					cfg := roprometheus.CollectorConfig{Namespace: "verif", Subsystem: fmt.Sprintf("c13b%d", i)}
					double := ro.Map(func(x int) int { return 2 * x })
					odd := ro.Filter(func(x int) bool { return x%2 == 1 })
					var o ro.Observable[int]
					var col prometheus.Collector
					// (each call expression alone on its line: the plugin reads this file to describe it)
					switch i % 3 {
					case 0:
						o, col = roprometheus.Pipe1(cfg, src.Obs(), double)
					case 1:
						o, col = roprometheus.Pipe2(cfg, src.Obs(), double, odd)
					default:
						o, col = roprometheus.Pipe3(cfg, src.Obs(), double, odd, double)
					}
					if col != nil {
						prometheus.NewRegistry().Register(col) //nolint:errcheck
					}
					rec := e.NewRec(fmt.Sprintf("b%d", i))
					o.Subscribe(rec.Observer())
					done++
				})
			}
			e.SettleFor(20 * Unit)
		},
	})
}

// C13.passthru — the shape in which a lost serialisation becomes a data race inside the library: a source
// built with a serialising constructor and fed by several goroutines, subscribed through an operator that hands
// its own lock-free subscriber straight to the source, followed by an operator that keeps state without a lock
// of its own. (Run by C02.safe's executor; only the race detector's reports are judged under C13.)
func init() {
	Register(&Family{
		Name:   "C13.passthru",
		Props:  []string{"C13"},
		Weight: 12,
		Gen: func(g *Gen) *Scn {
			sc := &Scn{Family: "C13.passthru"}
			sc.Sub = g.Pick("eventually", "eventually", "safe", "default")
			sc.Sources = []SrcSpec{{Mode: "async", Ctor: sc.Sub, CtorAPI: g.PickInt(0, 0, 1, 2), Producers: g.Range(2, 3), Script: genScript(g, 10, 3, "CE--", false)}}
			sc.Stages = []StageSpec{
				{Op: g.Pick("StartWith", "TapOnFinalize", "TapOnSubscribe", "Defer", "Catch"), P: []int{1}},
				{Op: g.Pick("Scan", "MapI", "Distinct", "Pairwise", "Skip", "BufferWithCount"), P: []int{2}},
			}
			sc.SetInt("raw", g.PickInt(0, 0, 1, 2))
			return sc
		},
		Run: func(e *Env) { families["C02.safe"].Run(e) },
	})
}
