package roverif

import (
	"context"
	"fmt"
	"strings"
	"time"

	"github.com/samber/ro"

	"rosim/simcontext"
)

var c14Terminators = []string{"Take", "First", "TakeUntil", "CallbackError", "CallbackPanic", "Unsubscribe", "TakeWhile", "ElementAt"}

func init() {
	Register(&Family{
		Name:   "C14.stage",
		Props:  []string{"C14", "C13"},
		Weight: 6,
		Gen: func(g *Gen) *Scn {
			sc := &Scn{Family: "C14.stage"}
			sc.Sources = []SrcSpec{{Mode: "endless", Script: []Step{{K: "N", Gap: g.PickInt(1, 1, 2)}}}}
			// the stage under test: anything, auxiliary inputs are never-ending or hot too
			n := g.PickInt(0, 1, 1, 1, 2)
			genChain(g, sc, n, 3, g.Pick("endless", "never", "hot", "sync", "async"), chainable)
			for i := 1; i < len(sc.Sources); i++ {
				if sc.Sources[i].Mode == "endless" {
					sc.Sources[i].Script = []Step{{K: "N", Gap: g.PickInt(1, 2, 3)}}
				}
			}
			sc.Sub = c14Terminators[g.Intn(len(c14Terminators))]
			sc.SetInt("n", g.Range(1, 3))
			if g.Bool(0.3) {
				sc.SetInt("handle", g.Range(1, 2))
				sc.SetInt("viahandle", g.Intn(2))
			}
			return sc
		},
		Expand: func(sc *Scn) []*Scn {
			var out []*Scn
			for n := 1; n <= 3; n++ {
				c := cloneScn(sc)
				c.SetInt("n", n)
				out = append(out, c)
			}
			return out
		},
		Run: runC14,
	})

	Register(&Family{
		Name:   "C14.comb",
		Props:  []string{"C14", "C13"},
		Weight: 3,
		Gen: func(g *Gen) *Scn {
			sc := &Scn{Family: "C14.comb"}
			name := combOrder[g.Intn(len(combOrder))]
			c := combs[name]
			k := g.Range(c.Min, c.Max)
			sc.SetInt("k", k)
			for i := 0; i < k; i++ {
				mode := g.Pick("endless", "endless", "hot", "never", "sync", "async")
				sp := SrcSpec{Mode: mode}
				switch mode {
				case "endless":
					sp.Script = []Step{{K: "N", Gap: g.PickInt(1, 2, 3)}}
				case "async":
					// emits from its own goroutine as soon as it is subscribed: a termination it causes
					// (its error, or the terminator reached on its values) races with the subscriptions
					// the operator is still making
					sp.Script = genScript(g, (i+1)*10, 3, "E-E", false)
				default:
					sp.Script = genScript(g, (i+1)*10, 3, "C-", false)
				}
				sc.Sources = append(sc.Sources, sp)
			}
			sc.Stages = append(sc.Stages, StageSpec{Op: "comb:" + name})
			sc.Sub = c14Terminators[g.Intn(len(c14Terminators))]
			sc.SetInt("n", g.Range(1, 3))
			if g.Bool(0.2) {
				sc.SetInt("tdpanic", g.Intn(k)+1) // the teardown of that source panics: the others must still be released
			}
			return sc
		},
		Run: runC14,
	})

	Register(&Family{
		Name:   "C14.ctx",
		Props:  []string{"C14", "C16", "C01", "C02"},
		Weight: 2,
		Gen: func(g *Gen) *Scn {
			sc := &Scn{Family: "C14.ctx"}
			sc.Sub = g.Pick("Interval", "IntervalWithInitial", "Never", "Timer", "RangeWithInterval", "RepeatWithInterval", "ThrowOnContextCancel", "Retry", "RetryTimer", "RetryNever",
				// operators that own a context-aware ticker, over a source that does not watch the context
				"BufferWithTimeOrCount", "BufferWithTime", "SampleTime")
			sc.SetInt("d", g.PickInt(1, 2, 3))
			sc.SetInt("at", g.Range(0, 8))
			sc.SetInt("reset", g.Intn(2)) // a ContextReset stage between the source and the subscriber
			sc.SetInt("race", g.Intn(2))  // the cancellation comes from a goroutine of its own, at the very instant a value is due
			return sc
		},
		Run: runC14Ctx,
	})
}

func runC14(e *Env) {
	sc := e.Sc
	var o ro.Observable[int]
	var srcs []*Src
	if sc.Family == "C14.comb" {
		var obs []ro.Observable[int]
		for i, sp := range sc.Sources {
			s := e.NewSrc(sp)
			if sc.Int("tdpanic", 0) == i+1 {
				s.PanicTeardown = true
			}
			srcs = append(srcs, s)
			obs = append(obs, s.Obs())
		}
		name := sc.Stages[0].Op[len("comb:"):]
		o = combs[name].Apply(e, obs)
	} else {
		o, srcs = e.Pipeline()
	}
	n := sc.Int("n", 1)
	rec := e.NewRec("o")
	var notifier ro.Subject[int]
	extUnsub := false
	switch sc.Sub {
	case "Take":
		o = ro.Take[int](int64(n))(o)
	case "First":
		o = ro.First(func(x int) bool { return true })(o)
	case "TakeWhile":
		cnt := 0
		o = ro.TakeWhile(func(x int) bool { cnt++; return cnt < n })(o)
	case "ElementAt":
		o = ro.ElementAt[int](n - 1)(o)
	case "TakeUntil":
		notifier = ro.NewPublishSubject[int]()
		o = ro.TakeUntil[int](notifier)(o)
	case "CallbackError":
		cnt := 0
		o = ro.MapErr(func(x int) (int, error) {
			cnt++
			if cnt >= n {
				return 0, ScriptError(7)
			}
			return x, nil
		})(o)
	case "CallbackPanic":
		cnt := 0
		o = ro.Map(func(x int) int {
			cnt++
			if cnt >= n {
				panic(ScriptError(8))
			}
			return x
		})(o)
	case "Unsubscribe":
		extUnsub = true
	}
	// the caller may have made the subscriber itself (handle 1: unsafe, 2: safe) and end the subscription
	// through it instead of through the subscription Subscribe returned
	var observer ro.Observer[int] = rec.Observer()
	var handle ro.Subscriber[int]
	switch sc.Int("handle", 0) {
	case 1:
		handle = ro.NewUnsafeSubscriber(observer)
		observer = handle
	case 2:
		handle = ro.NewSafeSubscriber(observer)
		observer = handle
	}
	h := e.Subscribe(o, observer, nil)
	e.Settle()
	FeedAll(srcs)
	terminated := func() bool { return rec.Terminal() != 0 }
	unsubRet := false
	switch {
	case extUnsub:
		// external Unsubscribe once n values were seen (or after a while if the pipeline is silent)
		e.RunUntil(func() bool { return len(rec.Events) >= n }, 40)
		if e.K.Capped() {
			e.Probe("capped-before-termination")
			return
		}
		if !h.Ret() || h.Sub() == nil {
			// Subscribe has not returned: nothing to unsubscribe with. A never-ending source with an
			// operator that waits inside Subscribe: only a downstream terminator can end it.
			e.Probe("subscribe-blocked-no-terminator")
			return
		}
		e.Go("unsubscriber", func() {
			defer func() {
				unsubRet = true
				if r := recover(); r != nil && sc.Int("tdpanic", 0) == 0 {
					e.Violate("C14", "unsubscribe-panics", fmt.Sprintf("Unsubscribe panicked: %v", r))
				}
			}()
			if handle != nil && sc.Int("viahandle", 0) == 1 {
				handle.Unsubscribe()
			} else {
				h.Sub().Unsubscribe()
			}
		})
		e.Settle()
		for _, st := range sc.Stages {
			if st.Op == "DelayEach" && !unsubRet {
				// DelayEach sleeps on the delivering goroutine, possibly while an upstream operator holds
				// its own lock around the delivery (Delay): the teardown then waits for that sleep to end.
				// A bounded wait on time, not on upstream.
				e.SettleFor(delayEachAllowance(sc, st))
			}
		}
		if !unsubRet {
			e.Violate("C14", "unsubscribe-blocks", "external Unsubscribe did not return without the clock advancing")
			return
		}
	case notifier != nil:
		e.RunUntil(func() bool { return len(rec.Events) >= n-1 }, 40)
		e.Go("notifier", func() {
			defer func() { recover() }() // a panicking teardown (tdpanic) is re-raised to whoever triggered the termination
			notifier.Next(1)
		})
		e.Settle()
		if !terminated() {
			e.Probe("takeuntil-not-terminated")
			return
		}
	default:
		if !e.RunUntil(terminated, 60) {
			if e.K.Capped() && terminated() {
				e.Violate("C14", "busy-loop-after-termination", "downstream terminated but the pipeline keeps running without ever becoming quiescent: "+rec.Trace())
				return
			}
			// an unbounded retry over a failing source that never satisfies the terminator is a busy loop
			// the user asked for, not a cancellation failure
			e.Probe("never-terminated")
			return
		}
	}
	if e.K.Capped() {
		if terminated() || unsubRet {
			e.Violate("C14", "busy-loop-after-termination", "downstream terminated but the pipeline keeps running without ever becoming quiescent: "+rec.Trace())
		}
		return
	}
	for _, st := range sc.Stages {
		if st.Op == "DelayEach" {
			// DelayEach sleeps on the caller's goroutine before forwarding: a value already handed to it
			// may keep Subscribe busy for one more delay - and a synchronous source that keeps emitting its
			// remaining values into the closed pipeline pays that delay once per value; that is a bounded
			// wait on time, not on upstream
			e.SettleFor(delayEachAllowance(sc, st))
		}
	}
	e.Probe("terminated")
	// The downstream side has terminated and the system is quiescent WITHOUT the clock having moved since:
	// every source that was subscribed must already be released, and Subscribe must have returned.
	for _, s := range srcs {
		if s.Live != 0 {
			e.Violate("C14", "upstream-not-cancelled", fmt.Sprintf("downstream terminated (%s, trace %s) but source %d (%s) still has %d live subscription(s) at quiescence, before the clock moved", sc.Sub, rec.Trace(), s.ID, s.Spec.Mode, s.Live))
		}
	}
	if !h.Ret() {
		e.Violate("C14", "subscribe-blocked", fmt.Sprintf("downstream terminated (%s, trace %s) but the Subscribe call has not returned at quiescence", sc.Sub, rec.Trace()))
	}
	// and nothing is emitted afterwards
	before := len(rec.Events)
	e.SettleFor(20 * Unit)
	if e.K.Capped() {
		return
	}
	if len(rec.Events) != before {
		e.Violate("C14", "delivery-after-termination", fmt.Sprintf("events delivered after downstream termination: %s", rec.Trace()))
	}
}

// runC14Ctx: cancelling the subscription context ends the context-aware sources/operators.
func runC14Ctx(e *Env) {
	sc := e.Sc
	d := dur(sc.Int("d", 1))
	var o ro.Observable[int]
	i64 := ro.Map(func(x int64) int { return int(x) })
	var src *Src
	switch sc.Sub {
	case "Interval":
		o = i64(ro.Interval(d))
	case "IntervalWithInitial":
		o = i64(ro.IntervalWithInitial(d, 2*d))
	case "Never":
		o = ro.Map(func(struct{}) int { return 0 })(ro.Never())
	case "Timer":
		o = ro.Map(func(t time.Duration) int { return 1 })(ro.Timer(d))
	case "RangeWithInterval":
		o = i64(ro.RangeWithInterval(0, 1000, d))
	case "RepeatWithInterval":
		o = ro.RepeatWithInterval(5, 1000, d)
	case "ThrowOnContextCancel":
		src = e.NewSrc(SrcSpec{Mode: "endless", Script: []Step{{K: "N", Gap: sc.Int("d", 1)}}})
		o = ro.ThrowOnContextCancel[int]()(src.Obs())
	case "BufferWithTimeOrCount", "BufferWithTime", "SampleTime":
		src = e.NewSrc(SrcSpec{Mode: "endless", Script: []Step{{K: "N", V: 1, Gap: 1}}})
		first := ro.Map(func(b []int) int { return len(b) })
		switch sc.Sub {
		case "BufferWithTimeOrCount":
			o = first(ro.BufferWithTimeOrCount[int](3, 2*d)(src.Obs()))
		case "BufferWithTime":
			o = first(ro.BufferWithTime[int](2 * d)(src.Obs()))
		default:
			o = ro.SampleTime[int](2 * d)(src.Obs())
		}
	case "RetryTimer":
		// a context-aware source that reports the cancellation as its error, below an undelayed Retry:
		// the cancellation must end the retry loop, not feed it
		o = ro.Retry[int]()(ro.Map(func(t time.Duration) int { return 1 })(ro.Timer(100 * Unit)))
	case "RetryNever":
		o = ro.RetryWithConfig[int](ro.RetryConfig{MaxRetries: 3})(ro.Map(func(struct{}) int { return 1 })(ro.Never()))
	case "Retry":
		src = e.NewSrc(SrcSpec{Mode: "timed", Script: []Step{{K: "N", V: 1, Gap: 1}, {K: "E", V: 2, Gap: 1}}})
		o = ro.RetryWithConfig[int](ro.RetryConfig{Delay: d})(src.Obs())
	}
	if sc.Int("reset", 0) == 1 {
		// ContextReset replaces the context travelling with the notifications; the subscription context
		// (and its cancellation) must still reach the source
		o = ro.ContextReset[int](context.WithValue(context.Background(), ctxKey("reset"), 1))(o)
	}
	ctx, cancel := simcontext.WithCancel(context.Background())
	rec := e.NewRec("o")
	h := e.Subscribe(o, rec.Observer(), ctx)
	cancelStep := 0
	liveAtCancel := -1
	canceller := func() {
		if src != nil {
			liveAtCancel = src.Live
		}
		cancel()
		cancelStep = e.Step()
	}
	racing := sc.Int("race", 0) == 1 && !strings.HasPrefix(sc.Sub, "Retry")
	if racing {
		e.Go("canceller", func() { simSleep(dur(sc.Int("at", 1))); canceller() })
	}
	e.SettleFor(dur(sc.Int("at", 1)))
	if e.K.Capped() {
		return
	}
	if !racing {
		e.Go("canceller", canceller)
	}
	e.Settle()
	// whatever the instant of the cancellation: values, then at most one terminal, one callback at a time
	defer func() {
		if g := rec.GrammarError(); g != "" {
			e.Violate("C01", "grammar", fmt.Sprintf("%s, context cancelled while values flow: %s (trace %s)", sc.Sub, g, rec.Trace()))
		}
		if len(rec.Overlap) > 0 {
			e.Violate("C02", "overlap", fmt.Sprintf("%s, context cancelled while values flow: %s", sc.Sub, rec.Overlap[0]))
		}
	}()
	if e.K.Capped() {
		e.Violate("C14", "busy-loop-after-termination", "busy loop after context cancellation")
		return
	}
	if sc.Sub == "Retry" && liveAtCancel == 0 && src.Subs > 0 {
		// cancelled between two attempts (during the back-off delay): nothing is in progress that could
		// justify waiting; the loop ends at once, without the clock having to reach the end of the delay
		if !h.Ret() {
			e.Violate("C14", "subscribe-blocked", "Retry: the context was cancelled during the back-off between two attempts, but Subscribe has not returned at quiescence (before the clock moved)")
		} else if rec.Terminal() == 0 {
			e.Violate("C14", "not-closed-after-cancel", "Retry: cancelled during the back-off but no terminal notification at quiescence: "+rec.Trace())
		}
	}
	if sc.Sub == "Retry" {
		// Retry is promised to stop retrying: the attempt in progress may run to its end (the scripted
		// source does not watch the context), but no new attempt may start and everything ends then
		e.SettleFor(20 * Unit)
		if e.K.Capped() {
			e.Violate("C14", "busy-loop-after-termination", "busy loop after context cancellation")
			return
		}
		for _, at := range src.SubAt {
			if at > cancelStep {
				// the check before an attempt and the cancellation may race by a few steps; an attempt
				// that starts after the cancel call returned and settled is a new attempt
				e.Violate("C14", "retry-after-cancel", fmt.Sprintf("Retry started a new attempt at step %d, after the context had been cancelled at step %d", at, cancelStep))
			}
		}
		if !h.Ret() {
			e.Violate("C14", "subscribe-blocked", "Retry: context cancelled and the attempt in progress ended, but Subscribe has not returned")
		}
		if src.Live != 0 {
			e.Violate("C14", "upstream-not-cancelled", "Retry: context cancelled but the source is still subscribed after the attempt ended")
		}
		if rec.Terminal() == 0 {
			e.Violate("C14", "not-closed-after-cancel", "Retry: no terminal notification after cancellation: "+rec.Trace())
		}
		return
	}
	if !h.Ret() {
		e.Violate("C14", "subscribe-blocked", "context cancelled but Subscribe has not returned at quiescence")
	}
	if src != nil && src.Live != 0 {
		e.Violate("C14", "upstream-not-cancelled", fmt.Sprintf("context cancelled but the source still has %d live subscription(s)", src.Live))
	}
	before := len(rec.Events)
	e.SettleFor(30 * Unit)
	if e.K.Capped() {
		return
	}
	// after cancellation at most the terminal notification may still arrive; no further values
	for _, ev := range rec.Events[before:] {
		if ev.K == 'N' {
			e.Violate("C14", "value-after-cancel", fmt.Sprintf("value delivered after the context was cancelled and the system had settled: %s", rec.Trace()))
		}
	}
	if h.Ret() && h.Sub() != nil && !h.Sub().IsClosed() && sc.Sub != "Timer" {
		e.Violate("C14", "not-closed-after-cancel", fmt.Sprintf("%s: subscription still open after its context was cancelled (trace %s)", sc.Sub, rec.Trace()))
	}
	for _, a := range e.K.Actors() {
		if a.Lib && !a.Done() {
			e.Violate("C14", "goroutine-leak", fmt.Sprintf("library goroutine %s still %s after context cancellation", a.Site, a.State()))
		}
	}
}

// delayEachAllowance bounds the time a DelayEach stage may keep a delivering goroutine asleep after the
// downstream side has terminated: one delay per value a synchronous source still pushes, plus the one in flight.
func delayEachAllowance(sc *Scn, st StageSpec) time.Duration {
	d := 1
	for _, p := range st.P {
		if p > d {
			d = p
		}
	}
	n := 2
	for _, sp := range sc.Sources {
		n += len(sp.Script)
	}
	return time.Duration(n*d) * Unit
}
