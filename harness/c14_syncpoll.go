package roverif

// C14.syncpoll — "a Subscribe call that was still running inside the pipeline returns": a synchronous producer
// built with a serialising constructor emits until its observer reports closed; the observer is a lock-free
// Subscriber made by the caller (directly, or behind an operator that hands its own lock-free subscriber to
// the source), so the library wraps it; the caller unsubscribes through that Subscriber from another goroutine.
// The producer must see it: its loop ends, Subscribe returns, the source is released.

import (
	"fmt"

	"github.com/samber/ro"
)

func init() {
	Register(&Family{
		Name:   "C14.syncpoll",
		Props:  []string{"C14", "C03"},
		Weight: 1,
		Gen: func(g *Gen) *Scn {
			sc := &Scn{Family: "C14.syncpoll"}
			sc.Sub = g.Pick("direct", "StartWith", "TapOnSubscribe", "TapOnFinalize", "Defer")
			sc.Sources = []SrcSpec{{Mode: "syncpoll", Ctor: g.Pick("safe", "default", "eventually"), CtorAPI: g.PickInt(0, 1, 2)}}
			sc.SetInt("after", g.Range(1, 5))
			sc.SetInt("handle", g.Range(1, 2)) // 1 lock-free, 2 locking subscriber of the caller's
			return sc
		},
		Run: func(e *Env) {
			sc := e.Sc
			src := e.NewSrc(sc.Sources[0])
			o := src.Obs()
			if sc.Sub != "direct" {
				o = catalog[sc.Sub].Build(e, nil, []int{1})(o)
			}
			rec := e.NewRec("o")
			var handle ro.Subscriber[int]
			if sc.Int("handle", 1) == 1 {
				handle = ro.NewUnsafeSubscriber(rec.Observer())
			} else {
				handle = ro.NewSafeSubscriber(rec.Observer())
			}
			returned := false
			e.Go("subscriber", func() { o.Subscribe(handle); returned = true })
			after := sc.Int("after", 1)
			done, doneStep := false, 0
			e.Go("canceller", func() {
				e.WaitFor(func() bool { return len(rec.Events) >= after })
				handle.Unsubscribe()
				done = true
				doneStep = e.Step()
				e.Yield()
			})
			e.SettleFor(5 * Unit)
			capped := e.K.Capped()
			if !done && !capped {
				return // (the values never came: nothing was cancelled)
			}
			if !returned {
				e.Violate("C14", "subscribe-blocked", fmt.Sprintf("%s over a synchronous producer (%s constructor) that emits until its observer reports closed: the caller's subscriber was unsubscribed after %d values, but the producer never saw it (it made %d calls, capped=%v): Subscribe has not returned", sc.Sub, sc.Sources[0].Ctor, after, len(src.Calls), capped))
				e.Violate("C03", "source-not-released", fmt.Sprintf("%s: unsubscribed through the caller's subscriber, the synchronous producer keeps running", sc.Sub))
				return
			}
			if capped {
				return
			}
			late := 0
			for _, c := range src.Calls {
				if c.Invoke > doneStep {
					late++
				}
			}
			if late > 1 {
				e.Violate("C14", "upstream-not-cancelled", fmt.Sprintf("%s over a synchronous producer (%s constructor) that emits until its observer reports closed: after the caller's subscriber had been unsubscribed the producer made %d more calls (its observer kept reporting open; the loop only ended at the producer's own limit)", sc.Sub, sc.Sources[0].Ctor, late))
				return
			}
			if src.Live != 0 {
				e.Violate("C14", "upstream-not-cancelled", fmt.Sprintf("%s: Subscribe returned after the unsubscription but the source still has %d live subscription(s)", sc.Sub, src.Live))
			}
		},
	})
}
