package roverif

import (
	"context"
	"fmt"
	"math"
	"time"

	"github.com/samber/ro"

	"rosim/simcontext"
)

func genAttempt(g *Gen, base int, ending string, timed bool) []Step {
	n := g.Range(0, 2)
	var sc []Step
	for i := 0; i < n; i++ {
		st := Step{K: "N", V: base + i}
		if timed {
			st.Gap = g.PickInt(0, 1)
		}
		sc = append(sc, st)
	}
	t := Step{K: ending}
	if ending == "E" {
		t.V = base % 7
		if g.Bool(0.12) {
			t.V = g.PickInt(WrapsDeadline, WrapsCanceled) // the attempt fails with an error that wraps a context error of its own
		}
	}
	if timed {
		t.Gap = g.PickInt(0, 1)
	}
	return append(sc, t)
}

func encodeAttempts(sc *Scn, attempts [][]Step, mode string) {
	for _, a := range attempts {
		sc.Sources = append(sc.Sources, SrcSpec{Mode: mode, Script: a})
	}
}

func init() {
	Register(&Family{
		Name:   "C15.loop",
		Props:  []string{"C15"},
		Weight: 6,
		Gen: func(g *Gen) *Scn {
			sc := &Scn{Family: "C15.loop"}
			sc.Sub = g.Pick("Retry", "Retry", "RepeatWith", "DoWhile", "While", "OnErrorResumeNextWith", "Catch", "Concat", "ConcatWith")
			mode := g.Pick("sync", "sync", "timed")
			timed := mode == "timed"
			n := g.Range(1, 4)
			var att [][]Step
			for i := 0; i < n; i++ {
				att = append(att, genAttempt(g, 10*(i+1), g.Pick("E", "E", "C"), timed))
			}
			switch sc.Sub {
			case "Retry":
				sc.SetInt("max", g.Range(0, 3))
				if g.Bool(0.1) {
					sc.SetInt("max", -1) // the largest budget there is (math.MaxUint64): never spent
				}
				sc.SetInt("reset", g.Intn(2))
				sc.SetInt("delay", g.PickInt(0, 0, 1, 2))
				if g.Bool(0.3) {
					sc.SetInt("delay", 0)
					sc.SetInt("cancel", g.Range(1, n)) // the context is cancelled inside attempt #cancel (1-based)
					sc.SetInt("deadline", g.Intn(2))   // ... or its deadline expires there (Err() is DeadlineExceeded)
				}
				// the script of the last attempt is replayed for further attempts: make it end the loop
				att[len(att)-1] = genAttempt(g, 10*n, "C", timed)
			case "RepeatWith":
				sc.SetInt("count", g.Range(0, 3))
			case "DoWhile", "While":
				sc.SetInt("truth", g.Intn(16)) // bit i = value of the condition at its i-th evaluation
				sc.SetInt("nt", g.Range(1, 4))
			}
			encodeAttempts(sc, att, mode)
			sc.SetInt("again", g.Intn(2))
			sc.SetInt("seqmode", 1)
			return sc
		},
		Valid: func(sc *Scn) bool {
			if len(sc.Sources) == 0 {
				return false
			}
			for _, s := range sc.Sources {
				if len(s.Script) == 0 || s.Script[len(s.Script)-1].K == "N" {
					return false
				}
				for _, st := range s.Script[:len(s.Script)-1] {
					if st.K != "N" {
						return false
					}
				}
			}
			if sc.Sub == "Retry" && sc.Sources[len(sc.Sources)-1].Script[len(sc.Sources[len(sc.Sources)-1].Script)-1].K != "C" {
				return false
			}
			return true
		},
		Run: runC15,
	})
}

// c15Model returns the expected output and the expected number of attempts per source.
func c15Model(sc *Scn) (out []N, attempts int) {
	scripts := make([][]N, len(sc.Sources))
	for i, s := range sc.Sources {
		scripts[i] = scriptToN(s.Script)
	}
	get := func(i int) []N {
		if i < len(scripts) {
			return scripts[i]
		}
		return scripts[len(scripts)-1]
	}
	vals := func(s []N) ([]N, N) { return s[:len(s)-1], s[len(s)-1] }
	switch sc.Sub {
	case "Retry":
		max, reset := sc.Int("max", 0), sc.Int("reset", 0) == 1
		if max < 0 {
			max = 0 // a budget that cannot be spent
		}
		retries := 0
		cancelAt := sc.Int("cancel", 0)
		for i := 0; ; i++ {
			attempts++
			v, t := vals(get(i))
			out = append(out, v...)
			if reset && len(v) > 0 {
				retries = 0
			}
			if cancelAt > 0 && i == cancelAt-1 && t.K == 'E' {
				// the context was cancelled during this attempt: Retry must not start another one and
				// ends with the context's error (a non-script error) — unless the retries were spent anyway
				retries++
				if max != 0 && retries > max {
					return append(out, t), attempts
				}
				return append(out, N{K: 'E', V: -1}), attempts
			}
			if reset && len(v) > 0 {
				retries = 0
			}
			if t.K == 'C' {
				return append(out, t), attempts
			}
			retries++
			if max != 0 && retries > max {
				return append(out, t), attempts
			}
			if attempts > 50 {
				panic("c15 model: retry does not terminate")
			}
		}
	case "RepeatWith":
		n := sc.Int("count", 1)
		for i := 0; i < n; i++ {
			attempts++
			v, t := vals(get(i))
			out = append(out, v...)
			if t.K == 'E' {
				return append(out, t), attempts
			}
		}
		return append(out, N{K: 'C'}), attempts
	case "DoWhile", "While":
		truth, nt := sc.Int("truth", 0), sc.Int("nt", 1)
		cond := func(i int) bool { return i < nt && truth&(1<<uint(i)) != 0 }
		evals := 0
		for i := 0; ; i++ {
			if sc.Sub == "While" {
				c := cond(evals)
				evals++
				if !c {
					return append(out, N{K: 'C'}), attempts
				}
			}
			attempts++
			v, t := vals(get(i))
			out = append(out, v...)
			if t.K == 'E' {
				return append(out, t), attempts
			}
			if sc.Sub == "DoWhile" {
				c := cond(evals)
				evals++
				if !c {
					return append(out, N{K: 'C'}), attempts
				}
			}
			if attempts > 50 {
				panic("c15 model: loop does not terminate")
			}
		}
	case "OnErrorResumeNextWith":
		// source, then every fallback, each after the previous ended (C or E); terminal = the last one's
		var last N
		for i := range scripts {
			attempts++
			v, t := vals(scripts[i])
			out = append(out, v...)
			last = t
		}
		return append(out, last), attempts
	case "Catch":
		attempts = 1
		v, t := vals(scripts[0])
		out = append(out, v...)
		if t.K == 'C' || len(scripts) < 2 {
			return append(out, t), attempts
		}
		attempts = 2
		v2, t2 := vals(scripts[1])
		out = append(out, v2...)
		return append(out, t2), attempts
	case "Concat", "ConcatWith":
		for i := range scripts {
			attempts++
			v, t := vals(scripts[i])
			out = append(out, v...)
			if t.K == 'E' {
				return append(out, t), attempts
			}
		}
		return append(out, N{K: 'C'}), attempts
	}
	panic("c15 model: " + sc.Sub)
}

func c15MaxRetries(sc *Scn) uint64 {
	if m := sc.Int("max", 0); m >= 0 {
		return uint64(m)
	}
	return math.MaxUint64
}

// c15Expired is a context whose end is reported the way an expired deadline is.
type c15Expired struct{ context.Context }

func (c c15Expired) Err() error {
	if c.Context.Err() != nil {
		return context.DeadlineExceeded
	}
	return nil
}

func runC15(e *Env) {
	sc := e.Sc
	multi := sc.Sub == "Retry" || sc.Sub == "RepeatWith" || sc.Sub == "DoWhile" || sc.Sub == "While"
	var srcs []*Src
	var o ro.Observable[int]
	type span struct{ sub, tear int }
	evals := 0
	if multi {
		s := e.NewSrc(sc.Sources[0])
		for _, sp := range sc.Sources {
			s.Attempts = append(s.Attempts, sp.Script)
		}
		srcs = []*Src{s}
		truth, nt := sc.Int("truth", 0), sc.Int("nt", 1)
		cond := func() bool {
			e.Call("cond")
			i := evals
			evals++
			return i < nt && truth&(1<<uint(i)) != 0
		}
		switch sc.Sub {
		case "Retry":
			o = ro.RetryWithConfig[int](ro.RetryConfig{MaxRetries: c15MaxRetries(sc), ResetOnSuccess: sc.Int("reset", 0) == 1, Delay: time.Duration(sc.Int("delay", 0)) * Unit})(s.Obs())
		case "RepeatWith":
			o = ro.RepeatWith[int](int64(sc.Int("count", 1)))(s.Obs())
		case "DoWhile":
			o = ro.DoWhile[int](cond)(s.Obs())
		case "While":
			o = ro.While[int](cond)(s.Obs())
		}
	} else {
		var obs []ro.Observable[int]
		for _, sp := range sc.Sources {
			s := e.NewSrc(sp)
			srcs = append(srcs, s)
			obs = append(obs, s.Obs())
		}
		switch sc.Sub {
		case "OnErrorResumeNextWith":
			o = ro.OnErrorResumeNextWith(obs[1:]...)(obs[0])
		case "Catch":
			o = ro.Catch(func(err error) ro.Observable[int] {
				e.Call("catch")
				if len(obs) > 1 {
					return obs[1]
				}
				return ro.Throw[int](err)
			})(obs[0])
		case "Concat":
			o = ro.Concat(obs...)
		case "ConcatWith":
			o = ro.ConcatWith(obs[1:]...)(obs[0])
		}
	}
	rec := e.NewRec("o")
	var ctx context.Context
	if k := sc.Int("cancel", 0); k > 0 && sc.Sub == "Retry" {
		c, cancel := simcontext.WithCancel(context.Background())
		ctx = c
		if sc.Int("deadline", 0) == 1 {
			ctx = c15Expired{c}
		}
		srcs[0].SubHook = func(n int) {
			if n == k-1 {
				cancel()
			}
		}
	}
	h := e.Subscribe(o, rec.Observer(), ctx)
	e.SettleFor(400 * Unit)
	if e.K.Capped() {
		e.Violate("C15", "does-not-terminate", fmt.Sprintf("%s: the loop never became quiescent (attempts so far %d, trace %s)", sc.Sub, srcs[0].Subs, rec.Trace()))
		return
	}
	want, wantAttempts := c15Model(sc)
	got := eventsToN(rec.Events)
	if !sameN(got, want) {
		e.Violate("C15", "output:"+sc.Sub, fmt.Sprintf("%s %v over attempts %s: delivered [%s], the definition prescribes [%s]", sc.Sub, sc.Ints, describeAttempts(sc), traceN(got), traceN(want)))
	}
	total := 0
	for _, s := range srcs {
		total += s.Subs
	}
	if sc.Sub == "Catch" && len(sc.Sources) > 2 {
		wantAttempts = min(wantAttempts, 2)
	}
	if total != wantAttempts {
		e.Violate("C15", "attempt-count:"+sc.Sub, fmt.Sprintf("%s %v over attempts %s: %d subscriptions to the source(s), the definition prescribes %d (trace %s)", sc.Sub, sc.Ints, describeAttempts(sc), total, wantAttempts, rec.Trace()))
	}
	// strictly one after another: the previous attempt is over and released before the next one starts
	var spans []span
	for _, s := range srcs {
		if s.MaxLiveStrict > 1 {
			e.Violate("C15", "overlapping-attempts", fmt.Sprintf("%s: %d attempts on the same source were live at the same time", sc.Sub, s.MaxLiveStrict))
		}
		for i, at := range s.SubAt {
			sp := span{sub: at, tear: 1 << 30}
			if i < len(s.TeardownAt) {
				sp.tear = s.TeardownAt[i]
			}
			spans = append(spans, sp)
		}
	}
	for i := range spans {
		for j := range spans {
			if i != j && spans[i].sub < spans[j].sub && spans[j].sub < spans[i].tear {
				e.Violate("C15", "overlapping-attempts", fmt.Sprintf("%s: an attempt started at step %d while the previous one (started at %d) was only released at step %d", sc.Sub, spans[j].sub, spans[i].sub, spans[i].tear))
			}
		}
	}
	if !h.Ret() {
		e.Violate("C15", "subscribe-blocked", sc.Sub+": the stream ended but Subscribe has not returned")
	}
	for _, s := range srcs {
		if s.Live != 0 {
			e.Violate("C15", "attempt-not-released", fmt.Sprintf("%s: %d attempt(s) still subscribed after the stream ended", sc.Sub, s.Live))
		}
	}
	// Ints[again]: the same observable is subscribed a second time, its source going through the same
	// sequence of attempt outcomes again: counters and budgets belong to the subscription, so the second
	// run makes exactly the attempts the first one made
	if multi && sc.Int("again", 0) == 1 && sc.Int("cancel", 0) == 0 && len(e.Viols) == 0 && h.Ret() {
		s := srcs[0]
		used := s.Subs
		att := make([][]Step, used)
		for _, sp := range sc.Sources {
			att = append(att, sp.Script)
		}
		s.Attempts = att
		evals = 0
		rec2 := e.NewRec("again")
		e.Subscribe(o, rec2.Observer(), nil)
		e.SettleFor(400 * Unit)
		if e.K.Capped() {
			e.Violate("C15", "does-not-terminate", fmt.Sprintf("%s: the second subscription of the same observable never became quiescent (attempts %d, trace %s)", sc.Sub, s.Subs-used, rec2.Trace()))
			return
		}
		if got2 := eventsToN(rec2.Events); !sameN(got2, want) {
			e.Violate("C15", "output-second-subscription:"+sc.Sub, fmt.Sprintf("%s %v over attempts %s: the second subscription of the same observable delivered [%s], the first one (and the definition) [%s]", sc.Sub, sc.Ints, describeAttempts(sc), traceN(got2), traceN(want)))
		}
		if n := s.Subs - used; n != wantAttempts {
			e.Violate("C15", "attempt-count-second-subscription:"+sc.Sub, fmt.Sprintf("%s %v over attempts %s: the second subscription of the same observable made %d attempts, the definition prescribes %d", sc.Sub, sc.Ints, describeAttempts(sc), n, wantAttempts))
		}
	}
}

func describeAttempts(sc *Scn) string {
	s := ""
	for i, src := range sc.Sources {
		if i > 0 {
			s += " | "
		}
		s += traceN(scriptToN(src.Script))
	}
	return s
}
