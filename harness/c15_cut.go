package roverif

// C15.cut — the loop operators stop re-subscribing once the output has been unsubscribed: the attempt in
// progress may run to its end (these operators wait for it inside Subscribe, see the recorded finding about
// that), but no further attempt starts. The loop is started as the Catch fallback of an asynchronous source,
// i.e. on that source's goroutine, so that the caller holds a subscription it can cancel meanwhile.

import (
	"fmt"
	"time"

	"github.com/samber/ro"
)

func init() {
	Register(&Family{
		Name:   "C15.cut",
		Props:  []string{"C15", "C14"},
		Weight: 1,
		Gen: func(g *Gen) *Scn {
			sc := &Scn{Family: "C15.cut"}
			sc.Sub = g.Pick("RepeatWith", "Retry", "DoWhile", "While")
			ending := "C"
			if sc.Sub == "Retry" {
				ending = "E"
			}
			// every attempt: a couple of values spread over time, then the ending that makes the loop go on
			sc.Sources = []SrcSpec{{Mode: "timed", Script: []Step{{K: "N", V: 1, Gap: 1}, {K: "N", V: 2, Gap: 2}, {K: ending, V: 3, Gap: 1}}}}
			sc.SetInt("count", g.Range(2, 4))
			sc.SetInt("at", g.Range(1, 3)) // unsubscribe while attempt #at is in progress
			sc.SetInt("delay", g.Intn(2))
			if sc.Sub == "Retry" && g.Bool(0.5) {
				// unsubscribe between two attempts, while Retry sleeps its back-off delay
				sc.SetInt("phase", 1)
				sc.SetInt("delay", g.Range(2, 4))
			}
			return sc
		},
		Run: func(e *Env) {
			sc := e.Sc
			s := e.NewSrc(sc.Sources[0])
			count, at := sc.Int("count", 2), sc.Int("at", 1)
			evals := 0
			var loop func(ro.Observable[int]) ro.Observable[int]
			switch sc.Sub {
			case "RepeatWith":
				loop = ro.RepeatWith[int](int64(count))
			case "Retry":
				loop = ro.RetryWithConfig[int](ro.RetryConfig{MaxRetries: uint64(count), Delay: time.Duration(sc.Int("delay", 0)) * Unit})
			case "DoWhile":
				loop = ro.DoWhile[int](func() bool { evals++; return evals < count })
			default:
				loop = ro.While[int](func() bool { evals++; return evals <= count })
			}
			// the loop is the fallback of an asynchronous source that fails at once: it is subscribed (and runs)
			// on that source's goroutine, after the caller's Subscribe has returned
			trigger := e.NewSrc(SrcSpec{Mode: "async", Script: []Step{{K: "E", V: 9}}})
			o := ro.Catch(func(error) ro.Observable[int] { return loop(s.Obs()) })(trigger.Obs())
			rec := e.NewRec("o")
			h := e.Subscribe(o, rec.Observer(), nil)
			reached := func() bool { return s.Subs >= at && h.Ret() }
			if sc.Int("phase", 0) == 1 {
				reached = func() bool { return s.Subs >= at && s.Live == 0 && h.Ret() } // attempt #at is over: back-off
			}
			if !e.RunUntil(reached, 200) || e.K.Capped() {
				return
			}
			if rec.Terminal() != 0 || s.Subs != at {
				return // the loop is already over, or beyond the attempt we wanted to cut
			}
			cutAt := s.Subs
			e.Probe("c15-cut-reached")
			unsub := false
			e.Go("unsubscriber", func() { h.Sub().Unsubscribe(); unsub = true })
			e.SettleFor(400 * Unit)
			if e.K.Capped() {
				e.Violate("C15", "does-not-terminate", fmt.Sprintf("%s: unsubscribed during attempt #%d, the loop never became quiescent (attempts so far %d)", sc.Sub, cutAt, s.Subs))
				return
			}
			if !unsub {
				return
			}
			e.Probe(fmt.Sprintf("c15-cut-done-extra-attempts-%d", s.Subs-cutAt))
			if s.Subs > cutAt {
				e.Violate("C14", "attempt-after-unsubscribe:"+sc.Sub, fmt.Sprintf("%s(%d): downstream unsubscribed during attempt #%d; instead of being left alone the source was subscribed %d more time(s)", sc.Sub, count, cutAt, s.Subs-cutAt))
				e.Violate("C15", "attempt-after-unsubscribe:"+sc.Sub, fmt.Sprintf("%s(%d): the output was unsubscribed while attempt #%d was in progress, yet %d further attempt(s) were started afterwards", sc.Sub, count, cutAt, s.Subs-cutAt))
			}
		},
	})
}
