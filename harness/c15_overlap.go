package roverif

// C15.overlap — the looping operators keep the state of "the attempt in progress" per subscription: two
// subscriptions of the same observable that are alive at the same time, whose sources behave differently
// (the sources read from the subscription context which subscriber they play for), each end with the
// outcome their own attempts dictate.

import (
	"context"
	"fmt"
	"time"

	"github.com/samber/ro"
	"rosim/simcontext"
)

type c15Who struct{}

func c15OverlapSplit(sc *Scn) (a, b *Scn, ok bool) {
	k := sc.Int("k", 0)
	if k < 1 || len(sc.Sources) != 2*k {
		return nil, nil, false
	}
	a, b = cloneScn(sc), cloneScn(sc)
	a.Sources, b.Sources = a.Sources[:k], b.Sources[k:]
	return a, b, true
}

func init() {
	Register(&Family{
		Name:   "C15.overlap",
		Props:  []string{"C15"},
		Weight: 2,
		Gen: func(g *Gen) *Scn {
			sc := &Scn{Family: "C15.overlap"}
			sc.Sub = g.Pick("OnErrorResumeNextWith", "OnErrorResumeNextWith", "Catch", "Concat", "ConcatWith", "Retry", "RepeatWith")
			mode := g.Pick("timed", "timed", "async")
			k := g.Range(1, 3)
			if sc.Sub == "Catch" {
				k = 2
			}
			var att [][]Step
			for w := 0; w < 2; w++ {
				for i := 0; i < k; i++ {
					end := g.Pick("E", "E", "C")
					if sc.Sub == "Retry" && i == k-1 {
						end = "C" // the last script is replayed for further attempts: it ends the loop
					}
					att = append(att, genAttempt(g, 100*w+10*(i+1), end, mode == "timed"))
				}
			}
			switch sc.Sub {
			case "Retry":
				sc.SetInt("max", g.Range(0, 3))
				sc.SetInt("reset", g.Intn(2))
			case "RepeatWith":
				sc.SetInt("count", g.Range(1, 3))
			}
			encodeAttempts(sc, att, mode)
			sc.SetInt("k", k)
			sc.SetInt("stagger", g.Range(0, 3))
			return sc
		},
		Valid: func(sc *Scn) bool {
			a, b, ok := c15OverlapSplit(sc)
			if !ok {
				return false
			}
			v := families["C15.loop"].Valid
			return v(a) && v(b)
		},
		Run: runC15Overlap,
	})
}

func runC15Overlap(e *Env) {
	sc := e.Sc
	scA, scB, ok := c15OverlapSplit(sc)
	if !ok {
		return
	}
	k := sc.Int("k", 1)
	multi := sc.Sub == "Retry" || sc.Sub == "RepeatWith"
	who := func(ctx context.Context) int {
		if ctx == nil {
			return -1
		}
		if w, ok := ctx.Value(c15Who{}).(int); ok {
			return w
		}
		return -1
	}
	lost := false
	var srcs []*Src
	var o ro.Observable[int]
	if multi {
		s := e.NewSrc(sc.Sources[0])
		seen := [2]int{}
		s.ScriptPick = func(ctx context.Context, n int) []Step {
			w := who(ctx)
			if w < 0 {
				lost = true
				return nil
			}
			i := seen[w]
			seen[w]++
			if i >= k {
				i = k - 1
			}
			return sc.Sources[w*k+i].Script
		}
		srcs = []*Src{s}
		switch sc.Sub {
		case "Retry":
			o = ro.RetryWithConfig[int](ro.RetryConfig{MaxRetries: c15MaxRetries(sc), ResetOnSuccess: sc.Int("reset", 0) == 1})(s.Obs())
		default:
			o = ro.RepeatWith[int](int64(sc.Int("count", 1)))(s.Obs())
		}
	} else {
		var obs []ro.Observable[int]
		for i := 0; i < k; i++ {
			i := i
			s := e.NewSrc(sc.Sources[i])
			s.ScriptPick = func(ctx context.Context, n int) []Step {
				w := who(ctx)
				if w < 0 {
					lost = true
					return nil
				}
				return sc.Sources[w*k+i].Script
			}
			srcs = append(srcs, s)
			obs = append(obs, s.Obs())
		}
		switch sc.Sub {
		case "OnErrorResumeNextWith":
			o = ro.OnErrorResumeNextWith(obs[1:]...)(obs[0])
		case "Catch":
			o = ro.Catch(func(err error) ro.Observable[int] { return obs[1] })(obs[0])
		case "Concat":
			o = ro.Concat(obs...)
		default:
			o = ro.ConcatWith(obs[1:]...)(obs[0])
		}
	}
	base, cancel := simcontext.WithCancel(context.Background())
	defer cancel()
	recA, recB := e.NewRec("A"), e.NewRec("B")
	e.Subscribe(o, recA.Observer(), context.WithValue(base, c15Who{}, 0))
	if st := sc.Int("stagger", 0); st > 0 {
		e.SettleFor(time.Duration(st) * Unit)
	}
	e.Subscribe(o, recB.Observer(), context.WithValue(base, c15Who{}, 1))
	e.SettleFor(400 * Unit)
	if e.K.Capped() {
		return
	}
	if lost {
		// a source was subscribed with a context that does not carry the subscriber's values: the
		// scripts cannot be told apart (context propagation is judged by C09)
		e.Probe("who-lost")
		return
	}
	wantA, _ := c15Model(scA)
	wantB, _ := c15Model(scB)
	gotA, gotB := eventsToN(recA.Events), eventsToN(recB.Events)
	if !sameN(gotA, wantA) || !sameN(gotB, wantB) {
		e.Violate("C15", "overlap:"+sc.Sub, fmt.Sprintf("%s %v, two subscriptions alive at once: A over attempts %s delivered [%s] (the definition prescribes [%s]); B over attempts %s delivered [%s] (prescribed [%s])",
			sc.Sub, sc.Ints, describeAttempts(scA), traceN(gotA), traceN(wantA), describeAttempts(scB), traceN(gotB), traceN(wantB)))
	}
}
