package roverif

import (
	"context"
	"errors"
	"fmt"
	"math"
	"strconv"
	"strings"
	"time"

	"github.com/samber/ro"

	"rosim/simcontext"
)

// C16 — time-driven operators never act early and never reorder.
//
// Every oracle below is a LOWER bound on simulated time or an order/count relation, so that scheduler
// stalls (Ints["stall"]=1: the clock advances although an actor could run) can never raise a false alarm.
// The few checks that need an exact clock say so and are skipped when stall faults are on.
//
// Scenario encoding (all families):
//   Sub           the operator / creation function under test
//   Sources[0]    (operator families) the input timeline: N steps with distinct values and Gap (Units) before
//                 each step, optional terminal (C, E) as the last step
//   Ints[d]       the duration / period in Units (1,2,3,5)
//   Ints[cut]     0 none | 1 Unsubscribe from a harness actor | 2 cancellation of the subscription context
//   Ints[at]      instant of the cut (Units after the start), Ints[half]=1 adds half a Unit (between the ticks)
//   Ints[stall]   1 = stall faults on
//   periodic:     Ints[i] initial delay, [n] count, [start], [step], [desc], [item], [run] periods to watch
//   buffer:       Ints[count]
//
// Emission instants are taken on the producer side by a ro.Tap placed immediately before the operator.

func init() {
	Register(&Family{Name: "C16.delay", Props: []string{"C16"}, Weight: 3, MaxSteps: 60000, Gen: genC16Delay, Run: runC16Delay, Valid: c16Valid})
	Register(&Family{Name: "C16.periodic", Props: []string{"C16"}, Weight: 3, MaxSteps: 60000, Gen: genC16Periodic, Run: runC16Periodic, Valid: c16Valid})
	Register(&Family{Name: "C16.timeout", Props: []string{"C16"}, Weight: 3, MaxSteps: 60000, Gen: genC16Timeout, Run: runC16Timeout, Valid: c16Valid})
	Register(&Family{Name: "C16.throttle", Props: []string{"C16"}, Weight: 2, MaxSteps: 60000, Gen: genC16Throttle, Run: runC16Throttle, Valid: c16Valid})
	Register(&Family{Name: "C16.sample", Props: []string{"C16"}, Weight: 2, MaxSteps: 60000, Gen: genC16Sample, Run: runC16Sample, Valid: c16Valid})
	Register(&Family{Name: "C16.buffer", Props: []string{"C16"}, Weight: 3, MaxSteps: 60000, Gen: genC16Buffer, Run: runC16Buffer, Valid: c16Valid})
}

// ---------------------------------------------------------------------------------------------
// generation

var c16Durations = []int{1, 2, 3, 5}

// c16Timeline draws an input timeline whose gaps cluster around 0, d-1, d, d+1 and bursts.
func c16Timeline(g *Gen, d, maxN int) SrcSpec {
	n := g.Range(0, maxN)
	pattern := g.Pick("cluster", "cluster", "burst", "steady", "mixed")
	steady := g.Range(1, d+1)
	var script []Step
	allZero := true
	for i := 0; i < n; i++ {
		gap := 0
		switch pattern {
		case "cluster":
			gap = g.PickInt(0, d-1, d, d, d+1)
		case "burst":
			if !g.Bool(0.7) {
				gap = g.Range(1, 2*d+1)
			}
		case "steady":
			gap = steady
		default:
			gap = g.PickInt(0, 0, 1, d-1, d, d+1, 2*d)
		}
		if gap > 0 {
			allZero = false
		}
		script = append(script, Step{K: "N", V: 11 + i, Gap: gap})
	}
	endGap := g.PickInt(0, 0, 1, d-1, d, d+1)
	switch g.Pick("C", "C", "E", "-") {
	case "C":
		script = append(script, Step{K: "C", Gap: endGap})
		allZero = allZero && endGap == 0
	case "E":
		script = append(script, Step{K: "E", V: g.Range(1, 9), Gap: endGap})
		allZero = allZero && endGap == 0
	}
	mode := "timed"
	if allZero {
		mode = g.Pick("sync", "async", "timed")
	}
	return SrcSpec{Mode: mode, Script: script}
}

func c16ScriptSpan(spec SrcSpec) int {
	if spec.Mode != "timed" {
		return 0
	}
	t := 0
	for _, st := range spec.Script {
		t += st.Gap
	}
	return t
}

// c16Common draws the duration-independent part: stall faults in about a third of the scenarios and a cut in half.
func c16Common(g *Gen, sc *Scn, span int, cuts ...int) {
	if g.Bool(0.33) {
		sc.SetInt("stall", 1)
	}
	if len(cuts) > 0 && g.Bool(0.5) {
		sc.SetInt("cut", cuts[g.Intn(len(cuts))])
		sc.SetInt("at", g.Range(0, span+1))
		sc.SetInt("half", g.Intn(2))
	}
	sc.SetInt("ctxval", g.Intn(2))
	if g.Bool(0.25) {
		sc.SetInt("visitor", g.Range(0, 2*span)) // in half units
		sc.SetInt("vstay", g.Range(0, span))
	}
}

func genC16Delay(g *Gen) *Scn {
	sc := &Scn{Family: "C16.delay", Sub: g.Pick("Delay", "Delay", "DelayEach")}
	d := c16Durations[g.Intn(len(c16Durations))]
	sc.SetInt("d", d)
	spec := c16Timeline(g, d, 6)
	if sc.Sub == "Delay" && g.Bool(0.08) {
		// a few spaced values that get delivered, then a long burst: many notifications pending at once
		// after the queue has already been drained (whatever holds them has to grow mid-life)
		var script []Step
		for i, k := 0, g.Range(1, 12); i < k; i++ {
			script = append(script, Step{K: "N", V: 11 + i, Gap: g.PickInt(0, d+1, d+1)})
		}
		script = append(script, Step{K: "N", V: 11 + len(script), Gap: d + 1})
		for i, k := 0, g.Range(30, 70); i < k; i++ {
			script = append(script, Step{K: "N", V: 11 + len(script)})
		}
		script = append(script, Step{K: "C", Gap: g.PickInt(0, 0, 1)})
		spec = SrcSpec{Mode: "timed", Script: script}
	}
	sc.Sources = []SrcSpec{spec}
	c16Common(g, sc, c16ScriptSpan(spec)+2*d, 1)
	return sc
}

type c16VisitorKey struct{}

func genC16Timeout(g *Gen) *Scn {
	sc := &Scn{Family: "C16.timeout", Sub: "Timeout"}
	d := c16Durations[g.Intn(len(c16Durations))]
	sc.SetInt("d", d)
	spec := c16Timeline(g, d, 6)
	sc.Sources = []SrcSpec{spec}
	c16Common(g, sc, c16ScriptSpan(spec)+d, 1)
	return sc
}

func genC16Throttle(g *Gen) *Scn {
	sc := &Scn{Family: "C16.throttle", Sub: "ThrottleTime"}
	d := c16Durations[g.Intn(len(c16Durations))]
	sc.SetInt("d", d)
	spec := c16Timeline(g, d, 8)
	sc.Sources = []SrcSpec{spec}
	c16Common(g, sc, c16ScriptSpan(spec)+1, 1)
	if g.Bool(0.1) {
		sc.SetInt("huge", g.Range(1, 2)) // the largest window there is
	}
	return sc
}

func genC16Sample(g *Gen) *Scn {
	sc := &Scn{Family: "C16.sample", Sub: "SampleTime"}
	d := c16Durations[g.Intn(len(c16Durations))]
	sc.SetInt("d", d)
	spec := c16Timeline(g, d, 8)
	sc.Sources = []SrcSpec{spec}
	c16Common(g, sc, c16ScriptSpan(spec)+2*d, 1, 1, 2)
	return sc
}

func genC16Buffer(g *Gen) *Scn {
	sc := &Scn{Family: "C16.buffer", Sub: g.Pick("BufferWithTime", "BufferWithTimeOrCount", "BufferWithTimeOrCount")}
	d := c16Durations[g.Intn(len(c16Durations))]
	sc.SetInt("d", d)
	if sc.Sub == "BufferWithTimeOrCount" {
		sc.SetInt("count", g.Range(1, 3))
	}
	spec := c16Timeline(g, d, 8)
	sc.Sources = []SrcSpec{spec}
	c16Common(g, sc, c16ScriptSpan(spec)+2*d, 1, 1, 2)
	return sc
}

var c16PeriodicSubs = []string{"Interval", "IntervalWithInitial", "IntervalWithInitial", "RangeWithInterval", "RangeWithStepAndInterval", "RepeatWithInterval", "Timer"}

func genC16Periodic(g *Gen) *Scn {
	sc := &Scn{Family: "C16.periodic", Sub: c16PeriodicSubs[g.Intn(len(c16PeriodicSubs))]}
	p := c16Durations[g.Intn(len(c16Durations))]
	sc.SetInt("d", p)
	first := p
	run := g.Range(1, 6)
	sc.SetInt("run", run)
	switch sc.Sub {
	case "IntervalWithInitial":
		// initial delay below, at and above the period; 0 is the documented "immediate first value" case
		i := g.PickInt(0, 1, p-1, p, p+1, 2*p, 2*p+1, -1, -p)
		sc.SetInt("i", i) // a negative initial delay counts as none
		first = i
		if first < 0 {
			first = 0
		}
	case "RangeWithInterval":
		sc.SetInt("start", g.Range(-3, 5))
		sc.SetInt("n", g.Range(0, 5))
		sc.SetInt("desc", g.Intn(2))
	case "RangeWithStepAndInterval":
		step := g.Range(1, 3)
		sc.SetInt("start", g.Range(-3, 5))
		sc.SetInt("n", g.Range(0, 5))
		sc.SetInt("step", step)
		sc.SetInt("rem", g.Intn(step)) // the end lies rem (< step) beyond the last multiple
		sc.SetInt("desc", g.Intn(2))
	case "RepeatWithInterval":
		sc.SetInt("item", g.Range(1, 9))
		sc.SetInt("n", g.Range(0, 5))
	}
	span := first + run*p
	if sc.Sub == "Timer" {
		c16Common(g, sc, span, 2) // Timer waits inside Subscribe: only the context can cut it
	} else {
		c16Common(g, sc, span, 1, 2)
	}
	return sc
}

// c16Valid rejects scenarios (shrink candidates) outside the families' domain.
func c16Valid(sc *Scn) bool { return c16Problem(sc) == "" }

func c16Problem(sc *Scn) string {
	d := sc.Int("d", 0)
	if d < 1 {
		return "duration below one Unit"
	}
	cut := sc.Int("cut", 0)
	if cut < 0 || cut > 2 || sc.Int("at", 0) < 0 {
		return "illegal cut"
	}
	needScript := true
	switch sc.Family {
	case "C16.delay":
		if sc.Sub != "Delay" && sc.Sub != "DelayEach" {
			return "unknown operator " + sc.Sub
		}
		if cut == 2 {
			return "Delay does not watch the context"
		}
	case "C16.timeout":
		if sc.Sub != "Timeout" || cut == 2 {
			return "illegal Timeout scenario"
		}
	case "C16.throttle":
		if sc.Sub != "ThrottleTime" || cut == 2 {
			return "illegal ThrottleTime scenario"
		}
	case "C16.sample":
		if sc.Sub != "SampleTime" {
			return "unknown operator " + sc.Sub
		}
	case "C16.buffer":
		switch sc.Sub {
		case "BufferWithTime":
		case "BufferWithTimeOrCount":
			if sc.Int("count", 0) < 1 {
				return "count below 1"
			}
		default:
			return "unknown operator " + sc.Sub
		}
	case "C16.periodic":
		needScript = false
		if sc.Int("run", 0) < 1 || sc.Int("n", 0) < 0 || sc.Int("i", 0) < -64 {
			return "illegal periodic parameters"
		}
		switch sc.Sub {
		case "Interval", "IntervalWithInitial", "RangeWithInterval", "RepeatWithInterval":
		case "RangeWithStepAndInterval":
			if sc.Int("step", 0) < 1 || sc.Int("rem", 0) < 0 || sc.Int("rem", 0) >= sc.Int("step", 0) {
				return "illegal step"
			}
		case "Timer":
			if cut == 1 {
				return "Timer cannot be unsubscribed while it waits inside Subscribe"
			}
		default:
			return "unknown source " + sc.Sub
		}
	default:
		return "unknown family " + sc.Family
	}
	if needScript {
		if len(sc.Sources) != 1 {
			return "exactly one source expected"
		}
		spec := sc.Sources[0]
		switch spec.Mode {
		case "timed", "sync", "async":
		default:
			return "unsupported source mode " + spec.Mode
		}
		if spec.Producers > 1 {
			return "single producer expected"
		}
		seen := map[int]bool{}
		for i, st := range spec.Script {
			if st.Gap < 0 {
				return "negative gap"
			}
			switch st.K {
			case "N":
				if seen[st.V] {
					return "duplicate value"
				}
				seen[st.V] = true
			case "C", "E":
				if i != len(spec.Script)-1 {
					return "terminal before the end of the script"
				}
			default:
				return "unknown step kind"
			}
		}
	}
	return ""
}

func c16MustBeValid(sc *Scn) {
	if p := c16Problem(sc); p != "" {
		panic("C16: illegal scenario: " + p)
	}
}

// ---------------------------------------------------------------------------------------------
// recording

// c16Emit is one notification seen by the tap in front of the operator.
type c16Emit struct {
	K    byte
	V    int
	Err  error
	T    time.Duration
	Step int
}

func (m c16Emit) String() string {
	switch m.K {
	case 'N':
		return fmt.Sprintf("N%d@%s", m.V, c16U(m.T))
	case 'E':
		return fmt.Sprintf("E(%s)@%s", errCode(m.Err), c16U(m.T))
	}
	return "C@" + c16U(m.T)
}

// c16Tap logs what the source emits into the operator under test. Only the judged subscription is logged: a
// visiting second subscriber (c16Visit) runs the cold source once more under a context that says so.
func c16Tap(e *Env, log *[]c16Emit) func(ro.Observable[int]) ro.Observable[int] {
	visitor := func(ctx context.Context) bool { return ctx != nil && ctx.Value(c16VisitorKey{}) != nil }
	if e.Sc.Int("ctxval", 0) == 1 {
		// the values travel with a context derived from the subscription's (another concrete type than a
		// plain Background): what the operator stores or hands to its timers must not care
		tap := c16TapPlain(e, log, visitor)
		withVal := ro.ContextWithValue[int](ctxKey("c16"), "item")
		return func(src ro.Observable[int]) ro.Observable[int] { return withVal(tap(src)) }
	}
	return c16TapPlain(e, log, visitor)
}

func c16TapPlain(e *Env, log *[]c16Emit, visitor func(context.Context) bool) func(ro.Observable[int]) ro.Observable[int] {
	return ro.TapWithContext(
		func(ctx context.Context, v int) {
			if !visitor(ctx) {
				*log = append(*log, c16Emit{K: 'N', V: v, T: e.K.Now(), Step: e.Step()})
			}
		},
		func(ctx context.Context, err error) {
			if !visitor(ctx) {
				*log = append(*log, c16Emit{K: 'E', Err: err, T: e.K.Now(), Step: e.Step()})
			}
		},
		func(ctx context.Context) {
			if !visitor(ctx) {
				*log = append(*log, c16Emit{K: 'C', T: e.K.Now(), Step: e.Step()})
			}
		},
	)
}

// c16Visit: with Ints[visitor] a second subscriber of the same observable comes (after visitor half units) and
// goes (vstay half units later) while the judged subscription is being served: timers, queues, gates and
// buffers belong to a subscription, not to the operator value.
func c16Visit[T any](e *Env, o ro.Observable[T]) {
	sc := e.Sc
	at := sc.Int("visitor", -1)
	if at < 0 {
		return
	}
	e.Go("visitor", func() {
		simSleep(time.Duration(at) * Unit / 2)
		vctx := context.WithValue(context.Background(), c16VisitorKey{}, true)
		vsub := o.SubscribeWithContext(vctx, ro.NewObserver(func(T) {}, func(error) {}, func() {}))
		simSleep(time.Duration(sc.Int("vstay", 0)) * Unit / 2)
		vsub.Unsubscribe()
	})
}

func c16U(d time.Duration) string {
	if d%Unit == 0 {
		return strconv.Itoa(int(d / Unit))
	}
	return strconv.FormatFloat(float64(d)/float64(Unit), 'f', -1, 64)
}

func c16FmtEmits(ms []c16Emit) string {
	parts := make([]string, len(ms))
	for i, m := range ms {
		parts[i] = m.String()
	}
	return "[" + strings.Join(parts, " ") + "]"
}

func c16FmtRec(rec *Rec) string {
	parts := make([]string, len(rec.Events))
	for i, ev := range rec.Events {
		parts[i] = ev.String() + "@" + c16U(ev.T)
	}
	return "[" + strings.Join(parts, " ") + "]"
}

// c16SliceEv is one callback of an observer of []int.
type c16SliceEv struct {
	K     byte
	Vs    []int
	Err   error
	T     time.Duration
	Enter int
}

type c16SliceRec struct {
	e      *Env
	Events []c16SliceEv
	prev   []int
}

func (r *c16SliceRec) Observer() ro.Observer[[]int] {
	add := func(ev c16SliceEv) {
		ev.T, ev.Enter = r.e.K.Now(), r.e.Step()
		r.Events = append(r.Events, ev)
		r.e.K.Log("obs buffers " + c16FmtSliceEv(ev))
		r.e.Yield()
	}
	return ro.NewObserverWithContext(
		func(ctx context.Context, vs []int) {
			// the consumer owns the buffers it was handed: it adds a trailer to the previous one when the
			// next arrives (a write into that buffer's spare capacity, nobody else's business)
			if r.prev != nil {
				_ = append(r.prev, -9)
			}
			r.prev = vs
			add(c16SliceEv{K: 'N', Vs: append([]int(nil), vs...)})
		},
		func(ctx context.Context, err error) { add(c16SliceEv{K: 'E', Err: err}) },
		func(ctx context.Context) { add(c16SliceEv{K: 'C'}) },
	)
}

func c16FmtSliceEv(ev c16SliceEv) string {
	switch ev.K {
	case 'N':
		return fmt.Sprintf("%v@%s", ev.Vs, c16U(ev.T))
	case 'E':
		return fmt.Sprintf("E(%s)@%s", errCode(ev.Err), c16U(ev.T))
	}
	return "C@" + c16U(ev.T)
}

func c16FmtSliceRec(r *c16SliceRec) string {
	parts := make([]string, len(r.Events))
	for i, ev := range r.Events {
		parts[i] = c16FmtSliceEv(ev)
	}
	return "[" + strings.Join(parts, " ") + "]"
}

// ---------------------------------------------------------------------------------------------
// subscription, cut and the silence-after-cut oracle (shared by all families)

type c16Session struct {
	Sub0 time.Duration // instant at which the subscription was requested (<= the instant Subscribe began)
	H    *SubHandle

	CutKind     int
	CutAt       time.Duration
	CutInvoked  bool
	CutReturned bool
	CutSkipped  bool
	CutInvokeT  time.Duration
	CutRetT     time.Duration
	CutSettled  bool // the cut call returned and the system then became quiescent without the clock moving
	AtCut       int  // callbacks entered by then
}

func (s *c16Session) String() string {
	switch {
	case s.CutKind == 0:
		return "cut=none"
	case !s.CutInvoked:
		return "cut=not-reached"
	}
	what := "Unsubscribe"
	if s.CutKind == 2 {
		what = "context-cancel"
	}
	return fmt.Sprintf("cut=%s called@%s returned@%s", what, c16U(s.CutInvokeT), c16U(s.CutRetT))
}

func c16Subscribe[T any](e *Env, o ro.Observable[T], obs ro.Observer[T], ctx context.Context) *SubHandle {
	h := &SubHandle{Invoke: e.Step()}
	h.Actor = e.Go("subscriber", func() {
		defer func() {
			if r := recover(); r != nil {
				h.Panic = r
				e.K.Log(fmt.Sprintf("Subscribe panicked: %v", r))
			}
		}()
		var s ro.Subscription
		if ctx == nil {
			s = o.Subscribe(obs)
		} else {
			s = o.SubscribeWithContext(ctx, obs)
		}
		h.S = s
		h.Returned = true
		h.RetStep = e.Step()
		e.K.Log("Subscribe returned")
	})
	return h
}

// c16Quiesce settles without moving the clock, robustly. An actor that spin-waits (the library's spin lock: a
// simulated runtime.Gosched loop) is re-enabled only when a *runnable* actor takes a step; when the lock holder
// released the lock on its way into a sleep or a blocking operation nobody does, and Settle reports a quiescence
// that hides an actor which could run. A step of the driver re-enables the spinners; repeat until nobody moves.
func c16Quiesce(e *Env) {
	for i := 0; i < 16; i++ {
		e.Settle()
		before := e.Step()
		e.Yield()
		e.Settle()
		if e.K.Capped() || e.Step()-before <= 2 {
			return
		}
	}
}

// c16Play subscribes obs to o, applies the scenario's cut and lets `horizon` of simulated time pass (after the
// cut, if any). count reports the number of callbacks the observer has entered. The result is false when the
// step cap was hit (nothing may be judged then).
func c16Play[T any](e *Env, s *c16Session, o ro.Observable[T], obs ro.Observer[T], count func() int, horizon time.Duration, describe func() string) bool {
	sc := e.Sc
	s.CutKind = sc.Int("cut", 0)
	s.CutAt = dur(sc.Int("at", 0)) + time.Duration(sc.Int("half", 0))*Unit/2
	var ctx context.Context
	var cancel context.CancelFunc
	if s.CutKind == 2 {
		ctx, cancel = simcontext.WithCancel(context.Background())
	}
	s.Sub0 = e.K.Now()
	s.H = c16Subscribe(e, o, obs, ctx)
	c16Visit(e, o)
	if s.CutKind == 0 {
		e.SettleFor(horizon)
		c16Quiesce(e)
		return !e.K.Capped()
	}
	e.Go("cutter", func() {
		simSleep(s.CutAt)
		if s.CutKind == 1 {
			e.WaitFor(func() bool { return s.H.Returned || s.H.Panic != nil })
			if s.H.S == nil {
				s.CutSkipped = true
				return
			}
		}
		s.CutInvoked = true
		s.CutInvokeT = e.K.Now()
		e.K.Log("cut invoked")
		func() {
			defer func() {
				if r := recover(); r != nil {
					e.Violate("C16", "cut-panics", fmt.Sprintf("the %s panicked: %v (%s)", s, r, describe()))
				}
			}()
			if s.CutKind == 1 {
				s.H.S.Unsubscribe()
			} else {
				cancel()
			}
		}()
		s.CutRetT = e.K.Now()
		s.CutReturned = true
		e.K.Log("cut returned")
	})
	e.RunUntil(func() bool { return s.CutReturned || s.CutSkipped }, int((s.CutAt+horizon)/Unit)+2)
	if e.K.Capped() {
		return false
	}
	if s.CutReturned {
		// RunUntil evaluates its condition at a quiescent point reached without moving the clock
		c16Quiesce(e)
		if e.K.Capped() {
			return false
		}
		s.CutSettled = true
		s.AtCut = count()
		e.Probe("c16-cut-applied")
	} else {
		e.Probe("c16-cut-not-reached")
	}
	e.SettleFor(horizon)
	c16Quiesce(e)
	if e.K.Capped() {
		return false
	}
	if s.CutSettled && count() > s.AtCut {
		e.Violate("C16", "delivery-after-cut", fmt.Sprintf("%d callback(s) entered after the %s and the system had settled (the first %d callbacks came before): %s", count()-s.AtCut, s, s.AtCut, describe()))
	}
	return true
}

// ---------------------------------------------------------------------------------------------
// C16.delay

func runC16Delay(e *Env) {
	sc := e.Sc
	c16MustBeValid(sc)
	d := dur(sc.Int("d", 1))
	spec := sc.Sources[0]
	src := e.NewSrc(spec)
	var emits []c16Emit
	tapped := c16Tap(e, &emits)(src.Obs())
	var o ro.Observable[int]
	if sc.Sub == "Delay" {
		o = ro.Delay[int](d)(tapped)
	} else {
		o = ro.DelayEach[int](d)(tapped)
	}
	rec := e.NewRec("o")
	s := &c16Session{}
	describe := func() string {
		return fmt.Sprintf("%s(%su) mode=%s emitted(before the operator)=%s delivered=%s %s", sc.Sub, c16U(d), spec.Mode, c16FmtEmits(emits), c16FmtRec(rec), s)
	}
	horizon := dur(c16ScriptSpan(spec)) + time.Duration(len(spec.Script)+3)*d + 4*Unit
	ok := c16Play(e, s, o, rec.Observer(), func() int { return len(rec.Events) }, horizon, describe)
	if !ok {
		return
	}
	// order: what was delivered is a prefix of what was emitted (values, then the terminal: terminal last)
	for i, ev := range rec.Events {
		if i >= len(emits) {
			e.Violate("C16", "invented", fmt.Sprintf("callback #%d (%s) has no emission to correspond to: %s", i, ev, describe()))
			return
		}
		em := emits[i]
		if ev.K != em.K || (ev.K == 'N' && ev.V != em.V) || (ev.K == 'E' && ev.Err != em.Err) {
			e.Violate("C16", "order", fmt.Sprintf("callback #%d is %s but emission #%d was %s: delivery order differs from emission order: %s", i, ev, i, em, describe()))
			return
		}
		// time: values always; Error and Complete for Delay only ("Error and Complete notifications are delayed
		// as well"), DelayEach documents nothing about terminals
		if ev.K == 'N' || sc.Sub == "Delay" {
			if ev.T < em.T+d {
				e.Violate("C16", "early", fmt.Sprintf("%s was emitted at unit %s and delivered at unit %s, sooner than its delay of %s unit(s): %s", ev, c16U(em.T), c16U(ev.T), c16U(d), describe()))
				return
			}
		}
	}
	if len(rec.Events) == len(emits) {
		e.Probe("c16-delay-all-delivered")
	}
}

// ---------------------------------------------------------------------------------------------
// C16.periodic

func runC16Periodic(e *Env) {
	sc := e.Sc
	c16MustBeValid(sc)
	pu := sc.Int("d", 1)
	p := dur(pu)
	n := sc.Int("n", 0)
	start, step := sc.Int("start", 0), sc.Int("step", 1)
	sign := 1
	if sc.Int("desc", 0) == 1 {
		sign = -1
	}
	first := p
	bounded := false
	var want func(k int) int
	i64 := ro.Map(func(x int64) int { return int(x) })
	var o ro.Observable[int]
	params := ""
	switch sc.Sub {
	case "Interval":
		o = i64(ro.Interval(p))
		want = func(k int) int { return k }
	case "IntervalWithInitial":
		first = dur(sc.Int("i", 0))
		o = i64(ro.IntervalWithInitial(first, p))
		if first < 0 {
			first = 0 // the lower bounds below count from the subscription
		}
		want = func(k int) int { return k }
		params = fmt.Sprintf(" initial=%su", c16U(first))
	case "RangeWithInterval":
		bounded = true
		end := start + sign*n
		o = i64(ro.RangeWithInterval(int64(start), int64(end), p))
		want = func(k int) int { return start + sign*k }
		params = fmt.Sprintf(" range=[%d:%d)", start, end)
	case "RangeWithStepAndInterval":
		bounded = true
		end := start + sign*(n*step+sc.Int("rem", 0))
		o = ro.Map(func(x float64) int { return int(math.Round(x)) })(ro.RangeWithStepAndInterval(float64(start), float64(end), float64(step), p))
		want = func(k int) int { return start + sign*k*step }
		params = fmt.Sprintf(" range=[%d:%d) step=%d", start, end, step)
	case "RepeatWithInterval":
		bounded = true
		item := sc.Int("item", 1)
		o = ro.RepeatWithInterval(item, int64(n), p)
		want = func(k int) int { return item }
		params = fmt.Sprintf(" item=%d count=%d", item, n)
	case "Timer":
		bounded = true
		n = 1
		o = ro.Map(func(t time.Duration) int { return int(t / Unit) })(ro.Timer(p))
		want = func(k int) int { return pu }
	}
	rec := e.NewRec("o")
	s := &c16Session{}
	describe := func() string {
		return fmt.Sprintf("%s(period=%su%s) subscription requested at unit %s, delivered=%s %s", sc.Sub, c16U(p), params, c16U(s.Sub0), c16FmtRec(rec), s)
	}
	horizon := first + time.Duration(sc.Int("run", 1))*p + Unit/2
	ok := c16Play(e, s, o, rec.Observer(), func() int { return len(rec.Events) }, horizon, describe)
	if !ok {
		return
	}
	k := 0
	for _, ev := range rec.Events {
		switch ev.K {
		case 'N':
			if bounded && k >= n {
				e.Violate("C16", "too-many", fmt.Sprintf("value #%d delivered by a source of %d value(s): %s", k, n, describe()))
				return
			}
			if ev.V != want(k) {
				e.Violate("C16", "sequence", fmt.Sprintf("value #%d is %d, expected %d: %s", k, ev.V, want(k), describe()))
				return
			}
			lower := s.Sub0 + first + time.Duration(k)*p
			if ev.T < lower {
				e.Violate("C16", "early", fmt.Sprintf("value #%d (%d) delivered at unit %s, before unit %s = subscription + %su + %d period(s): %s", k, ev.V, c16U(ev.T), c16U(lower), c16U(first), k, describe()))
				return
			}
			k++
		case 'E':
			if s.CutKind == 2 && s.CutInvoked && errors.Is(ev.Err, context.Canceled) {
				e.Probe("c16-periodic-cancel-error")
				break
			}
			if sc.Sub == "IntervalWithInitial" && first == 0 {
				e.Violate("C16", "interval-initial-zero", fmt.Sprintf("IntervalWithInitial(0, %su) ended with Error(%v) instead of emitting 0 at once and then 1, 2, ... every period: %s", c16U(p), ev.Err, describe()))
				return
			}
			e.Violate("C16", "unexpected-error", fmt.Sprintf("the source ended with Error(%v): %s", ev.Err, describe()))
			return
		case 'C':
			if !bounded && !(s.CutInvoked) {
				e.Violate("C16", "spurious-complete", fmt.Sprintf("an endless periodic source completed without having been cut: %s", describe()))
				return
			}
			if bounded && k != n && !s.CutInvoked {
				e.Violate("C16", "count", fmt.Sprintf("completed after %d value(s), %d expected: %s", k, n, describe()))
				return
			}
		}
	}
	if k > 0 {
		e.Probe("c16-periodic-values-seen")
	}
}

// ---------------------------------------------------------------------------------------------
// C16.timeout

const c16TimeoutPrefix = "ro.Timeout: timeout after "

func c16IsTimeoutErr(err error) bool {
	return err != nil && strings.HasPrefix(err.Error(), c16TimeoutPrefix)
}

func runC16Timeout(e *Env) {
	sc := e.Sc
	c16MustBeValid(sc)
	d := dur(sc.Int("d", 1))
	stall := sc.Int("stall", 0) == 1
	spec := sc.Sources[0]
	src := e.NewSrc(spec)
	var emits []c16Emit
	o := ro.Timeout[int](d)(c16Tap(e, &emits)(src.Obs()))
	rec := e.NewRec("o")

	// dropped timeout errors, with their instants (a timer that fires into a terminated subscription)
	type drop struct {
		S string
		T time.Duration
	}
	var drops []drop
	prev := ro.OnDroppedNotification
	ro.OnDroppedNotification = func(ctx context.Context, n fmt.Stringer) {
		// (the visiting subscriber's own timer is not the judged subscription's business)
		if str := n.String(); strings.HasPrefix(str, "Error("+c16TimeoutPrefix) && (ctx == nil || ctx.Value(c16VisitorKey{}) == nil) {
			drops = append(drops, drop{str, e.K.Now()})
		}
		prev(ctx, n)
	}
	defer func() { ro.OnDroppedNotification = prev }()

	s := &c16Session{}
	describe := func() string {
		return fmt.Sprintf("Timeout(%su) mode=%s subscription requested at unit %s, emitted(before the operator)=%s delivered=%s %s", c16U(d), spec.Mode, c16U(s.Sub0), c16FmtEmits(emits), c16FmtRec(rec), s)
	}
	horizon := dur(c16ScriptSpan(spec)) + 2*d + 4*Unit
	ok := c16Play(e, s, o, rec.Observer(), func() int { return len(rec.Events) }, horizon, describe)
	if !ok {
		return
	}
	// values pass unchanged and in order: the delivered values are a prefix of the emitted ones
	var inVals []c16Emit
	var srcTerm *c16Emit
	for i := range emits {
		if emits[i].K == 'N' {
			inVals = append(inVals, emits[i])
		} else if srcTerm == nil {
			srcTerm = &emits[i]
		}
	}
	deliveredAt := map[int]time.Duration{}
	nv := 0
	var errEv *Ev
	for i := range rec.Events {
		ev := &rec.Events[i]
		switch ev.K {
		case 'N':
			if nv >= len(inVals) || inVals[nv].V != ev.V {
				e.Violate("C16", "order", fmt.Sprintf("delivered value #%d (%d) is not the #%d emitted value: %s", nv, ev.V, nv, describe()))
				return
			}
			deliveredAt[ev.V] = ev.T
			nv++
		case 'E':
			if errEv == nil {
				errEv = ev
			}
		}
	}
	if errEv != nil {
		switch {
		case c16IsTimeoutErr(errEv.Err):
			e.Probe("c16-timeout-fired")
			if errEv.Err.Error() != c16TimeoutPrefix+d.String() {
				e.Violate("C16", "wrong-error", fmt.Sprintf("timeout error %q does not name the configured duration %v: %s", errEv.Err, d, describe()))
			}
			// A legitimate firing: the timer was armed at the subscription or right after some value v_i was
			// forwarded (not before the tap saw v_i), ran for a full d without being stopped, i.e. the next value
			// reached the operator's Stop no earlier than arm+d. The tap instant of v_i bounds the arming from
			// below; the delivery instant of v_(i+1) bounds its Stop from above (Stop precedes the forwarding);
			// a value that was tapped but never delivered arrived after the timer had fired.
			type arm struct {
				at   time.Duration
				next int // index in inVals of the value following this arming, or len(inVals)
			}
			arms := []arm{{s.Sub0, 0}}
			for i, m := range inVals {
				if m.Step < errEv.Enter {
					arms = append(arms, arm{m.T, i + 1})
				}
			}
			justified := false
			for _, a := range arms {
				if errEv.T < a.at+d {
					continue
				}
				if a.next < len(inVals) && inVals[a.next].Step < errEv.Enter {
					if t, delivered := deliveredAt[inVals[a.next].V]; delivered && t < a.at+d {
						continue
					}
				}
				justified = true
				break
			}
			if !justified {
				e.Violate("C16", "timeout-early", fmt.Sprintf("the timeout error was raised at unit %s although no quiet period of %s unit(s) (since the subscription or since a value) had elapsed: %s", c16U(errEv.T), c16U(d), describe()))
			}
			// never once the source has terminated (exact clock needed: a stalled timer goroutine that fired
			// before the terminal arrived may legitimately deliver later)
			if !stall && srcTerm != nil && srcTerm.Step < errEv.Enter && errEv.T > srcTerm.T {
				e.Violate("C16", "timeout-after-terminal", fmt.Sprintf("the source terminated at unit %s (%s) and the timeout error was raised later, at unit %s: %s", c16U(srcTerm.T), srcTerm, c16U(errEv.T), describe()))
			}
		case srcTerm != nil && srcTerm.K == 'E' && errEv.Err == srcTerm.Err:
			// the source's own error
		default:
			e.Violate("C16", "wrong-error", fmt.Sprintf("Error(%v) is neither the source's error nor ro's timeout error: %s", errEv.Err, describe()))
		}
	}
	if !stall {
		// the observer got the source's terminal: a timeout error raised (and dropped) at a later instant means
		// the timer was still armed after the source had terminated
		for _, ev := range rec.Events {
			if ev.K == 'N' || (ev.K == 'E' && c16IsTimeoutErr(ev.Err)) {
				continue
			}
			for _, dr := range drops {
				if dr.T > ev.T {
					e.Violate("C16", "timeout-after-terminal", fmt.Sprintf("the source's terminal was delivered at unit %s and the operator raised %s at unit %s (dropped by the closed subscriber): the timer was still running after the source had terminated: %s", c16U(ev.T), dr.S, c16U(dr.T), describe()))
					break
				}
			}
			break
		}
	}
}

// ---------------------------------------------------------------------------------------------
// C16.throttle

// c16Subsequence maps every delivered value to its emission, in order; it returns the index in outs at which the
// mapping fails (-1 if outs is a subsequence of the emitted values, each emission used at most once).
func c16Subsequence(outs []Ev, emits []c16Emit) (idx []int, bad int) {
	pos := 0
	for i, ev := range outs {
		for pos < len(emits) && !(emits[pos].K == 'N' && emits[pos].V == ev.V) {
			pos++
		}
		if pos == len(emits) {
			return idx, i
		}
		idx = append(idx, pos)
		pos++
	}
	return idx, -1
}

func c16ValueEvents(rec *Rec) []Ev {
	var out []Ev
	for _, ev := range rec.Events {
		if ev.K == 'N' {
			out = append(out, ev)
		}
	}
	return out
}

func runC16Throttle(e *Env) {
	sc := e.Sc
	c16MustBeValid(sc)
	d := dur(sc.Int("d", 1))
	huge := sc.Int("huge", 0)
	switch huge {
	case 1:
		d = time.Duration(math.MaxInt64) // "for ever": one window for the whole life of the subscription
	case 2:
		d = time.Duration(math.MaxInt64 - int64(30*time.Minute))
	}
	spec := sc.Sources[0]
	src := e.NewSrc(spec)
	var emits []c16Emit
	o := ro.ThrottleTime[int](d)(c16Tap(e, &emits)(src.Obs()))
	rec := e.NewRec("o")
	s := &c16Session{}
	describe := func() string {
		return fmt.Sprintf("ThrottleTime(%su) mode=%s emitted(before the operator)=%s delivered=%s %s", c16U(d), spec.Mode, c16FmtEmits(emits), c16FmtRec(rec), s)
	}
	horizon := dur(c16ScriptSpan(spec)) + d + 4*Unit
	if huge > 0 {
		horizon = dur(c16ScriptSpan(spec)) + 8*Unit
	}
	ok := c16Play(e, s, o, rec.Observer(), func() int { return len(rec.Events) }, horizon, describe)
	if !ok {
		return
	}
	outs := c16ValueEvents(rec)
	idx, bad := c16Subsequence(outs, emits)
	if bad >= 0 {
		e.Violate("C16", "not-a-subsequence", fmt.Sprintf("delivered value #%d (%d) was not emitted by the source after the previously delivered one (invented, repeated or out of order): %s", bad, outs[bad].V, describe()))
		return
	}
	// at most one value per window: the operator read its clock for value j no earlier than the tap saw it and
	// for value j+1 no later than it was delivered
	for j := 0; j+1 < len(outs); j++ {
		prevEmit := emits[idx[j]]
		if outs[j+1].T-prevEmit.T < d {
			e.Violate("C16", "window", fmt.Sprintf("values %d and %d both passed although %d was delivered at unit %s, less than %s unit(s) after %d had been emitted at unit %s: %s", outs[j].V, outs[j+1].V, outs[j+1].V, c16U(outs[j+1].T), c16U(d), outs[j].V, c16U(prevEmit.T), describe()))
			return
		}
	}
	// "emits a value from the source Observable, then ignores subsequent source values for duration": the first
	// value passes (the simulated process is one hour old, far beyond any window)
	if s.CutKind == 0 && huge == 0 {
		var firstIn *c16Emit
		for i := range emits {
			if emits[i].K == 'N' {
				firstIn = &emits[i]
				break
			}
		}
		if firstIn != nil && (len(outs) == 0 || outs[0].V != firstIn.V) {
			e.Violate("C16", "first-dropped", fmt.Sprintf("the first source value %d was not let through: %s", firstIn.V, describe()))
		}
	}
	if len(outs) > 1 {
		e.Probe("c16-throttle-window-reopened")
	}
}

// ---------------------------------------------------------------------------------------------
// C16.sample

func runC16Sample(e *Env) {
	sc := e.Sc
	c16MustBeValid(sc)
	d := dur(sc.Int("d", 1))
	spec := sc.Sources[0]
	src := e.NewSrc(spec)
	var emits []c16Emit
	o := ro.SampleTime[int](d)(c16Tap(e, &emits)(src.Obs()))
	rec := e.NewRec("o")
	s := &c16Session{}
	describe := func() string {
		return fmt.Sprintf("SampleTime(%su) mode=%s subscription requested at unit %s, emitted(before the operator)=%s delivered=%s %s", c16U(d), spec.Mode, c16U(s.Sub0), c16FmtEmits(emits), c16FmtRec(rec), s)
	}
	horizon := dur(c16ScriptSpan(spec)) + 2*d + 4*Unit
	ok := c16Play(e, s, o, rec.Observer(), func() int { return len(rec.Events) }, horizon, describe)
	if !ok {
		return
	}
	outs := c16ValueEvents(rec)
	_, bad := c16Subsequence(outs, emits)
	if bad >= 0 {
		e.Violate("C16", "not-a-subsequence", fmt.Sprintf("delivered value #%d (%d) was not emitted by the source after the previously delivered one (invented, sampled twice or out of order): %s", bad, outs[bad].V, describe()))
		return
	}
	// at most one value per tick: the k-th output needs k+1 ticks, the j-th tick is not before j periods after
	// the subscription
	for k, ev := range outs {
		lower := s.Sub0 + time.Duration(k+1)*d
		if ev.T < lower {
			e.Violate("C16", "more-than-one-per-tick", fmt.Sprintf("output #%d (%d) delivered at unit %s, before tick #%d can have happened (unit %s): %s", k, ev.V, c16U(ev.T), k+1, c16U(lower), describe()))
			return
		}
	}
	if len(outs) > 0 {
		e.Probe("c16-sample-emitted")
	}
}

// ---------------------------------------------------------------------------------------------
// C16.buffer

func runC16Buffer(e *Env) {
	sc := e.Sc
	c16MustBeValid(sc)
	d := dur(sc.Int("d", 1))
	count := sc.Int("count", 0)
	spec := sc.Sources[0]
	src := e.NewSrc(spec)
	var emits []c16Emit
	tapped := c16Tap(e, &emits)(src.Obs())
	var o ro.Observable[[]int]
	name := ""
	if sc.Sub == "BufferWithTime" {
		o = ro.BufferWithTime[int](d)(tapped)
		name = fmt.Sprintf("BufferWithTime(%su)", c16U(d))
	} else {
		o = ro.BufferWithTimeOrCount[int](count, d)(tapped)
		name = fmt.Sprintf("BufferWithTimeOrCount(%d, %su)", count, c16U(d))
	}
	rec := &c16SliceRec{e: e}
	s := &c16Session{}
	describe := func() string {
		return fmt.Sprintf("%s mode=%s subscription requested at unit %s, emitted(before the operator)=%s delivered=%s %s", name, spec.Mode, c16U(s.Sub0), c16FmtEmits(emits), c16FmtSliceRec(rec), s)
	}
	horizon := dur(c16ScriptSpan(spec)) + 2*d + 4*Unit
	ok := c16Play(e, s, o, rec.Observer(), func() int { return len(rec.Events) }, horizon, describe)
	if !ok {
		return
	}
	var in []int
	var srcTerm byte
	srcTermStep := -1
	for _, m := range emits {
		if m.K == 'N' {
			in = append(in, m.V)
		} else if srcTerm == 0 {
			srcTerm = m.K
			if m.K == 'C' {
				srcTermStep = m.Step
			}
		}
	}
	// concatenation of the buffers is a prefix of the input; no buffer above the count; ticks are not early
	var cat []int
	var term byte
	small := 0 // buffers below the count so far (BufferWithTime: all buffers): each needs a tick of its own
	for i, ev := range rec.Events {
		if ev.K != 'N' {
			if term == 0 {
				term = ev.K
			}
			continue
		}
		if count > 0 && len(ev.Vs) > count {
			e.Violate("C16", "buffer-oversize", fmt.Sprintf("buffer #%d %v holds more than %d value(s): %s", i, ev.Vs, count, describe()))
			return
		}
		for _, v := range ev.Vs {
			if len(cat) < len(in) && in[len(cat)] == v {
				cat = append(cat, v)
				continue
			}
			// not the next input value: a later one (values in between were lost) or something else
			later := false
			for j := len(cat) + 1; j < len(in); j++ {
				if in[j] == v {
					later = true
				}
			}
			if later {
				e.Violate("C16", "buffer-values-lost", fmt.Sprintf("buffer #%d %v: after the buffers so far (%v) the next input value is %d, but %d came: input values were skipped, the concatenation of the buffers is not a prefix of the input %v: %s", i, ev.Vs, cat, in[len(cat)], v, in, describe()))
			} else {
				e.Violate("C16", "buffer-order", fmt.Sprintf("buffer #%d %v: value %d is not an input value following the buffers so far (%v): invented, repeated or out of source order (input %v): %s", i, ev.Vs, v, cat, in, describe()))
			}
			return
		}
		if count == 0 || len(ev.Vs) < count {
			// A buffer below the count was flushed by a tick, by the completion of the source or (context cut)
			// by the completion of the ticker: besides those two one-off flushes every such buffer needs a tick
			// of its own, and tick #j is not before j periods after the subscription. (A count-triggered flush
			// that comes out short was robbed by a tick which then emitted a full buffer: still one tick each.)
			small++
			ticks := small
			if srcTermStep >= 0 && srcTermStep < ev.Enter {
				ticks--
			}
			if s.CutKind == 2 && s.CutInvoked {
				ticks--
			}
			lower := s.Sub0 + time.Duration(ticks)*d
			if ticks > 0 && ev.T < lower {
				e.Violate("C16", "buffer-early", fmt.Sprintf("buffer #%d %v was emitted at unit %s: it is the #%d buffer below the count, so at least %d tick(s) must have happened, and tick #%d is not before unit %s: %s", i, ev.Vs, c16U(ev.T), small, ticks, ticks, c16U(lower), describe()))
				return
			}
		}
	}
	if term == 'C' && srcTerm == 'C' && !s.CutInvoked && len(cat) != len(in) {
		e.Violate("C16", "buffer-values-lost", fmt.Sprintf("the source completed and so did the output, but the buffers add up to %v, not to the input %v: %s", cat, in, describe()))
	}
	if term == 'E' && len(cat) != len(in) {
		// documented ("If the source Observable errors, the buffer is emitted and the error is propagated") but
		// outside the statement of C16: recorded only
		e.Probe("c16-buffer-error-without-flush")
	}
	if len(rec.Events) > 1 {
		e.Probe("c16-buffer-several")
	}
}
