package roverif

import (
	"context"
	"fmt"
	"rosim/simcontext"
	"sort"
	"strings"
	"time"

	"github.com/samber/ro"

	"rosim/simrt"
)

// C17 — bridges between observables and Go data structures are exact.
//
// Scenario encoding:
//   C17.collect      Sub = ToSlice | ToMap | Collect; Sources[0] = N* (C|E)? ; Ints[m] key modulus (ToMap)
//   C17.tochannel    Sources[0] = N* (C|E)? ; Ints[size] 0..3 ; Ints[cons] 0 eager | 1 slow | 2 stops after Ints[k]
//                    reads ; Ints[slow] pause (Units) of the slow consumer ; Ints[cut] 1 = Unsubscribe at
//                    Ints[at]/2 Units ; Ints[stall]
//   C17.fromchannel  Sources[0].Script is the program of the harness producer feeding the channel (N = send after
//                    Gap Units, final C = close, no C = abandon) ; Ints[cap] 0..3 ; Ints[subat] Units before
//                    subscribing ; Ints[cut]/[at] as above ; Ints[stall]
//   C17.materialize  Sources[0] = any script, illegal suffix after the terminal included
//
// Every channel operation of harness code goes through rosim/simrt.

func init() {
	Register(&Family{Name: "C17.collect", Props: []string{"C17"}, Weight: 2, Gen: genC17Collect, Run: runC17Collect, Valid: c17Valid})
	Register(&Family{Name: "C17.tochannel", Props: []string{"C17", "C08"}, Weight: 4, MaxSteps: 60000, Gen: genC17ToChannel, Run: runC17ToChannel, Valid: c17Valid})
	Register(&Family{Name: "C17.fromchannel", Props: []string{"C17"}, Weight: 3, MaxSteps: 60000, Gen: genC17FromChannel, Run: runC17FromChannel, Valid: c17Valid})
	Register(&Family{Name: "C17.materialize", Props: []string{"C17"}, Weight: 2, Gen: genC17Materialize, Run: runC17Materialize, Valid: c17Valid})
}

// ---------------------------------------------------------------------------------------------
// generation

// c17Script draws N* (C|E)? with small gaps; values may repeat residues so that ToMap keys collide.
func c17Script(g *Gen, maxN int, endings string) SrcSpec {
	n := g.Range(0, maxN)
	mode := g.Pick("sync", "sync", "async", "timed")
	var script []Step
	for i := 0; i < n; i++ {
		st := Step{K: "N", V: 11 + i}
		if mode == "timed" {
			st.Gap = g.PickInt(0, 0, 1, 1, 2)
		}
		script = append(script, st)
	}
	end := Step{}
	switch endings[g.Intn(len(endings))] {
	case 'C':
		end.K = "C"
	case 'E':
		end.K, end.V = "E", g.Range(1, 9)
		if g.Bool(0.15) {
			end.V = NilError // the stream fails with a nil error: still an Error notification
		}
	}
	if end.K != "" {
		if mode == "timed" {
			end.Gap = g.PickInt(0, 1, 2)
		}
		script = append(script, end)
	}
	return SrcSpec{Mode: mode, Script: script}
}

func c17Span(spec SrcSpec) int {
	t := 0
	for _, st := range spec.Script {
		t += st.Gap
	}
	return t
}

func genC17Collect(g *Gen) *Scn {
	sc := &Scn{Family: "C17.collect", Sub: g.Pick("ToSlice", "ToMap", "Collect")}
	sc.Sources = []SrcSpec{c17Script(g, 6, "CCE-")}
	if sc.Sub == "ToMap" {
		sc.SetInt("m", g.Range(1, 4))
	}
	if sc.Sub != "Collect" && g.Bool(0.5) {
		sc.SetInt("resub", 1)
	}
	if sc.Sub == "Collect" {
		sc.SetInt("withctx", g.Intn(2))
	}
	return sc
}

func genC17ToChannel(g *Gen) *Scn {
	sc := &Scn{Family: "C17.tochannel"}
	spec := c17Script(g, 5, "CCE-")
	if g.Bool(0.15) {
		// the hand-out window: an empty source completes as soon as the library's goroutine subscribes it
		spec = SrcSpec{Mode: "sync", Script: []Step{{K: "C"}}}
	}
	sc.Sources = []SrcSpec{spec}
	sc.SetInt("size", g.Range(0, 3))
	cons := g.PickInt(0, 0, 1, 2)
	sc.SetInt("cons", cons)
	switch cons {
	case 1:
		sc.SetInt("slow", g.Range(1, 2))
	case 2:
		sc.SetInt("k", g.Range(0, len(spec.Script)))
	}
	if g.Bool(0.5) {
		sc.SetInt("cut", 1)
		sc.SetInt("at", g.Range(0, 2*c17Span(spec)+4))
	}
	if g.Bool(0.33) {
		sc.SetInt("stall", 1)
	}
	// the subscription context is already over (1) or ends while values flow (2): a context that is over is
	// not an unsubscription, the channel still carries the whole sequence
	sc.SetInt("deadctx", g.PickInt(0, 0, 0, 1, 2))
	if g.Bool(0.08) {
		sc.SetInt("inhandout", 1)
		sc.SetInt("leave", g.Intn(2))
	}
	return sc
}

func genC17FromChannel(g *Gen) *Scn {
	sc := &Scn{Family: "C17.fromchannel"}
	n := g.Range(0, 6)
	var script []Step
	burst := g.Bool(0.4)
	for i := 0; i < n; i++ {
		gap := g.PickInt(0, 0, 1, 2)
		if burst {
			gap = 0
		}
		script = append(script, Step{K: "N", V: 11 + i, Gap: gap})
	}
	if g.Bool(0.6) {
		script = append(script, Step{K: "C", Gap: g.PickInt(0, 0, 1)}) // close; otherwise the channel is abandoned open
	}
	spec := SrcSpec{Mode: "timed", Script: script}
	sc.Sources = []SrcSpec{spec}
	sc.SetInt("cap", g.Range(0, 3))
	sc.SetInt("subat", g.PickInt(0, 0, 1, 2))
	sc.SetInt("subctx", g.PickInt(0, 0, 0, 1, 2, 3, 5))
	if g.Bool(0.03) {
		sc.SetInt("nilchan", 1)
	}
	if g.Bool(0.5) {
		sc.SetInt("cut", 1)
		sc.SetInt("at", g.Range(0, 2*c17Span(spec)+4))
	}
	if g.Bool(0.33) {
		sc.SetInt("stall", 1)
	}
	return sc
}

func genC17Materialize(g *Gen) *Scn {
	sc := &Scn{Family: "C17.materialize"}
	spec := c17Script(g, 5, "CCEE-")
	if g.Bool(0.35) {
		// illegal suffix: the producer keeps calling after its terminal
		for i, n := 0, g.Range(1, 3); i < n; i++ {
			st := Step{K: g.Pick("N", "N", "E", "C"), V: 70 + i}
			if st.K == "E" {
				st.V = g.Range(1, 9)
			}
			spec.Script = append(spec.Script, st)
		}
	}
	spec.Ctor = g.Pick("unsafe", "unsafe", "safe", "default", "eventually")
	sc.Sources = []SrcSpec{spec}
	return sc
}

func c17Valid(sc *Scn) bool { return c17Problem(sc) == "" }

func c17Problem(sc *Scn) string {
	if len(sc.Sources) != 1 {
		return "exactly one source expected"
	}
	spec := sc.Sources[0]
	switch spec.Mode {
	case "sync", "async", "timed":
	default:
		return "unsupported source mode " + spec.Mode
	}
	if spec.Producers > 1 {
		return "single producer expected"
	}
	wellFormed := true
	for i, st := range spec.Script {
		switch st.K {
		case "N":
		case "C", "E":
			if i != len(spec.Script)-1 {
				wellFormed = false
			}
		default:
			return "unknown step kind"
		}
		if st.Gap < 0 {
			return "negative gap"
		}
	}
	if sc.Int("cut", 0) < 0 || sc.Int("cut", 0) > 1 || sc.Int("at", 0) < 0 {
		return "illegal cut"
	}
	switch sc.Family {
	case "C17.collect":
		switch sc.Sub {
		case "ToSlice", "Collect":
		case "ToMap":
			if sc.Int("m", 0) < 1 {
				return "modulus below 1"
			}
		default:
			return "unknown bridge " + sc.Sub
		}
		if !wellFormed {
			return "script not of the form N* (C|E)?"
		}
	case "C17.tochannel":
		if !wellFormed {
			return "script not of the form N* (C|E)?"
		}
		if s := sc.Int("size", 0); s < 0 || s > 8 {
			return "illegal channel size"
		}
		if c := sc.Int("cons", 0); c < 0 || c > 2 {
			return "illegal consumer"
		}
		if sc.Int("cons", 0) == 1 && sc.Int("slow", 0) < 1 {
			return "slow consumer without a pause"
		}
		if sc.Int("k", 0) < 0 {
			return "illegal k"
		}
	case "C17.fromchannel", "C17.fanout":
		if !wellFormed {
			return "producer program not of the form N* C?"
		}
		for _, st := range spec.Script {
			if st.K == "E" {
				return "a channel cannot carry an error"
			}
		}
		if c := sc.Int("cap", 0); c < 0 || c > 8 {
			return "illegal capacity"
		}
		if sc.Int("subat", 0) < 0 || sc.Int("latejoin", 0) < 0 {
			return "illegal subat"
		}
	case "C17.materialize":
	default:
		return "unknown family " + sc.Family
	}
	return ""
}

func c17MustBeValid(sc *Scn) {
	if p := c17Problem(sc); p != "" {
		panic("C17: illegal scenario: " + p)
	}
}

// ---------------------------------------------------------------------------------------------
// recording

type c17Ev struct {
	K     byte
	Snap  string // rendering of the value
	Err   error
	Enter int
	T     time.Duration
}

func (ev c17Ev) String() string {
	switch ev.K {
	case 'N':
		return "N" + ev.Snap
	case 'E':
		return "E(" + errCode(ev.Err) + ")"
	}
	return "C"
}

type c17Rec[T any] struct {
	e      *Env
	name   string
	render func(T) string
	onNext func(T)
	Events []c17Ev
}

func (r *c17Rec[T]) add(ev c17Ev) {
	ev.Enter, ev.T = r.e.Step(), r.e.K.Now()
	r.Events = append(r.Events, ev)
	r.e.K.Log("obs " + r.name + " " + ev.String())
	r.e.Yield()
}

func (r *c17Rec[T]) Observer() ro.Observer[T] {
	return ro.NewObserverWithContext(
		func(ctx context.Context, v T) {
			r.add(c17Ev{K: 'N', Snap: r.render(v)})
			if r.onNext != nil {
				r.onNext(v)
			}
		},
		func(ctx context.Context, err error) { r.add(c17Ev{K: 'E', Err: err}) },
		func(ctx context.Context) { r.add(c17Ev{K: 'C'}) },
	)
}

func (r *c17Rec[T]) Trace() string {
	parts := make([]string, len(r.Events))
	for i, ev := range r.Events {
		parts[i] = ev.String()
	}
	return strings.Join(parts, " ")
}

// c17Quiesce settles without moving the clock, robustly: an actor spin-waiting on the library's spin lock is
// re-enabled only when a runnable actor takes a step; if the lock holder released the lock on its way into a
// sleep or a blocking operation, Settle reports a quiescence that hides an actor which could run. A step of the
// driver re-enables the spinners; repeat until nobody moves.
func c17Quiesce(e *Env) {
	for i := 0; i < 16; i++ {
		e.Settle()
		before := e.Step()
		e.Yield()
		e.Settle()
		if e.K.Capped() || e.Step()-before <= 2 {
			return
		}
	}
}

func c17Subscribe[T any](e *Env, o ro.Observable[T], obs ro.Observer[T]) *SubHandle {
	h := &SubHandle{Invoke: e.Step()}
	h.Actor = e.Go("subscriber", func() {
		defer func() {
			if r := recover(); r != nil {
				h.Panic = r
				e.K.Log(fmt.Sprintf("Subscribe panicked: %v", r))
			}
		}()
		h.S = o.Subscribe(obs)
		h.Returned = true
		h.RetStep = e.Step()
		e.K.Log("Subscribe returned")
	})
	return h
}

// c17Seen is what a tap in front of the bridge saw.
type c17Seen struct {
	Vals     []int
	Term     byte
	Err      error
	TermStep int
}

func c17Tap(e *Env, seen *c17Seen) func(ro.Observable[int]) ro.Observable[int] {
	return ro.Tap(
		func(v int) { seen.Vals = append(seen.Vals, v) },
		func(err error) {
			if seen.Term == 0 {
				seen.Term, seen.Err, seen.TermStep = 'E', err, e.Step()
			}
		},
		func() {
			if seen.Term == 0 {
				seen.Term, seen.TermStep = 'C', e.Step()
			}
		},
	)
}

func c17RenderMap(m map[int]int) string {
	keys := make([]int, 0, len(m))
	for k := range m {
		keys = append(keys, k)
	}
	sort.Ints(keys)
	parts := make([]string, len(keys))
	for i, k := range keys {
		parts[i] = fmt.Sprintf("%d:%d", k, m[k])
	}
	return "map[" + strings.Join(parts, " ") + "]"
}

// ---------------------------------------------------------------------------------------------
// C17.collect

func runC17Collect(e *Env) {
	sc := e.Sc
	c17MustBeValid(sc)
	spec := sc.Sources[0]
	src := e.NewSrc(spec)
	seen := &c17Seen{}
	tapped := c17Tap(e, seen)(src.Obs())
	settle := dur(c17Span(spec) + 4)

	if sc.Sub == "Collect" {
		var got []int
		var gotErr error
		returned := false
		retStep := 0
		ctxLost := false
		e.Go("collect", func() {
			if sc.Int("withctx", 0) == 1 {
				// the context-aware flavour: same values and error, plus the context of the last notification
				var c context.Context
				got, c, gotErr = ro.CollectWithContext(context.WithValue(context.Background(), ctxKey("c17"), "sub"), tapped)
				ctxLost = c == nil || c.Value(ctxKey("c17")) != "sub"
			} else {
				got, gotErr = ro.Collect(tapped)
			}
			returned = true
			retStep = e.Step()
		})
		e.SettleFor(settle)
		c17Quiesce(e)
		if e.K.Capped() {
			return
		}
		describe := fmt.Sprintf("Collect over %s script %s: the stream delivered %v terminal=%q err=%v; Collect returned=%v values=%v err=%v", spec.Mode, traceN(scriptToN(spec.Script)), seen.Vals, string(rune(seen.Term)), seen.Err, returned, got, gotErr)
		if seen.Term == 0 {
			if returned {
				e.Violate("C17", "collect-early", "Collect returned although the stream has not terminated: "+describe)
			}
			return
		}
		if !returned {
			e.Violate("C17", "collect-hangs", "the stream terminated but Collect has not returned: "+describe)
			return
		}
		if retStep < seen.TermStep {
			e.Violate("C17", "collect-early", fmt.Sprintf("Collect returned at step %d, before the terminal notification (step %d): %s", retStep, seen.TermStep, describe))
		}
		if fmt.Sprint(got) != fmt.Sprint(seen.Vals) || len(got) != len(seen.Vals) {
			e.Violate("C17", "collect-wrong", "Collect's values are not precisely the delivered values: "+describe)
		}
		if gotErr != seen.Err {
			e.Violate("C17", "collect-wrong-error", "Collect's error is not the stream's error: "+describe)
		}
		if ctxLost {
			e.Violate("C17", "collect-context-lost", "CollectWithContext returned a context that is nil or does not descend from the one it was given: "+describe)
		}
		return
	}

	// ToSlice / ToMap: exactly one value, emitted at completion; nothing but the error on error.
	// The bridge observable is built once; with Ints[resub] it is subscribed a second time, the source
	// then delivering other values: every subscription accumulates from scratch.
	var oSlice ro.Observable[[]int]
	var oMap ro.Observable[map[int]int]
	m := sc.Int("m", 1)
	switch sc.Sub {
	case "ToSlice":
		oSlice = ro.ToSlice[int]()(tapped)
	case "ToMap":
		oMap = ro.ToMap(func(v int) (int, int) { return v % m, v })(tapped)
	}
	rounds := 1 + sc.Int("resub", 0)
	if rounds > 1 {
		shifted := make([]Step, len(spec.Script))
		for i, st := range spec.Script {
			shifted[i] = st
			if st.K == "N" {
				shifted[i].V = st.V + 101
			}
		}
		src.Attempts = [][]Step{spec.Script, shifted}
	}
	for round := 0; round < rounds; round++ {
		if round > 0 {
			*seen = c17Seen{}
		}
		var events func() []c17Ev
		var trace func() string
		want := ""
		switch sc.Sub {
		case "ToSlice":
			rec := &c17Rec[[]int]{e: e, name: fmt.Sprintf("o%d", round), render: func(v []int) string {
				if v == nil {
					return "nil"
				}
				return fmt.Sprint(v)
			}}
			c17Subscribe(e, oSlice, rec.Observer())
			events, trace = func() []c17Ev { return rec.Events }, rec.Trace
		case "ToMap":
			rec := &c17Rec[map[int]int]{e: e, name: fmt.Sprintf("o%d", round), render: func(v map[int]int) string {
				if v == nil {
					return "nil"
				}
				return c17RenderMap(v)
			}}
			c17Subscribe(e, oMap, rec.Observer())
			events, trace = func() []c17Ev { return rec.Events }, rec.Trace
		}
		e.SettleFor(settle)
		c17Quiesce(e)
		if e.K.Capped() {
			return
		}
		if sc.Sub == "ToSlice" {
			want = fmt.Sprint(append([]int{}, seen.Vals...))
		} else {
			mm := map[int]int{}
			for _, v := range seen.Vals {
				mm[v%m] = v // last write wins
			}
			want = c17RenderMap(mm)
		}
		evs := events()
		describe := fmt.Sprintf("%s over %s script %s (subscription #%d of the same observable): the stream delivered %v terminal=%q err=%v; the bridge emitted [%s]", sc.Sub, spec.Mode, traceN(scriptToN(src.scriptFor(round))), round+1, seen.Vals, string(rune(seen.Term)), seen.Err, trace())
		switch seen.Term {
		case 0:
			if len(evs) != 0 {
				e.Violate("C17", "emitted-before-completion", "the source has not terminated but the bridge emitted: "+describe)
			}
			return // the source never ends: a second subscription would only add a second silent one
		case 'E':
			if len(evs) != 1 || evs[0].K != 'E' {
				e.Violate("C17", "on-error", "on a source error the bridge must emit nothing except the error: "+describe)
			} else if evs[0].Err != seen.Err {
				e.Violate("C17", "wrong-error", "the bridge's error is not the source's error: "+describe)
			}
		case 'C':
			if len(evs) != 2 || evs[0].K != 'N' || evs[1].K != 'C' {
				e.Violate("C17", "not-once", "on completion the bridge must emit exactly one value and then complete: "+describe)
				return
			}
			if evs[0].Enter < seen.TermStep {
				e.Violate("C17", "emitted-before-completion", fmt.Sprintf("the value was emitted at step %d, before the source completed (step %d): %s", evs[0].Enter, seen.TermStep, describe))
			}
			if evs[0].Snap != want {
				e.Violate("C17", "wrong-content", fmt.Sprintf("emitted %s, expected %s (precisely the delivered values, last write wins per key): %s", evs[0].Snap, want, describe))
			}
		}
	}
}

// ---------------------------------------------------------------------------------------------
// C17.tochannel

func c17NotifString(n ro.Notification[int]) string {
	switch n.Kind {
	case ro.KindNext:
		return fmt.Sprintf("N%d", n.Value)
	case ro.KindError:
		return "E(" + errCode(n.Err) + ")"
	case ro.KindComplete:
		return "C"
	}
	return fmt.Sprintf("?kind%d", n.Kind)
}

func c17NotifMatches(n ro.Notification[int], st Step) bool {
	switch st.K {
	case "N":
		return n.Kind == ro.KindNext && n.Value == st.V
	case "E":
		return n.Kind == ro.KindError && n.Err == ScriptError(st.V)
	default:
		return n.Kind == ro.KindComplete
	}
}

func runC17ToChannel(e *Env) {
	sc := e.Sc
	c17MustBeValid(sc)
	if sc.Int("inhandout", 0) == 1 {
		runC17ToChannelInHandOut(e)
		return
	}
	size, cons, k := sc.Int("size", 0), sc.Int("cons", 0), sc.Int("k", 0)
	slow := dur(sc.Int("slow", 1))
	spec := sc.Sources[0]
	src := e.NewSrc(spec)
	o := ro.ToChannel[int](size)(src.Obs())

	var got []ro.Notification[int]
	var closedSeen, consStopped, receiving bool
	closedStep := 0
	var closedT time.Duration
	consumer := func(ch <-chan ro.Notification[int]) {
		for {
			if cons == 2 && len(got) >= k {
				consStopped = true
				e.K.Log("consumer stops reading")
				return
			}
			receiving = true
			n, ok := simrt.Recv2(ch)
			receiving = false
			if !ok {
				closedSeen, closedStep, closedT = true, e.Step(), e.K.Now()
				e.K.Log("consumer sees the channel closed")
				return
			}
			got = append(got, n)
			e.K.Log("consumer got " + c17NotifString(n))
			if cons == 1 {
				simSleep(slow)
			}
		}
	}
	handed := 0
	outer := &c17Rec[<-chan ro.Notification[int]]{e: e, name: "outer", render: func(ch <-chan ro.Notification[int]) string {
		return fmt.Sprintf("chan(cap=%d)", cap(ch))
	}}
	outer.onNext = func(ch <-chan ro.Notification[int]) {
		handed++
		if handed == 1 {
			e.Go("consumer", func() { consumer(ch) })
		}
	}
	// A dropped Next(ch) renders the channel as its address: keep addresses out of the event log (replays and
	// the determinism check compare log hashes across processes).
	prevDropped := ro.OnDroppedNotification
	ro.OnDroppedNotification = func(ctx context.Context, n fmt.Stringer) {
		str := n.String()
		if strings.HasPrefix(str, "Next(0x") {
			str = "Next(chan)"
		}
		e.Dropped = append(e.Dropped, str)
		if simrt.Active() {
			e.K.Log("dropped " + str)
		}
	}
	defer func() { ro.OnDroppedNotification = prevDropped }()
	// C08: the channel is the only queue: the producer is never ahead of the consumer by more than its capacity
	returned := 0
	unsubStarted := false
	src.AfterCall = func(c *ProdCall) {
		if c.Panic != nil || unsubStarted {
			return // after Unsubscribe a blocked call returns without having queued anything
		}
		returned++
		allowed := size
		if receiving {
			allowed++ // the consumer is inside a receive: it may already hold one value it has not recorded yet
		}
		if ahead := returned - len(got); ahead > allowed {
			e.Violate("C08", "tochannel-capacity-exceeded", fmt.Sprintf("ToChannel(%d): %d producer calls have returned while the consumer has recorded %d notifications (inside a receive: %v): %d waiting, more than the configured capacity allows", size, returned, len(got), receiving, ahead))
		}
	}
	var h *SubHandle
	if dc := sc.Int("deadctx", 0); dc > 0 {
		ctx, cancel := simcontext.WithCancel(context.Background())
		if dc == 1 {
			cancel()
		} else {
			e.Go("canceller", func() {
				simSleep(time.Duration(sc.Int("at", 1)) * Unit / 4)
				cancel()
			})
		}
		h = &SubHandle{Invoke: e.Step()}
		h.Actor = e.Go("subscriber", func() {
			defer func() {
				if r := recover(); r != nil {
					h.Panic = r
					e.K.Log(fmt.Sprintf("Subscribe panicked: %v", r))
				}
			}()
			h.S = o.SubscribeWithContext(ctx, outer.Observer())
			h.Returned = true
			h.RetStep = e.Step()
			e.K.Log("Subscribe returned")
		})
	} else {
		h = c17Subscribe(e, o, outer.Observer())
	}

	unsubInvokeStep, unsubReturned, unsubSkipped := 0, false, false
	var unsubInvokeT time.Duration
	span := dur(c17Span(spec))
	long := span + time.Duration(len(spec.Script)+2)*slow + 10*Unit
	gotString := func() string {
		parts := make([]string, len(got))
		for i, n := range got {
			parts[i] = c17NotifString(n)
		}
		return "[" + strings.Join(parts, " ") + "]"
	}
	describe := func() string {
		var calls []string
		for _, c := range src.Calls {
			s := N{K: c.Step.K[0], V: c.Step.V}.String()
			if c.Return == 0 {
				s += "(call not returned)"
			}
			calls = append(calls, s)
		}
		consName := []string{"eager", fmt.Sprintf("slow(%s ms)", c17Ms(slow)), fmt.Sprintf("stops-after-%d", k)}[cons]
		cut := "no Unsubscribe"
		if unsubInvokeStep > 0 {
			cut = fmt.Sprintf("Unsubscribe called at %s ms (step %d) returned=%v", c17Ms(unsubInvokeT), unsubInvokeStep, unsubReturned)
		}
		closed := "not seen closed"
		if closedSeen {
			closed = fmt.Sprintf("seen closed at %s ms (step %d)", c17Ms(closedT), closedStep)
		}
		return fmt.Sprintf("ToChannel(%d) over %s script %s; source calls [%s]; outer observer [%s]; consumer %s received %s, %s; %s", size, spec.Mode, traceN(scriptToN(spec.Script)), strings.Join(calls, " "), outer.Trace(), consName, gotString(), closed, cut)
	}
	if sc.Int("cut", 0) == 1 {
		at := time.Duration(sc.Int("at", 0)) * Unit / 2
		e.Go("unsubscriber", func() {
			simSleep(at)
			e.WaitFor(func() bool { return h.Returned || h.Panic != nil })
			if h.S == nil {
				unsubSkipped = true
				return
			}
			unsubInvokeStep, unsubInvokeT = e.Step(), e.K.Now()
			unsubStarted = true
			e.K.Log("Unsubscribe called")
			func() {
				defer func() {
					if r := recover(); r != nil {
						clause := "unsubscribe-panics"
						if strings.Contains(fmt.Sprint(r), "close of closed channel") {
							clause = "double-close"
						}
						e.Violate("C17", clause, fmt.Sprintf("Unsubscribe panicked: %v: %s", r, describe()))
					}
				}()
				h.S.Unsubscribe()
			}()
			unsubReturned = true
			e.K.Log("Unsubscribe returned")
		})
		e.RunUntil(func() bool { return unsubReturned || unsubSkipped }, int((at+long)/Unit)+2)
		if e.K.Capped() {
			return
		}
	}
	e.SettleFor(long)
	c17Quiesce(e)
	if e.K.Capped() {
		return
	}

	// no panic escapes: neither from a library goroutine nor into the producer that called the library
	for _, esc := range e.K.Escapes {
		if esc.Lib {
			e.Violate("C17", "panic-escaped", fmt.Sprintf("a panic escaped from library goroutine %s: %v: %s", esc.Site, esc.Value, describe()))
		}
	}
	for _, c := range src.Calls {
		if c.Panic != nil {
			e.Violate("C17", "panic-escaped", fmt.Sprintf("the producer's call %s%d into the library panicked: %v: %s", c.Step.K, c.Step.V, c.Panic, describe()))
		}
	}
	for _, u := range e.Unhandled {
		switch {
		case strings.Contains(u, "close of closed channel"):
			e.Violate("C17", "double-close", fmt.Sprintf("the channel was closed twice (recovered panic reported to OnUnhandledError: %s): %s", u, describe()))
		case strings.Contains(u, "closed channel"):
			e.Probe("c17-send-on-closed-channel-recovered")
		}
	}

	// exactly one channel handed out
	if handed != 1 {
		clause := "handout-multiple"
		if handed == 0 {
			clause = "handout-lost"
		}
		e.Violate("C17", clause, fmt.Sprintf("%d channel(s) handed to the observer instead of exactly one: %s", handed, describe()))
		return
	}
	e.Probe("c17-tochannel-handed-out")

	// content: the materialised notifications of the source, in order (a prefix of what the source called)
	for i, n := range got {
		if i >= len(src.Calls) || !c17NotifMatches(n, src.Calls[i].Step) {
			e.Violate("C17", "content", fmt.Sprintf("notification #%d on the channel is %s, which is not the source's notification #%d: %s", i, c17NotifString(n), i, describe()))
			return
		}
	}
	terminalReceived := len(got) > 0 && got[len(got)-1].Kind != ro.KindNext
	for i, n := range got {
		if n.Kind != ro.KindNext && i != len(got)-1 {
			e.Violate("C17", "content", fmt.Sprintf("notification #%d on the channel follows a terminal notification: %s", i+1, describe()))
			return
		}
	}
	// closed only after the terminal was enqueued, or on unsubscription
	if closedSeen && !terminalReceived && !(unsubInvokeStep > 0 && unsubInvokeStep <= closedStep) {
		e.Violate("C17", "closed-early", fmt.Sprintf("the channel was closed before any terminal notification was put on it and before Unsubscribe was called: %s", describe()))
	}
	// closed after the terminal / on unsubscription: a consumer that keeps reading must get to see the close
	if !closedSeen && !consStopped {
		switch {
		case terminalReceived:
			e.Violate("C17", "not-closed", fmt.Sprintf("the consumer received the terminal notification and kept reading, but the channel is still open %s ms later: %s", c17Ms(long), describe()))
		case unsubReturned:
			e.Violate("C17", "not-closed", fmt.Sprintf("Unsubscribe returned and the consumer kept reading, but the channel is still open %s ms later: %s", c17Ms(long), describe()))
		}
	}
	if closedSeen && terminalReceived {
		e.Probe("c17-tochannel-drained-to-close")
	}
	// unsubscription reaches the source, also when it comes before ToChannel's goroutine has subscribed it
	if unsubReturned && src.Live != 0 {
		e.Violate("C17", "source-not-released", fmt.Sprintf("Unsubscribe returned %s ms ago but the source is still subscribed (%d live subscription(s)): %s", c17Ms(long), src.Live, describe()))
	}
	// nobody is left blocked once the consumer drained the channel to its close or the subscription was cancelled
	if closedSeen || unsubReturned {
		for _, a := range e.K.Actors() {
			if a.Lib && !a.Done() {
				e.Violate("C17", "actor-left-blocked", fmt.Sprintf("library goroutine %s is still %s: %s", a.Site, a.State(), describe()))
			}
		}
		for _, c := range src.Calls {
			if c.Return == 0 {
				e.Violate("C17", "actor-left-blocked", fmt.Sprintf("the producer's call %s%d into the library never returned: %s", c.Step.K, c.Step.V, describe()))
			}
		}
	}
}

func c17Ms(d time.Duration) string {
	return strings.TrimSuffix(strings.TrimSuffix(fmt.Sprintf("%.3f", float64(d)/float64(time.Millisecond)), "000"), ".")
}

// ---------------------------------------------------------------------------------------------
// C17.fromchannel

func runC17FromChannel(e *Env) {
	sc := e.Sc
	c17MustBeValid(sc)
	if sc.Int("nilchan", 0) == 1 {
		// a nil channel is never closed and never delivers: the observable stays silent and open until it is
		// unsubscribed ("completes when the channel is closed" - this one never is)
		var none <-chan int
		rec := e.NewRec("o")
		h := e.Subscribe(ro.FromChannel(none), rec.Observer(), nil)
		e.SettleFor(10 * Unit)
		if e.K.Capped() {
			return
		}
		if !h.Ret() || h.Sub() == nil {
			e.Violate("C17", "subscribe-blocks", "FromChannel(nil): Subscribe did not return")
			return
		}
		if len(rec.Events) != 0 || h.Sub().IsClosed() {
			e.Violate("C17", "complete-before-close", fmt.Sprintf("FromChannel(nil): the channel was never closed, yet the observer got [%s] and IsClosed()=%v", rec.Trace(), h.Sub().IsClosed()))
			return
		}
		e.Go("unsubscriber", func() { h.Sub().Unsubscribe() })
		e.SettleFor(10 * Unit)
		c17Quiesce(e)
		if e.K.Capped() {
			return
		}
		for _, a := range e.K.Actors() {
			if a.Lib && !a.Done() {
				e.Violate("C17", "reader-leak", fmt.Sprintf("FromChannel(nil): Unsubscribe returned but library goroutine %s is still %s", a.Site, a.State()))
			}
		}
		return
	}
	capacity := sc.Int("cap", 0)
	prog := sc.Sources[0].Script
	ch := make(chan int, capacity)

	var program []int
	closes := false
	for _, st := range prog {
		if st.K == "N" {
			program = append(program, st.V)
		} else {
			closes = true
		}
	}
	var sent []int   // sends that returned
	sending := false // a send is in progress (its value may already have been taken: the sender learns it later)
	sendingAtReturn := false
	closeInvoked, closeStep := false, 0
	e.Go("chan-producer", func() {
		for _, st := range prog {
			if st.Gap > 0 {
				simSleep(dur(st.Gap))
			} else {
				e.Yield()
			}
			if st.K == "N" {
				e.K.Log(fmt.Sprintf("producer sends %d", st.V))
				sending = true
				simrt.Send(ch, st.V)
				sending = false
				sent = append(sent, st.V)
			} else {
				closeInvoked, closeStep = true, e.Step()
				e.K.Log("producer closes the channel")
				simrt.Close(ch)
			}
		}
	})
	// values taken out of the channel by whoever reads it
	consumed := func() int { return len(sent) - len(ch) }

	if d := sc.Int("subat", 0); d > 0 {
		e.SettleFor(dur(d))
	}
	rec := e.NewRec("o")
	var recv <-chan int = ch
	var subCtx context.Context
	if k := sc.Int("subctx", 0); k > 0 {
		// the subscription context ends (1: before Subscribe, k: k-1 half units later) while the subscription
		// stays open: a context that is over is not an unsubscription, the reader keeps reading
		c, cancel := simcontext.WithCancel(context.Background())
		subCtx = c
		if k == 1 {
			cancel()
		} else {
			e.Go("canceller", func() { simSleep(time.Duration(k-1) * Unit / 2); cancel() })
		}
	}
	h := e.Subscribe(ro.FromChannel(recv), rec.Observer(), subCtx)

	unsubInvoked, unsubReturned, unsubSkipped := false, false, false
	consumedAtReturn, eventsAtSettle := 0, 0
	span := dur(c17Span(sc.Sources[0]))
	long := span + 10*Unit
	describe := func() string {
		cut := "no Unsubscribe"
		if unsubInvoked {
			cut = fmt.Sprintf("Unsubscribe returned=%v with %d value(s) taken from the channel by then", unsubReturned, consumedAtReturn)
		}
		return fmt.Sprintf("FromChannel(cap %d): producer program %s, sends completed %v, close called=%v, %d value(s) left in the buffer, %d taken out in total; observer got [%s]; %s", capacity, traceN(scriptToN(prog)), sent, closeInvoked, len(ch), consumed(), rec.Trace(), cut)
	}
	if sc.Int("cut", 0) == 1 {
		at := time.Duration(sc.Int("at", 0)) * Unit / 2
		e.Go("unsubscriber", func() {
			simSleep(at)
			e.WaitFor(func() bool { return h.Returned || h.Panic != nil })
			if h.S == nil {
				unsubSkipped = true
				return
			}
			unsubInvoked = true
			e.K.Log("Unsubscribe called")
			h.S.Unsubscribe()
			consumedAtReturn = consumed() // no scheduling point since Unsubscribe returned
			sendingAtReturn = sending
			unsubReturned = true
			e.K.Log("Unsubscribe returned")
		})
		e.RunUntil(func() bool { return unsubReturned || unsubSkipped }, int((at+long)/Unit)+2)
		c17Quiesce(e)
		if e.K.Capped() {
			return
		}
		eventsAtSettle = len(rec.Events)
	}
	e.SettleFor(long)
	c17Quiesce(e)
	if e.K.Capped() {
		return
	}
	for _, esc := range e.K.Escapes {
		if esc.Lib {
			e.Violate("C17", "panic-escaped", fmt.Sprintf("a panic escaped from library goroutine %s: %v: %s", esc.Site, esc.Value, describe()))
		}
	}
	// emitted values = what was sent, in order
	vals := rec.Values()
	for i, v := range vals {
		if i >= len(program) || program[i] != v {
			e.Violate("C17", "order", fmt.Sprintf("value #%d emitted is %d, not the #%d value sent: %s", i, v, i, describe()))
			return
		}
	}
	switch rec.Terminal() {
	case 'E':
		e.Violate("C17", "unexpected-error", "FromChannel ended with an error: "+describe())
		return
	case 'C':
		if !closeInvoked {
			e.Violate("C17", "complete-before-close", "the observable completed although the channel was never closed: "+describe())
			return
		}
		for _, ev := range rec.Events {
			if ev.K == 'C' && ev.Enter < closeStep {
				e.Violate("C17", "complete-before-close", fmt.Sprintf("Complete was delivered at step %d, before close was called (step %d): %s", ev.Enter, closeStep, describe()))
			}
		}
	}
	if !unsubInvoked {
		// nobody cancelled: every value received is emitted, then Complete if (and only if) the channel was closed
		if len(vals) != len(sent) || len(ch) != 0 {
			e.Violate("C17", "values-lost", fmt.Sprintf("the reader was never unsubscribed, yet not every value sent was emitted: %s", describe()))
		} else if closes && closeInvoked && rec.Terminal() != 'C' {
			e.Violate("C17", "no-complete-after-close", fmt.Sprintf("the channel was closed and drained but the observable did not complete: %s", describe()))
		} else if closes && closeInvoked {
			e.Probe("c17-fromchannel-completed")
		}
		return
	}
	if !unsubReturned {
		e.Probe("c17-fromchannel-unsubscribe-not-returned")
		return
	}
	e.Probe("c17-fromchannel-cut-applied")
	if len(rec.Events) > eventsAtSettle {
		e.Violate("C17", "delivery-after-cut", fmt.Sprintf("%d callback(s) entered after Unsubscribe had returned and the system had settled: %s", len(rec.Events)-eventsAtSettle, describe()))
	}
	tolerated := 1
	if sendingAtReturn {
		tolerated++ // the value of a send in progress at that moment may have been taken before Unsubscribe returned
	}
	if extra := consumed() - consumedAtReturn; extra > tolerated {
		e.Violate("C17", "reads-after-unsubscribe", fmt.Sprintf("%d values were taken from the channel after Unsubscribe had returned (at most the one receive in flight is tolerable); they are lost to any other reader: %s", extra, describe()))
	} else if extra >= 1 {
		e.Probe("c17-fromchannel-one-read-after-unsubscribe")
	}
	for _, a := range e.K.Actors() {
		if a.Lib && !a.Done() {
			e.Violate("C17", "reader-leak", fmt.Sprintf("Unsubscribe returned but library goroutine %s is still %s: %s", a.Site, a.State(), describe()))
		}
	}
}

// ---------------------------------------------------------------------------------------------
// C17.materialize

func runC17Materialize(e *Env) {
	sc := e.Sc
	c17MustBeValid(sc)
	spec := sc.Sources[0]
	plainSrc, tripSrc := e.NewSrc(spec), e.NewSrc(spec)
	plain, trip := e.NewRec("plain"), e.NewRec("roundtrip")
	e.Subscribe(plainSrc.Obs(), plain.Observer(), nil)
	e.Subscribe(ro.Dematerialize[int]()(ro.Materialize[int]()(tripSrc.Obs())), trip.Observer(), nil)
	e.SettleFor(dur(c17Span(spec) + 4))
	c17Quiesce(e)
	if e.K.Capped() {
		return
	}
	describe := fmt.Sprintf("script %s (%s, ctor %q): plain source delivered [%s], Materialize|Dematerialize delivered [%s]", traceN(scriptToN(spec.Script)), spec.Mode, spec.Ctor, plain.Trace(), trip.Trace())
	if len(plain.Events) != len(trip.Events) {
		e.Violate("C17", "roundtrip", "Materialize followed by Dematerialize is not the identity: "+describe)
		return
	}
	for i := range plain.Events {
		a, b := plain.Events[i], trip.Events[i]
		if a.K != b.K || a.V != b.V || a.Err != b.Err {
			e.Violate("C17", "roundtrip", fmt.Sprintf("Materialize followed by Dematerialize is not the identity (callback #%d: %s vs %s): %s", i, a, b, describe))
			return
		}
	}
	if plain.Terminal() == 'E' {
		e.Probe("c17-roundtrip-error")
	}
}

// runC17ToChannelInHandOut: the documented way of using ToChannel reads the channel from inside the callback
// that receives it. Here the observer is a Subscriber made by the caller which (leave=1) unsubscribes itself
// at the top of that callback and then reads the channel to its end: the channel still carries a prefix of
// the materialised sequence and IS closed (after the terminal notification or on unsubscription), the read
// loop ends and Subscribe returns.
func runC17ToChannelInHandOut(e *Env) {
	sc := e.Sc
	spec := sc.Sources[0]
	src := e.NewSrc(spec)
	o := ro.ToChannel[int](sc.Int("size", 0))(src.Obs())
	var got []ro.Notification[int]
	closedSeen, handed := false, 0
	var self ro.Subscriber[<-chan ro.Notification[int]]
	self = ro.NewSubscriber(ro.NewObserver(
		func(ch <-chan ro.Notification[int]) {
			handed++
			if sc.Int("leave", 0) == 1 {
				self.Unsubscribe()
			}
			for {
				n, ok := simrt.Recv2(ch)
				if !ok {
					closedSeen = true
					return
				}
				got = append(got, n)
			}
		},
		func(error) {},
		func() {},
	))
	returned := false
	e.Go("subscriber", func() { o.Subscribe(self); returned = true })
	long := dur(c17Span(spec)) + 20*Unit
	e.SettleFor(long)
	c17Quiesce(e)
	if e.K.Capped() {
		return
	}
	describe := func() string {
		parts := make([]string, len(got))
		for i, n := range got {
			parts[i] = c17NotifString(n)
		}
		return fmt.Sprintf("ToChannel(%d) over %s script %s, the channel read from inside the hand-out callback (the subscriber unsubscribed itself first: %v): read [%s], closed seen=%v, Subscribe returned=%v", sc.Int("size", 0), spec.Mode, traceN(scriptToN(spec.Script)), sc.Int("leave", 0) == 1, strings.Join(parts, " "), closedSeen, returned)
	}
	if handed != 1 {
		e.Violate("C17", "handout-lost", fmt.Sprintf("%d channel(s) handed out: %s", handed, describe()))
		return
	}
	for i, n := range got {
		if i >= len(src.Calls) || !c17NotifMatches(n, src.Calls[i].Step) {
			e.Violate("C17", "content", fmt.Sprintf("notification #%d on the channel is not the source's notification #%d: %s", i, i, describe()))
			return
		}
	}
	terminates := len(spec.Script) > 0 && spec.Script[len(spec.Script)-1].K != "N"
	// (a source that never ends keeps feeding the reader: the unsubscription made from inside the callback can
	// only take effect once the callback has returned, which it does not before the channel is closed)
	if !closedSeen && terminates {
		e.Violate("C17", "not-closed", fmt.Sprintf("the channel is neither fed to its terminal notification nor closed, the reader inside the callback waits for ever: %s", describe()))
		return
	}
	if closedSeen && !returned {
		e.Violate("C17", "actor-left-blocked", "the channel was closed and the callback returned, but Subscribe has not: "+describe())
	}
}
