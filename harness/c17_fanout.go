package roverif

// C17.fanout — one FromChannel observable, two subscriptions alive at the same time (worker-pool style):
// every value sent goes to exactly one of the readers, in order per reader; a reader that is unsubscribed
// stops reading and the other one keeps going: it receives everything that is sent afterwards and completes
// when the channel is closed. Unsubscribing the second reader later neither panics nor leaves a goroutine.

import (
	"fmt"
	"sort"
	"time"

	"rosim/simrt"

	"github.com/samber/ro"
)

func init() {
	Register(&Family{
		Name:     "C17.fanout",
		Props:    []string{"C17"},
		Weight:   2,
		MaxSteps: 60000,
		Gen: func(g *Gen) *Scn {
			sc := genC17FromChannel(g)
			sc.Family = "C17.fanout"
			sc.SetInt("subat", 0)
			sc.SetInt("cut", g.Intn(2))
			sc.SetInt("latejoin", g.PickInt(0, 0, 1, 2)) // B subscribes that long after A
			return sc
		},
		Valid: c17Valid,
		Run:   runC17Fanout,
	})
}

func runC17Fanout(e *Env) {
	sc := e.Sc
	c17MustBeValid(sc)
	capacity := sc.Int("cap", 0)
	prog := sc.Sources[0].Script
	ch := make(chan int, capacity)
	var sent []int
	sending, sendingAtReturn := false, false
	closeInvoked := false
	producerDone := false
	recA, recB := e.NewRec("A"), e.NewRec("B")
	var recv <-chan int = ch
	o := ro.FromChannel(recv)
	hA := e.Subscribe(o, recA.Observer(), nil)
	if d := sc.Int("latejoin", 0); d > 0 {
		e.SettleFor(dur(d))
	} else {
		e.Settle()
	}
	hB := e.Subscribe(o, recB.Observer(), nil)
	e.Settle()
	if e.K.Capped() {
		return
	}
	e.Go("chan-producer", func() {
		for _, st := range prog {
			if st.Gap > 0 {
				simSleep(dur(st.Gap))
			} else {
				e.Yield()
			}
			if st.K == "N" {
				sending = true
				simrt.Send(ch, st.V)
				sending = false
				sent = append(sent, st.V)
			} else {
				closeInvoked = true
				simrt.Close(ch)
			}
		}
		producerDone = true
	})
	span := dur(c17Span(sc.Sources[0]))
	long := span + 10*Unit
	describe := func() string {
		return fmt.Sprintf("FromChannel(cap %d) with two subscriptions of the same observable: producer program %s, sends completed %v, close called=%v, %d left in the buffer; reader A got [%s], reader B got [%s]", capacity, traceN(scriptToN(prog)), sent, closeInvoked, len(ch), recA.Trace(), recB.Trace())
	}
	guard := func(what string, f func()) {
		defer func() {
			if r := recover(); r != nil {
				e.Violate("C17", "unsubscribe-panics", fmt.Sprintf("%s panicked: %v: %s", what, r, describe()))
			}
		}()
		f()
	}
	cutA, cutReturned := false, false
	lostBudget, takenDuring := 0, 0
	if sc.Int("cut", 0) == 1 {
		at := time.Duration(sc.Int("at", 0)) * Unit / 2
		e.Go("unsubscriber", func() {
			simSleep(at)
			e.WaitFor(func() bool { return hA.Ret() || hA.Panic != nil })
			if hA.Sub() == nil {
				return
			}
			cutA = true
			atInvoke := len(sent) - len(ch)
			guard("Unsubscribe of reader A", hA.Sub().Unsubscribe)
			takenDuring = len(sent) - len(ch) - atInvoke
			sendingAtReturn = sending
			cutReturned = true
		})
		e.RunUntil(func() bool { return cutReturned }, int((at+long)/Unit)+2)
		if e.K.Capped() {
			return
		}
		// what reader A takes out of the channel without emitting it: the value it held when Unsubscribe was
		// called, whatever it took while that call was running (it is closed first, told to stop last), the
		// receive in flight when the call returned (and one more that was being sent just then)
		lostBudget = 2 + takenDuring
		if sendingAtReturn {
			lostBudget++
		}
	}
	e.SettleFor(long)
	c17Quiesce(e)
	if e.K.Capped() {
		return
	}
	for _, esc := range e.K.Escapes {
		if esc.Lib {
			e.Violate("C17", "panic-escaped", fmt.Sprintf("a panic escaped from library goroutine %s: %v: %s", esc.Site, esc.Value, describe()))
		}
	}
	if !hA.Ret() || !hB.Ret() {
		e.Violate("C17", "subscribe-blocks", "Subscribe of a FromChannel reader did not return: "+describe())
		return
	}
	// B was never unsubscribed: the channel keeps being read, the producer is never left blocked
	if !producerDone {
		e.Violate("C17", "values-lost", "a reader that was never unsubscribed is still there, yet the producer is blocked on the channel: "+describe())
		return
	}
	if len(ch) != 0 {
		e.Violate("C17", "values-lost", "a reader that was never unsubscribed is still there, yet values stay in the channel: "+describe())
		return
	}
	va, vb := recA.Values(), recB.Values()
	for _, vs := range [][]int{va, vb} {
		if !sort.IntsAreSorted(vs) {
			e.Violate("C17", "order", "a reader received values out of the order they were sent in: "+describe())
			return
		}
	}
	seen := map[int]int{}
	for _, v := range append(append([]int(nil), va...), vb...) {
		seen[v]++
	}
	missing := 0
	for _, v := range sent {
		switch seen[v] {
		case 0:
			missing++
		case 1:
		default:
			e.Violate("C17", "duplicate", fmt.Sprintf("value %d was emitted %d times: %s", v, seen[v], describe()))
			return
		}
		delete(seen, v)
	}
	if len(seen) != 0 {
		e.Violate("C17", "order", "a reader emitted a value that was never sent: "+describe())
		return
	}
	if missing > lostBudget {
		clause := "values-lost"
		if cutA {
			clause = "reads-after-unsubscribe"
		}
		e.Violate("C17", clause, fmt.Sprintf("%d value(s) sent were emitted to nobody (tolerable: %d, taken by reader A around its Unsubscribe call): %s", missing, lostBudget, describe()))
		return
	}
	if recA.Terminal() == 'E' || recB.Terminal() == 'E' {
		e.Violate("C17", "unexpected-error", "FromChannel ended with an error: "+describe())
		return
	}
	if closeInvoked {
		if recB.Terminal() != 'C' || (!cutA && recA.Terminal() != 'C') {
			e.Violate("C17", "no-complete-after-close", "the channel was closed and drained but a reader that was never unsubscribed did not complete: "+describe())
			return
		}
	} else if recA.Terminal() == 'C' || recB.Terminal() == 'C' {
		e.Violate("C17", "complete-before-close", "a reader completed although the channel was never closed: "+describe())
		return
	}
	// the end: the remaining readers leave
	done := false
	e.Go("closer", func() {
		guard("Unsubscribe of reader B", hB.Sub().Unsubscribe)
		guard("Unsubscribe of reader A", hA.Sub().Unsubscribe)
		done = true
	})
	e.SettleFor(10 * Unit)
	c17Quiesce(e)
	if e.K.Capped() {
		return
	}
	if !done {
		e.Violate("C17", "reader-leak", "Unsubscribe of a FromChannel reader never returned: "+describe())
		return
	}
	for _, esc := range e.K.Escapes {
		if esc.Lib {
			e.Violate("C17", "panic-escaped", fmt.Sprintf("a panic escaped from library goroutine %s: %v: %s", esc.Site, esc.Value, describe()))
		}
	}
	for _, a := range e.K.Actors() {
		if a.Lib && !a.Done() {
			e.Violate("C17", "reader-leak", fmt.Sprintf("every reader was unsubscribed but library goroutine %s is still %s: %s", a.Site, a.State(), describe()))
		}
	}
}
