package roverif

// C18 — data plugins.
//
// This file holds the typed vocabulary shared by the two C18 families (a scripted source of any T, a
// recording observer of any R, a Subscribe runner) and the family "C18.io": the stdio readers/writers
// and the CSV source/sink over fault-injecting io.Reader / io.Writer / io.Closer implementations.
// The pure-lift family "C18.lift" lives in c18_lifts.go.
//
// Everything random is drawn in Gen and stored in the Scn (Ints + Faults); the contents (bytes, rows)
// are regenerated inside Run from the integer seed Ints["cseed"], so Run is a deterministic function
// of the Scn.

import (
	"bufio"
	"bytes"
	"context"
	"encoding/csv"
	"errors"
	"fmt"
	"io"
	"strconv"
	"strings"

	"github.com/samber/ro"
	rocsv "github.com/samber/ro/plugins/encoding/csv"
	rostdio "github.com/samber/ro/plugins/stdio"

	"rosim/simrt"
)

// ---------------------------------------------------------------------------------------------
// typed vocabulary

type c18CtxKey struct{}

// c18Ctx is the context every C18 subscription is made with.
var c18Ctx = context.WithValue(context.Background(), c18CtxKey{}, "c18")

// c18Run collects harness-side inconsistencies. The library converts a panic raised inside a
// subscribe function or an observer callback into an Error notification, which would turn a harness
// mistake into a (false) violation; instead the mistake is recorded here and re-raised by the driver
// at the end of Run (=> harness error, exit 2).
type c18Run struct {
	e    *Env
	bugs []string
}

func (c *c18Run) bug(format string, a ...interface{}) {
	msg := "C18 harness bug: " + fmt.Sprintf(format, a...)
	c.bugs = append(c.bugs, msg)
	panic(msg)
}

func (c *c18Run) finish() {
	if len(c.bugs) > 0 {
		panic(c.bugs[0])
	}
}

// tSrc is a synchronous scripted source of any T: it plays items, then Complete (End 0), Error (End 1)
// or stays silent (End 2), yielding to the scheduler between notifications.
type tSrc[T any] struct {
	e         *Env
	Items     []T
	End       int
	ErrCode   int
	Subs      int
	Teardowns int
	NilCtx    int
}

func newTSrc[T any](e *Env, items []T, end, errCode int) *tSrc[T] {
	return &tSrc[T]{e: e, Items: items, End: end, ErrCode: errCode}
}

func (s *tSrc[T]) Obs() ro.Observable[T] {
	return ro.NewUnsafeObservableWithContext(func(ctx context.Context, dest ro.Observer[T]) ro.Teardown {
		s.Subs++
		if ctx == nil {
			s.NilCtx++
		}
		s.e.K.Log("tsrc subscribe")
		for _, it := range s.Items {
			s.e.Yield()
			dest.NextWithContext(ctx, it)
		}
		s.e.Yield()
		switch s.End {
		case 0:
			dest.CompleteWithContext(ctx)
		case 1:
			dest.ErrorWithContext(ctx, ScriptError(s.ErrCode))
		}
		return func() {
			s.Teardowns++
			s.e.K.Log("tsrc teardown")
		}
	})
}

// tEv is one callback seen by a typed recorder.
type tEv[R any] struct {
	K      byte // 'N','E','C'
	V      R    // the delivered value itself (kept to detect later modification)
	Snap   string
	Err    error
	CtxNil bool
	NoMark bool // the context does not carry the value the subscription was made with
}

func c18NoMark(ctx context.Context) bool { return ctx == nil || ctx.Value(c18CtxKey{}) == nil }

// tRec records what an observer of any R sees; snap must deep-copy the value into a string.
type tRec[R any] struct {
	e      *Env
	snap   func(R) string
	Events []tEv[R]
}

func newTRec[R any](e *Env, snap func(R) string) *tRec[R] {
	return &tRec[R]{e: e, snap: snap}
}

func (r *tRec[R]) Observer() ro.Observer[R] {
	return ro.NewObserverWithContext(
		func(ctx context.Context, v R) {
			s := r.snap(v)
			r.Events = append(r.Events, tEv[R]{K: 'N', V: v, Snap: s, CtxNil: ctx == nil, NoMark: c18NoMark(ctx)})
			r.e.K.Log("tobs N " + c18Trunc(s, 48))
			r.e.Yield()
		},
		func(ctx context.Context, err error) {
			r.Events = append(r.Events, tEv[R]{K: 'E', Err: err, CtxNil: ctx == nil, NoMark: c18NoMark(ctx)})
			r.e.K.Log("tobs E " + fmt.Sprint(err))
			r.e.Yield()
		},
		func(ctx context.Context) {
			r.Events = append(r.Events, tEv[R]{K: 'C', CtxNil: ctx == nil, NoMark: c18NoMark(ctx)})
			r.e.K.Log("tobs C")
			r.e.Yield()
		},
	)
}

func (r *tRec[R]) terminal() *tEv[R] {
	for i := range r.Events {
		if r.Events[i].K != 'N' {
			return &r.Events[i]
		}
	}
	return nil
}

func (r *tRec[R]) nexts() []tEv[R] {
	var out []tEv[R]
	for _, ev := range r.Events {
		if ev.K == 'N' {
			out = append(out, ev)
		}
	}
	return out
}

func (r *tRec[R]) trace() string {
	var sb strings.Builder
	for i, ev := range r.Events {
		if i > 0 {
			sb.WriteByte(' ')
		}
		if i >= 12 {
			fmt.Fprintf(&sb, "…(+%d)", len(r.Events)-i)
			break
		}
		switch ev.K {
		case 'N':
			sb.WriteString("N(" + c18Trunc(ev.Snap, 24) + ")")
		case 'E':
			sb.WriteString("E(" + c18Trunc(fmt.Sprint(ev.Err), 40) + ")")
		default:
			sb.WriteString("C")
		}
	}
	return sb.String()
}

// grammar checks Next* (Error|Complete)?.
func (r *tRec[R]) grammar() string {
	term := -1
	for i, ev := range r.Events {
		if term >= 0 {
			return fmt.Sprintf("callback #%d (%c) delivered after terminal #%d (%c); trace: %s", i, ev.K, term, r.Events[term].K, r.trace())
		}
		if ev.K != 'N' {
			term = i
		}
	}
	return ""
}

// tSub is one Subscribe call made on its own harness actor.
type tSub struct {
	S        ro.Subscription
	Returned bool
	Panic    interface{}
}

func tSubscribe[R any](e *Env, o ro.Observable[R], obs ro.Observer[R]) *tSub {
	h := &tSub{}
	e.Go("subscriber", func() {
		defer func() {
			if r := recover(); r != nil {
				h.Panic = r
				e.K.Log(fmt.Sprintf("Subscribe panicked: %v", r))
			}
		}()
		h.S = o.SubscribeWithContext(c18Ctx, obs)
		h.Returned = true
		e.K.Log("Subscribe returned")
	})
	return h
}

// unsubscribe calls Unsubscribe on the driver, reporting an escaping panic.
func (h *tSub) unsubscribe(e *Env) {
	if h.S == nil {
		return
	}
	defer func() {
		if r := recover(); r != nil {
			e.Violate("C18", "panic-escapes", fmt.Sprintf("Unsubscribe panicked: %v", r))
		}
	}()
	h.S.Unsubscribe()
}

// c18Contract checks the clauses of the core contract that need no knowledge of the operator:
// no panic escapes Subscribe, grammar, non-nil context in every callback. It returns false when the
// run cannot be judged further (step cap hit, Subscribe still blocked).
func c18Contract[R any](e *Env, rec *tRec[R], h *tSub, what string) bool {
	if e.K.Capped() {
		return false
	}
	if h.Panic != nil {
		e.Violate("C18", "panic-escapes", fmt.Sprintf("%s: Subscribe panicked: %v", what, h.Panic))
		return false
	}
	if msg := rec.grammar(); msg != "" {
		e.Violate("C18", "grammar", what+": "+msg)
	}
	for i, ev := range rec.Events {
		if ev.CtxNil {
			e.Violate("C18", "ctx-nil", fmt.Sprintf("%s: callback #%d (%c) received a nil context; trace: %s", what, i, ev.K, rec.trace()))
			break
		}
	}
	for _, ev := range rec.Events {
		if ev.NoMark && !ev.CtxNil {
			e.Probe("c18-ctx-value-lost") // context propagation proper is C09's business
			break
		}
	}
	if len(e.Unhandled) > 0 {
		// nothing in these scenarios may legitimately reach ro.OnUnhandledError: the recording observer
		// never panics and handles every notification kind, so an entry means a panic was raised (and
		// swallowed) inside the operator or its teardown
		e.Violate("C18", "panic-swallowed", fmt.Sprintf("%s: ro.OnUnhandledError received %v", what, e.Unhandled))
	}
	if !h.Returned {
		// a synchronous pipeline whose Subscribe never returns: outside C18's statement (C14)
		e.Probe("c18-subscribe-blocked")
		return false
	}
	return true
}

// c18Release: the typed source was subscribed exactly once and, once the stream is over (terminal
// delivered and Subscribe returned, or Unsubscribe returned), torn down exactly once.
func c18Release[T any, R any](e *Env, src *tSrc[T], rec *tRec[R], h *tSub, what string) {
	if src.Subs != 1 {
		e.Violate("C18", "source-subscribed-n", fmt.Sprintf("%s: the source was subscribed %d times by one downstream subscription (want 1)", what, src.Subs))
	}
	if src.NilCtx > 0 {
		e.Violate("C18", "ctx-nil", fmt.Sprintf("%s: the source was subscribed with a nil context", what))
	}
	if rec.terminal() == nil {
		h.unsubscribe(e)
	}
	h.unsubscribe(e) // a second Unsubscribe must be harmless
	if src.Teardowns == 0 {
		e.Violate("C18", "source-not-released", fmt.Sprintf("%s: stream over (trace %s) and Unsubscribe returned, but the source teardown never ran", what, rec.trace()))
	} else if src.Teardowns > 1 {
		e.Violate("C18", "teardown-twice", fmt.Sprintf("%s: the source teardown ran %d times", what, src.Teardowns))
	}
}

// errMatches: got is the expected error (identity / errors.Is) or an equal-looking error of the same
// dynamic type (stdlib errors such as *strconv.NumError are fresh values on every call).
func errMatches(got, want error) bool {
	if got == nil || want == nil {
		return got == want
	}
	if errors.Is(got, want) {
		return true
	}
	return got.Error() == want.Error() && fmt.Sprintf("%T", got) == fmt.Sprintf("%T", want)
}

func c18Trunc(s string, n int) string {
	if len(s) <= n {
		return s
	}
	return s[:n] + fmt.Sprintf("…(%d bytes)", len(s))
}

func snapBytes(b []byte) string { return strconv.Quote(string(b)) }

func snapInt(v int) string { return strconv.Itoa(v) }

func snapStrs(xs []string) string {
	var sb strings.Builder
	sb.WriteByte('[')
	for i, x := range xs {
		if i > 0 {
			sb.WriteByte(',')
		}
		sb.WriteString(strconv.Quote(x))
	}
	sb.WriteByte(']')
	return sb.String()
}

// firstDiff returns the first index at which a and b differ (or the shorter length).
func firstDiff(a, b []byte) int {
	n := len(a)
	if len(b) < n {
		n = len(b)
	}
	for i := 0; i < n; i++ {
		if a[i] != b[i] {
			return i
		}
	}
	return n
}

// ---------------------------------------------------------------------------------------------
// fault-injecting reader / writer / closer

type c18InjectedErr struct {
	what  string
	wraps error
}

func (e *c18InjectedErr) Error() string { return "injected " + e.what + " error" }
func (e *c18InjectedErr) Unwrap() error { return e.wraps }

// errC18ReadEOF is a read failure that wraps io.EOF (a transport's "connection closed by peer: EOF"): it
// is an error for io.ReadAll and bufio, only the bare io.EOF value means end of data.
var errC18ReadEOF error = &c18InjectedErr{what: "read (peer closed the connection: EOF)", wraps: io.EOF}

var (
	errC18Read  error = &c18InjectedErr{what: "read"}
	errC18Write error = &c18InjectedErr{what: "write"}
	errC18Close error = &c18InjectedErr{what: "close"}
)

// fReader is an io.Reader over fixed data whose per-call behaviour follows a plan:
//
//	plan[i] = {Kind:"r", Arg:n}  call i returns at most n bytes (short read)
//	plan[i] = {Kind:"z"}         call i returns (0, nil)
//	beyond the plan              at most dflt bytes per call
//
// eofWithData: the call that hands out the last byte returns io.EOF in the same call.
// errAt >= 0: no read crosses offset errAt, and once offset errAt is reached every call returns
// (0, errC18Read). After the data is exhausted every call returns (0, io.EOF).
type fReader struct {
	run         *c18Run // nil for the reference twin (no scheduling points)
	data        []byte
	off         int
	plan        []FaultSpec
	call        int
	dflt        int
	eofWithData bool
	errAt       int
	errVal      error // the error returned at errAt (errC18Read unless set)

	handed   []byte // everything handed out, in order
	withEOF  int    // number of bytes handed out in the same call as io.EOF
	ended    error  // the EOF / error returned first
	Reads    int
	AfterEnd int // Read calls made after the reader had returned EOF / an error
	ZeroRead int
}

func (f *fReader) Read(p []byte) (int, error) {
	if f.run != nil {
		f.run.e.Yield()
	}
	f.Reads++
	if f.ended != nil {
		f.AfterEnd++
		return 0, f.ended
	}
	b := FaultSpec{Kind: "r", Arg: f.dflt}
	if f.call < len(f.plan) {
		b = f.plan[f.call]
	}
	f.call++
	if len(p) == 0 {
		return 0, nil
	}
	limit := len(f.data)
	if f.errAt >= 0 && f.errAt < limit {
		limit = f.errAt
	}
	if f.off >= limit {
		if f.errAt >= 0 && f.errAt <= len(f.data) && f.off >= f.errAt {
			f.ended = errC18Read
			if f.errVal != nil {
				f.ended = f.errVal
			}
		} else {
			f.ended = io.EOF
		}
		return 0, f.ended
	}
	switch b.Kind {
	case "z":
		f.ZeroRead++
		return 0, nil
	case "r":
		n := b.Arg
		if n < 1 {
			n = 1
		}
		if n > len(p) {
			n = len(p)
		}
		if n > limit-f.off {
			n = limit - f.off
		}
		copy(p, f.data[f.off:f.off+n])
		f.handed = append(f.handed, f.data[f.off:f.off+n]...)
		f.off += n
		if f.eofWithData && f.off == len(f.data) && (f.errAt < 0 || f.errAt > len(f.data)) {
			f.withEOF = n
			f.ended = io.EOF
			return n, io.EOF
		}
		return n, nil
	default:
		if f.run != nil {
			f.run.bug("unknown read plan kind %q", b.Kind)
		}
		panic("unknown read plan kind " + b.Kind)
	}
}

// fReadCloser adds a counting Close.
type fReadCloser struct {
	*fReader
	Closes   int
	closeErr error
}

func (f *fReadCloser) Close() error {
	if f.run != nil {
		f.run.e.Yield()
		f.run.e.K.Log("reader Close")
	}
	f.Closes++
	return f.closeErr
}

func newFReader(run *c18Run, sc *Scn, data []byte) *fReader {
	var plan []FaultSpec
	for _, f := range sc.Faults {
		if f.Kind == "r" || f.Kind == "z" {
			plan = append(plan, f)
		}
	}
	dflt := sc.Int("dflt", 1<<20)
	if dflt < 1 {
		dflt = 1
	}
	fr := &fReader{run: run, data: data, plan: plan, dflt: dflt, eofWithData: sc.Int("eofwd", 0) == 1, errAt: sc.Int("errat", 0) - 1}
	if sc.Int("erreof", 0) == 1 {
		fr.errVal = errC18ReadEOF
	}
	return fr
}

// fWriter is an io.Writer that accepts everything until call number failAt (0-based; <0 never), where
// it either returns (0, errC18Write) (kind 0) or accepts only `short` bytes and returns
// (short, io.ErrShortWrite) (kind 1); later calls succeed again.
type fWriter struct {
	run    *c18Run
	failAt int
	kind   int
	short  int

	call     int
	calls    [][]byte // a copy of every p
	got      []byte   // accepted bytes, in order
	failed   bool
	failErr  error
	failN    int // bytes accepted by the failing call
	accepted int // bytes accepted up to and including the failing call (all bytes when no call failed)
}

func (w *fWriter) Write(p []byte) (int, error) {
	if w.run != nil {
		w.run.e.Yield()
	}
	i := w.call
	w.call++
	w.calls = append(w.calls, append([]byte(nil), p...))
	if i == w.failAt {
		w.failed = true
		if w.kind == 1 && len(p) > 0 {
			n := w.short
			if n >= len(p) {
				n = len(p) - 1
			}
			if n < 0 {
				n = 0
			}
			w.got = append(w.got, p[:n]...)
			w.failN = n
			w.accepted += n
			w.failErr = io.ErrShortWrite
			return n, io.ErrShortWrite
		}
		w.failErr = errC18Write
		return 0, errC18Write
	}
	w.got = append(w.got, p...)
	if !w.failed {
		w.accepted += len(p)
	}
	return len(p), nil
}

func newFWriter(run *c18Run, sc *Scn) *fWriter {
	return &fWriter{run: run, failAt: sc.Int("wfail", 0) - 1, kind: sc.Int("wkind", 0), short: sc.Int("warg", 0)}
}

// ---------------------------------------------------------------------------------------------
// contents, regenerated in Run from integer seeds

var c18Words = []string{"alpha", "b", "", "héllo", "日本語", "x y z", "0123456789", "\t", "naïve café", "👍", "quoted \"q\"", "comma,inside", "semi;colon", " lead", "trail ", "#hash"}

// ioContent builds n bytes of the given kind:
//
//	0 arbitrary bytes (any value, including \n, \r, 0 and invalid UTF-8)
//	1 short LF lines, last byte is \n          2 short LF lines, last line unterminated
//	3 CRLF lines                               4 long lines (several thousand bytes each)
//	5 separator soup: lone \r, \r\r\n, empty lines, \n\r
func ioContent(kind, n int, seed uint64) []byte {
	r := simrt.NewRng(seed ^ 0xc18c18)
	out := make([]byte, 0, n+64)
	switch kind {
	case 0:
		for len(out) < n {
			out = append(out, byte(r.Intn(256)))
		}
	case 1, 2, 3:
		sep := "\n"
		if kind == 3 {
			sep = "\r\n"
		}
		for len(out) < n {
			k := r.Intn(4)
			for j := 0; j < k; j++ {
				if j > 0 {
					out = append(out, ' ')
				}
				out = append(out, c18Words[r.Intn(len(c18Words))]...)
			}
			out = append(out, sep...)
		}
	case 4:
		for len(out) < n {
			k := 1500 + r.Intn(6000)
			for j := 0; j < k; j++ {
				out = append(out, byte('a'+r.Intn(26)))
			}
			if r.Bool(0.5) {
				out = append(out, '\r')
			}
			out = append(out, '\n')
		}
	default:
		soup := []string{"\r", "\n", "\r\n", "\r\r\n", "\n\r", "a", "bc", "\n\n", "é"}
		for len(out) < n {
			out = append(out, soup[r.Intn(len(soup))]...)
		}
	}
	out = out[:n]
	if n > 0 {
		switch kind {
		case 1, 3:
			out[n-1] = '\n'
		case 2:
			if out[n-1] == '\n' || out[n-1] == '\r' {
				out[n-1] = 'x'
			}
		}
	}
	return out
}

// csvContent builds CSV text of about n bytes (fields with quotes, separators, newlines, multi-byte
// text; with mal > 0 some malformed lines: bare quotes, unterminated quoted fields, ragged records).
func csvContent(n int, seed uint64, comma rune, mal int) []byte {
	r := simrt.NewRng(seed ^ 0xc5c5)
	var sb bytes.Buffer
	cols := 1 + r.Intn(4)
	for sb.Len() < n {
		if mal > 0 && r.Intn(6) == 0 {
			switch r.Intn(4) {
			case 0:
				sb.WriteString("ab\"cd" + string(comma) + "x\n")
			case 1:
				sb.WriteString("\"unterminated" + string(comma) + "x\n")
			case 2:
				sb.WriteString("\"a\"b" + string(comma) + "\n")
			default:
				sb.WriteString("only-one-field-too-few-or-too-many" + strings.Repeat(string(comma)+"z", r.Intn(6)) + "\n")
			}
			continue
		}
		for c := 0; c < cols; c++ {
			if c > 0 {
				sb.WriteRune(comma)
			}
			w := c18Words[r.Intn(len(c18Words))]
			needQ := strings.ContainsAny(w, "\",;\n\r") || strings.HasPrefix(w, " ") || r.Intn(5) == 0
			if r.Intn(9) == 0 {
				w += "\nsecond line"
				needQ = true
			}
			if needQ {
				sb.WriteString("\"" + strings.ReplaceAll(w, "\"", "\"\"") + "\"")
			} else {
				sb.WriteString(w)
			}
		}
		if r.Intn(4) == 0 {
			sb.WriteString("\r\n")
		} else {
			sb.WriteString("\n")
		}
	}
	b := sb.Bytes()
	if r.Intn(3) == 0 && len(b) > 0 {
		b = b[:len(b)-1] // no trailing newline
	}
	return b
}

func csvRows(n int, seed uint64) [][]string {
	r := simrt.NewRng(seed ^ 0x7077)
	rows := make([][]string, 0, n)
	for i := 0; i < n; i++ {
		k := r.Intn(5)
		row := make([]string, 0, k+2)
		for j := 0; j < k; j++ {
			w := c18Words[r.Intn(len(c18Words))]
			switch r.Intn(8) {
			case 0:
				w = strings.Repeat(w+"-", 40+r.Intn(200))
			case 1:
				w += "\nnl"
			case 2:
				w = "bad\xffutf8"
			}
			row = append(row, w)
		}
		rows = append(rows, row)
	}
	return rows
}

func snapRows(rows [][]string) []string {
	out := make([]string, len(rows))
	for i, r := range rows {
		out[i] = snapStrs(r)
	}
	return out
}

// byteItems cuts data into items of seeded sizes (some empty, some with spare capacity).
func byteItems(data []byte, seed uint64) [][]byte {
	r := simrt.NewRng(seed ^ 0x17e5)
	var items [][]byte
	for off := 0; off < len(data) || len(items) == 0; {
		k := []int{0, 1, 2, 7, 100, 1023, 1024, 1025, 1500}[r.Intn(9)]
		if k > len(data)-off {
			k = len(data) - off
		}
		it := make([]byte, k, k+r.Intn(3)*8)
		copy(it, data[off:off+k])
		items = append(items, it)
		off += k
		if len(items) >= 40 {
			it := append([]byte(nil), data[off:]...)
			items = append(items, it)
			break
		}
		if len(data) == 0 {
			break
		}
	}
	return items
}

// stripLineEnds removes what bufio.Reader.ReadLine removes: every "\n" and the single "\r" right
// before it.
func stripLineEnds(d []byte) []byte {
	out := make([]byte, 0, len(d))
	for i := 0; i < len(d); i++ {
		if d[i] == '\n' {
			if n := len(out); n > 0 && i > 0 && d[i-1] == '\r' {
				out = out[:n-1]
			}
			continue
		}
		out = append(out, d[i])
	}
	return out
}

// ---------------------------------------------------------------------------------------------
// family C18.io

func init() {
	Register(&Family{
		Name:     "C18.io",
		Props:    []string{"C18"},
		Weight:   3,
		MaxSteps: 80000,
		Gen: func(g *Gen) *Scn {
			sc := &Scn{Family: "C18.io"}
			sc.Sub = g.Pick("reader", "reader", "reader", "line", "line", "line", "writer", "writer", "csvr", "csvr", "csvw")
			sc.SetInt("cseed", g.Intn(1<<30))
			clen := g.PickInt(0, 1, 2, 5, 40, 100, 700, 1023, 1024, 1025, 1500, 2047, 2048, 2049, 3000, 4095, 4096, 4097, 5000, 9000, 20000)
			sc.SetInt("clen", clen)
			switch sc.Sub {
			case "reader", "line", "csvr":
				if sc.Sub == "csvr" {
					sc.SetInt("comma", g.Intn(2))
					sc.SetInt("lazy", g.Intn(2))
					sc.SetInt("fpr", g.Intn(3))
					sc.SetInt("trim", g.Intn(2))
					sc.SetInt("mal", g.PickInt(0, 0, 1))
				} else {
					sc.SetInt("ckind", g.Intn(6))
				}
				dflt := g.PickInt(1, 2, 7, 100, 512, 1023, 1024, 1025, 4096, 1<<20)
				for clen/dflt > 1500 {
					dflt *= 4
				}
				sc.SetInt("dflt", dflt)
				sc.SetInt("eofwd", g.Intn(2))
				if g.Bool(0.35) {
					sc.SetInt("errat", 1+g.Range(0, clen))
					sc.SetInt("erreof", g.PickInt(0, 0, 1))
				}
				sc.SetInt("closer", g.Intn(3))
				for i, n := 0, g.Range(0, 10); i < n; i++ {
					if g.Bool(0.25) {
						sc.Faults = append(sc.Faults, FaultSpec{Kind: "z"})
					} else {
						sc.Faults = append(sc.Faults, FaultSpec{Kind: "r", Arg: g.PickInt(1, 1, 2, 3, 10, 100, 1000, 1023, 1024, 2000)})
					}
				}
			case "writer":
				sc.SetInt("ckind", g.Intn(6))
				sc.SetInt("end", g.PickInt(0, 0, 1))
				if g.Bool(0.5) {
					sc.SetInt("wfail", 1+g.Intn(12))
					sc.SetInt("wkind", g.Intn(2))
					sc.SetInt("warg", g.PickInt(0, 1, 5, 500))
				}
			case "csvw":
				sc.SetInt("rows", g.PickInt(0, 1, 3, 10, 40, 120))
				sc.SetInt("end", g.PickInt(0, 0, 1))
				sc.SetInt("crlf", g.Intn(2))
				sc.SetInt("comma", g.Intn(2))
				if g.Bool(0.5) {
					sc.SetInt("wfail", 1+g.Intn(4))
					sc.SetInt("wkind", g.Intn(2))
					sc.SetInt("warg", g.PickInt(0, 1, 5, 500))
				}
			}
			return sc
		},
		Run: func(e *Env) {
			run := &c18Run{e: e}
			switch e.Sc.Sub {
			case "reader", "line":
				c18RunReader(run)
			case "writer":
				c18RunWriter(run)
			case "csvr":
				c18RunCSVReader(run)
			case "csvw":
				c18RunCSVWriter(run)
			default:
				panic("C18.io: unknown sub " + e.Sc.Sub)
			}
			run.finish()
		},
	})
}

// checkAliasing: every delivered []byte still holds what it held when it was delivered.
func checkChunkAliasing(e *Env, rec *tRec[[]byte], what string) {
	for i, ev := range rec.Events {
		if ev.K != 'N' {
			continue
		}
		if now := snapBytes(ev.V); now != ev.Snap {
			e.Violate("C18", "chunk-aliased", fmt.Sprintf("%s: chunk #%d held %s when it was delivered and holds %s at the end of the run: the operator kept writing into a slice it had already delivered (%d chunks delivered)",
				what, i, c18Trunc(ev.Snap, 60), c18Trunc(now, 60), len(rec.nexts())))
			return
		}
	}
}

// c18RunReader: rostdio.NewIOReader / NewIOReaderLine over a fault-injecting reader.
//
// Oracles (D = the bytes the reader handed out before it returned io.EOF or the injected error,
// including bytes returned in the same call as io.EOF; chunks are compared through the copies taken
// at delivery):
//   - reader: concatenation of the chunks == D (clause concat-mismatch; data-with-eof-lost when exactly
//     the bytes returned together with io.EOF are missing);
//   - line:   concatenation of the chunks == D with every "\n" and the "\r" right before it removed
//     (what bufio.Reader.ReadLine consumes as separators) (line-concat-mismatch); and the chunk sequence
//     == the sequence of lines bufio.Reader.ReadLine returns over a twin reader that follows the same
//     plan (line-lift-mismatch);
//   - the reader reached the injected error => Error notification matching it, after the data;
//     otherwise Complete and no Error (terminal-mismatch);
//   - no delivered chunk changes after its delivery (chunk-aliased);
//   - a reader that is an io.Closer is closed exactly once when the stream is over and Unsubscribe was
//     called (twice) (close-count);
//   - grammar, non-nil context, no escaping panic.
func c18RunReader(run *c18Run) {
	e, sc := run.e, run.e.Sc
	data := ioContent(sc.Int("ckind", 0), sc.Int("clen", 0), uint64(sc.Int("cseed", 0)))
	fr := newFReader(run, sc, data)
	var rd io.Reader = fr
	var rc *fReadCloser
	if c := sc.Int("closer", 0); c > 0 {
		rc = &fReadCloser{fReader: fr}
		if c == 2 {
			rc.closeErr = errC18Close
		}
		rd = rc
	}
	line := sc.Sub == "line"
	what := "NewIOReader"
	var obs ro.Observable[[]byte]
	if line {
		what = "NewIOReaderLine"
		obs = rostdio.NewIOReaderLine(rd)
	} else {
		obs = rostdio.NewIOReader(rd)
	}
	// reference for the line reader: bufio.ReadLine over a twin reader following the same plan
	var refLines []string
	if line {
		tw := newFReader(nil, sc, data)
		br := bufio.NewReader(tw)
		for {
			l, _, err := br.ReadLine()
			if err != nil {
				break
			}
			refLines = append(refLines, snapBytes(l))
			if len(refLines) > 1<<20 {
				run.bug("reference ReadLine loop does not end")
			}
		}
	}
	rec := newTRec[[]byte](e, snapBytes)
	h := tSubscribe(e, obs, rec.Observer())
	e.Settle()
	if !c18Contract(e, rec, h, what) {
		return
	}
	if fr.ZeroRead > 0 {
		e.Probe("c18-zero-read")
	}
	if fr.withEOF > 0 {
		e.Probe("c18-data-with-eof")
	}
	if len(fr.handed) > 1024 {
		e.Probe("c18-content-over-1024")
	}
	// terminal
	term := rec.terminal()
	if fr.ended == nil {
		// the plugin stopped reading before EOF / error although nobody unsubscribed
		e.Violate("C18", "terminal-mismatch", fmt.Sprintf("%s: the stream is over (trace %s) but the reader was never read up to EOF or to its error (%d of %d bytes handed out)", what, rec.trace(), len(fr.handed), len(data)))
		return
	}
	if fr.ended == io.EOF {
		if term == nil || term.K != 'C' {
			e.Violate("C18", "terminal-mismatch", fmt.Sprintf("%s: the reader returned io.EOF; want Complete, got trace %s", what, rec.trace()))
		}
	} else {
		e.Probe("c18-read-error")
		if term == nil || term.K != 'E' || !errors.Is(term.Err, fr.ended) {
			e.Violate("C18", "terminal-mismatch", fmt.Sprintf("%s: the reader returned %q at offset %d; want an Error notification matching it, got trace %s", what, fr.ended, fr.off, rec.trace()))
		}
	}
	// content
	var got []byte
	for _, ev := range rec.nexts() {
		s, err := strconv.Unquote(ev.Snap)
		if err != nil {
			run.bug("snapshot does not unquote: %v", err)
		}
		got = append(got, s...)
	}
	want := fr.handed
	if line {
		want = stripLineEnds(fr.handed)
		if !bytes.Equal(got, want) {
			d := firstDiff(got, want)
			e.Violate("C18", "line-concat-mismatch", fmt.Sprintf("%s: the emitted lines concatenate to %d bytes, the reader handed out %d bytes = %d without line separators; first difference at byte %d (emitted …%s, want …%s); reader ended with %v",
				what, len(got), len(fr.handed), len(want), d, snapBytes(window(got, d)), snapBytes(window(want, d)), fr.ended))
		}
		var gotLines []string
		for _, ev := range rec.nexts() {
			gotLines = append(gotLines, ev.Snap)
		}
		if i := firstStrDiff(gotLines, refLines); i >= 0 {
			e.Violate("C18", "line-lift-mismatch", fmt.Sprintf("%s: emitted %d chunks, bufio.Reader.ReadLine over the same reader returns %d lines; first difference at #%d: emitted %s, ReadLine %s",
				what, len(gotLines), len(refLines), i, c18Trunc(at(gotLines, i), 60), c18Trunc(at(refLines, i), 60)))
		}
	} else if !bytes.Equal(got, want) {
		if fr.withEOF > 0 && bytes.Equal(got, want[:len(want)-fr.withEOF]) {
			e.Violate("C18", "data-with-eof-lost", fmt.Sprintf("%s: the last Read returned %d bytes together with io.EOF; these bytes were never emitted (emitted %d of %d bytes, then %c)",
				what, fr.withEOF, len(got), len(want), termKind(term)))
		} else {
			d := firstDiff(got, want)
			e.Violate("C18", "concat-mismatch", fmt.Sprintf("%s: the emitted chunks concatenate to %d bytes, the reader handed out %d bytes; first difference at byte %d (emitted …%s, want …%s); reader ended with %v",
				what, len(got), len(want), d, snapBytes(window(got, d)), snapBytes(window(want, d)), fr.ended))
		}
	}
	// release: Close exactly once
	h.unsubscribe(e)
	h.unsubscribe(e)
	if rc != nil && rc.Closes != 1 {
		e.Violate("C18", "close-count", fmt.Sprintf("%s: the reader is an io.Closer; after the stream ended (trace %s) and Unsubscribe was called, Close had been called %d times (want 1)", what, rec.trace(), rc.Closes))
	}
	checkChunkAliasing(e, rec, what)
}

func termKind[R any](t *tEv[R]) byte {
	if t == nil {
		return '-'
	}
	return t.K
}

func window(b []byte, at int) []byte {
	lo, hi := at-8, at+8
	if lo < 0 {
		lo = 0
	}
	if hi > len(b) {
		hi = len(b)
	}
	if lo > hi {
		lo = hi
	}
	return b[lo:hi]
}

func at(xs []string, i int) string {
	if i < len(xs) {
		return xs[i]
	}
	return "<nothing>"
}

func firstStrDiff(a, b []string) int {
	for i := 0; i < len(a) || i < len(b); i++ {
		if i >= len(a) || i >= len(b) || a[i] != b[i] {
			return i
		}
	}
	return -1
}

// c18RunWriter: rostdio.NewIOWriter over a typed source of byte slices and a fault-injecting writer.
//
// Oracles:
//   - every Write call up to the failing one carries exactly the corresponding item (write-mismatch);
//     without a failing call the writer received exactly the concatenation of the items;
//   - no failing call: the output is Next(total bytes) followed by the source's terminal
//     (count-mismatch / terminal-mismatch);
//   - failing call: the output is Next(count) then an Error matching the writer's error; count must be
//     the number of bytes the writer accepted, including the bytes accepted by the failing short
//     write (short-write-uncounted when exactly those are missing, else count-mismatch);
//   - items are not modified (input-modified); grammar, context, source subscribed and released once.
func c18RunWriter(run *c18Run) {
	e, sc := run.e, run.e.Sc
	data := ioContent(sc.Int("ckind", 0), sc.Int("clen", 0), uint64(sc.Int("cseed", 0)))
	items := byteItems(data, uint64(sc.Int("cseed", 0)))
	before := make([]string, len(items))
	for i, it := range items {
		before[i] = snapBytes(it)
	}
	w := newFWriter(run, sc)
	src := newTSrc(e, items, sc.Int("end", 0), 7)
	rec := newTRec[int](e, snapInt)
	what := "NewIOWriter"
	h := tSubscribe(e, rostdio.NewIOWriter(w)(src.Obs()), rec.Observer())
	e.Settle()
	if !c18Contract(e, rec, h, what) {
		return
	}
	nx, term := rec.nexts(), rec.terminal()
	// what the writer saw
	upto := len(w.calls)
	if w.failed {
		upto = w.failAt + 1
	}
	if upto > len(items) || (!w.failed && upto != len(items)) {
		e.Violate("C18", "write-mismatch", fmt.Sprintf("%s: %d items were emitted by the source but the writer received %d Write calls", what, len(items), len(w.calls)))
	} else {
		for i := 0; i < upto; i++ {
			if snapBytes(w.calls[i]) != before[i] {
				e.Violate("C18", "write-mismatch", fmt.Sprintf("%s: Write call #%d carried %s, item #%d is %s", what, i, c18Trunc(snapBytes(w.calls[i]), 60), i, c18Trunc(before[i], 60)))
				break
			}
		}
	}
	if !w.failed {
		if len(nx) != 1 || nx[0].V != len(data) || len(w.got) != len(data) {
			e.Violate("C18", "count-mismatch", fmt.Sprintf("%s: %d bytes in %d items, the writer accepted %d bytes; want exactly one Next(%d), got trace %s", what, len(data), len(items), len(w.got), len(data), rec.trace()))
		}
		switch sc.Int("end", 0) {
		case 0:
			if term == nil || term.K != 'C' {
				e.Violate("C18", "terminal-mismatch", fmt.Sprintf("%s: the source completed; got trace %s", what, rec.trace()))
			}
		case 1:
			if term == nil || term.K != 'E' || !errors.Is(term.Err, ScriptError(7)) {
				e.Violate("C18", "terminal-mismatch", fmt.Sprintf("%s: the source failed with %v; got trace %s", what, ScriptError(7), rec.trace()))
			}
		}
	} else {
		e.Probe("c18-write-error")
		if term == nil || term.K != 'E' || !errors.Is(term.Err, w.failErr) {
			e.Violate("C18", "terminal-mismatch", fmt.Sprintf("%s: Write call #%d returned (%d, %v); want an Error notification matching it, got trace %s", what, w.failAt, w.failN, w.failErr, rec.trace()))
		}
		if len(nx) != 1 {
			e.Violate("C18", "count-mismatch", fmt.Sprintf("%s: want exactly one Next(bytes written) before the Error, got trace %s", what, rec.trace()))
		} else if nx[0].V != w.accepted {
			if w.failN > 0 && nx[0].V == w.accepted-w.failN {
				e.Probe("c18-short-write")
				e.Violate("C18", "short-write-uncounted", fmt.Sprintf("%s: Write call #%d accepted %d bytes and returned %v; the writer accepted %d bytes in total but the operator reported %d (the bytes of the short write are not counted)", what, w.failAt, w.failN, w.failErr, w.accepted, nx[0].V))
			} else {
				e.Violate("C18", "count-mismatch", fmt.Sprintf("%s: the writer accepted %d bytes up to its failing call #%d, the operator reported %d", what, w.accepted, w.failAt, nx[0].V))
			}
		}
	}
	for i, it := range items {
		if snapBytes(it) != before[i] {
			e.Violate("C18", "input-modified", fmt.Sprintf("%s: item #%d was %s and is %s after the run", what, i, c18Trunc(before[i], 60), c18Trunc(snapBytes(it), 60)))
			break
		}
	}
	c18Release(e, src, rec, h, what)
}

func c18CSVComma(sc *Scn) rune {
	if sc.Int("comma", 0) == 1 {
		return ';'
	}
	return ','
}

func c18CSVReader(sc *Scn, r io.Reader) *csv.Reader {
	cr := csv.NewReader(r)
	cr.Comma = c18CSVComma(sc)
	cr.LazyQuotes = sc.Int("lazy", 0) == 1
	cr.TrimLeadingSpace = sc.Int("trim", 0) == 1
	cr.FieldsPerRecord = []int{0, -1, 2}[sc.Int("fpr", 0)%3]
	cr.Comment = '#'
	return cr
}

// c18RunCSVReader: rocsv.NewCSVReader(csv.NewReader(fault reader)); differential against a twin
// csv.Reader (same options) over a twin fault reader (same plan): the records are the ones
// csv.Reader.Read returns, in order; io.EOF => Complete; any other error (parse error, injected read
// error) => Error notification matching it; delivered records are not modified afterwards.
func c18RunCSVReader(run *c18Run) {
	e, sc := run.e, run.e.Sc
	data := csvContent(sc.Int("clen", 0), uint64(sc.Int("cseed", 0)), c18CSVComma(sc), sc.Int("mal", 0))
	var ref []string
	var refErr error
	tw := c18CSVReader(sc, newFReader(nil, sc, data))
	for {
		rcd, err := tw.Read()
		if err != nil {
			refErr = err
			break
		}
		ref = append(ref, snapStrs(rcd))
		if len(ref) > 1<<20 {
			run.bug("reference csv loop does not end")
		}
	}
	fr := newFReader(run, sc, data)
	what := "NewCSVReader"
	rec := newTRec[[]string](e, snapStrs)
	h := tSubscribe(e, rocsv.NewCSVReader(c18CSVReader(sc, fr)), rec.Observer())
	e.Settle()
	if !c18Contract(e, rec, h, what) {
		return
	}
	var got []string
	for _, ev := range rec.nexts() {
		got = append(got, ev.Snap)
	}
	if i := firstStrDiff(got, ref); i >= 0 {
		e.Violate("C18", "csv-lift-mismatch", fmt.Sprintf("%s: emitted %d records, csv.Reader.Read over the same reader returns %d; first difference at #%d: emitted %s, Read %s",
			what, len(got), len(ref), i, c18Trunc(at(got, i), 80), c18Trunc(at(ref, i), 80)))
	}
	term := rec.terminal()
	if refErr == io.EOF {
		if term == nil || term.K != 'C' {
			e.Violate("C18", "terminal-mismatch", fmt.Sprintf("%s: csv.Reader.Read ends with io.EOF; want Complete, got trace %s", what, rec.trace()))
		}
	} else {
		e.Probe("c18-csv-error")
		if errors.Is(refErr, errC18Read) {
			e.Probe("c18-read-error")
		}
		if term == nil || term.K != 'E' || !errMatches(term.Err, refErr) {
			e.Violate("C18", "terminal-mismatch", fmt.Sprintf("%s: csv.Reader.Read fails with %q after %d records; want an Error notification matching it, got trace %s", what, refErr, len(ref), rec.trace()))
		}
	}
	h.unsubscribe(e)
	h.unsubscribe(e)
	for i, ev := range rec.nexts() {
		if now := snapStrs(ev.V); now != ev.Snap {
			e.Violate("C18", "chunk-aliased", fmt.Sprintf("%s: record #%d was %s when delivered and is %s at the end of the run", what, i, c18Trunc(ev.Snap, 60), c18Trunc(now, 60)))
			break
		}
	}
}

func c18CSVWriter(sc *Scn, w io.Writer) *csv.Writer {
	cw := csv.NewWriter(w)
	cw.Comma = c18CSVComma(sc)
	cw.UseCRLF = sc.Int("crlf", 0) == 1
	return cw
}

// c18RunCSVWriter: rocsv.NewCSVWriter(csv.NewWriter(fault writer)) over a typed source of rows;
// differential against a twin csv.Writer over a twin fault writer: the count is the number of rows
// csv.Writer.Write accepted before its first error; that error => Error notification matching it;
// otherwise Next(rows) then the source's terminal, and the bytes that reached the sink are the bytes
// the twin produced. (Whether csv.Writer.Error() is consulted after Flush is outside the statement.)
func c18RunCSVWriter(run *c18Run) {
	e, sc := run.e, run.e.Sc
	rows := csvRows(sc.Int("rows", 0), uint64(sc.Int("cseed", 0)))
	before := snapRows(rows)
	twSink := newFWriter(nil, sc)
	tw := c18CSVWriter(sc, twSink)
	refCount := 0
	var refErr error
	for _, row := range rows {
		if err := tw.Write(row); err != nil {
			refErr = err
			break
		}
		refCount++
	}
	tw.Flush()
	if i := firstStrDiff(snapRows(rows), before); i >= 0 {
		run.bug("the reference csv.Writer modified row %d", i)
	}
	sink := newFWriter(run, sc)
	src := newTSrc(e, rows, sc.Int("end", 0), 9)
	rec := newTRec[int](e, snapInt)
	what := "NewCSVWriter"
	h := tSubscribe(e, rocsv.NewCSVWriter(c18CSVWriter(sc, sink))(src.Obs()), rec.Observer())
	e.Settle()
	if !c18Contract(e, rec, h, what) {
		return
	}
	nx, term := rec.nexts(), rec.terminal()
	if len(nx) != 1 || nx[0].V != refCount {
		e.Violate("C18", "count-mismatch", fmt.Sprintf("%s: csv.Writer.Write accepted %d of %d rows (first error: %v); want exactly one Next(%d), got trace %s", what, refCount, len(rows), refErr, refCount, rec.trace()))
	}
	if refErr != nil {
		e.Probe("c18-write-error")
		if term == nil || term.K != 'E' || !errMatches(term.Err, refErr) {
			e.Violate("C18", "terminal-mismatch", fmt.Sprintf("%s: csv.Writer.Write fails with %q at row %d; want an Error notification matching it, got trace %s", what, refErr, refCount, rec.trace()))
		}
	} else {
		switch sc.Int("end", 0) {
		case 0:
			if term == nil || term.K != 'C' {
				e.Violate("C18", "terminal-mismatch", fmt.Sprintf("%s: the source completed; got trace %s", what, rec.trace()))
			}
		case 1:
			if term == nil || term.K != 'E' || !errors.Is(term.Err, ScriptError(9)) {
				e.Violate("C18", "terminal-mismatch", fmt.Sprintf("%s: the source failed with %v; got trace %s", what, ScriptError(9), rec.trace()))
			}
		}
		if !bytes.Equal(sink.got, twSink.got) {
			d := firstDiff(sink.got, twSink.got)
			e.Violate("C18", "write-mismatch", fmt.Sprintf("%s: the sink received %d bytes, csv.Writer over the same rows produces %d; first difference at byte %d", what, len(sink.got), len(twSink.got), d))
		}
		if len(twSink.got) > 4096 {
			e.Probe("c18-csv-over-4096")
		}
	}
	if i := firstStrDiff(snapRows(rows), before); i >= 0 {
		e.Violate("C18", "input-modified", fmt.Sprintf("%s: row #%d was %s and is %s after the run", what, i, c18Trunc(before[i], 60), c18Trunc(snapStrs(rows[i]), 60)))
	}
	c18Release(e, src, rec, h, what)
}
