package roverif

// C18.concurrent — a plugin operator value is a recipe like any other operator: two subscriptions that render
// at the same time (one is parked inside a method the template calls) do not see each other's output.

import (
	"fmt"

	"github.com/samber/ro"
	rotemplate "github.com/samber/ro/plugins/template"
)

// c18PauseTpl is a template argument whose Pause method is a scheduling point in the middle of the rendering.
type c18PauseTpl struct {
	Name string
	e    *Env
}

func (t c18PauseTpl) Pause() string {
	t.e.Yield()
	t.e.Yield()
	return ""
}

func init() {
	Register(&Family{
		Name:   "C18.concurrent",
		Props:  []string{"C18"},
		Weight: 1,
		Gen: func(g *Gen) *Scn {
			sc := &Scn{Family: "C18.concurrent"}
			sc.Sub = g.Pick("TextTemplate", "HTMLTemplate")
			sc.SetInt("k", g.Range(2, 3))
			sc.SetInt("items", g.Range(1, 3))
			return sc
		},
		Run: func(e *Env) {
			sc := e.Sc
			const tpl = "<b>{{.Name}}</b>{{.Pause}}<i>{{.Name}}</i>"
			var op func(ro.Observable[c18PauseTpl]) ro.Observable[string]
			if sc.Sub == "TextTemplate" {
				op = rotemplate.TextTemplate[c18PauseTpl](tpl)
			} else {
				op = rotemplate.HTMLTemplate[c18PauseTpl](tpl)
			}
			k, items := sc.Int("k", 2), sc.Int("items", 1)
			got := make([][]string, k)
			want := make([][]string, k)
			for i := 0; i < k; i++ {
				i := i
				var in []c18PauseTpl
				for j := 0; j < items; j++ {
					name := fmt.Sprintf("s%dv%d", i, j)
					in = append(in, c18PauseTpl{Name: name, e: e})
					want[i] = append(want[i], fmt.Sprintf("<b>%s</b><i>%s</i>", name, name))
				}
				e.Go(fmt.Sprintf("subscriber%d", i), func() {
					op(ro.Just(in...)).Subscribe(ro.NewObserver(
						func(s string) { got[i] = append(got[i], s) },
						func(err error) { got[i] = append(got[i], "error: "+err.Error()) },
						func() {},
					))
				})
			}
			e.SettleFor(10 * Unit)
			if e.K.Capped() {
				return
			}
			for i := 0; i < k; i++ {
				if fmt.Sprint(got[i]) != fmt.Sprint(want[i]) {
					e.Violate("C18", "concurrent-subscriptions-interfere", fmt.Sprintf("rotemplate.%s: %d subscriptions of one operator value rendering at the same time: subscription %d received %q, the template applied to its own items gives %q", sc.Sub, k, i, got[i], want[i]))
					return
				}
			}
		},
	})
}
