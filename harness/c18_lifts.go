package roverif

// C18.lift — the "faithful lift" clauses of C18.
//
// NOTE (DESIGN.md, C18 (b)): this part is a pure function of the item. Every operator here is a
// one-stage pipeline over a synchronous typed source, and its verdict depends on no schedule, clock
// or fault: the simulator contributes only seeded generation of the inputs and the contract harness
// (grammar, release of the source, context, no escaping panic). The value oracle is differential:
// the wrapped standard-library function is called directly in the harness on the same item.
//
// Scenario encoding: Sub = operator name; Ints: iseed (input seed), lo/n (items lo..lo+n-1 of the
// seeded item stream are played), end (0 Complete, 1 Error, 2 silent), p0..p3 (indices into the
// operator's small parameter tables). Inputs are regenerated in Run from simrt.NewRng(f(iseed, index)).

import (
	"bytes"
	"encoding/base64"
	"encoding/gob"
	"encoding/json"
	"fmt"
	htmltemplate "html/template"
	"math"
	"regexp"
	"sort"
	"strconv"
	"strings"
	texttemplate "text/template"
	"time"
	_ "time/tzdata" // real zones offline
	"unicode/utf8"

	"github.com/samber/ro"
	robytes "github.com/samber/ro/plugins/bytes"
	robase64 "github.com/samber/ro/plugins/encoding/base64"
	rogob "github.com/samber/ro/plugins/encoding/gob"
	rojson "github.com/samber/ro/plugins/encoding/json"
	roregexp "github.com/samber/ro/plugins/regexp"
	rosort "github.com/samber/ro/plugins/sort"
	rostrconv "github.com/samber/ro/plugins/strconv"
	rostrings "github.com/samber/ro/plugins/strings"
	rotemplate "github.com/samber/ro/plugins/template"
	rotime "github.com/samber/ro/plugins/time"

	"rosim/simrt"
)

// ---------------------------------------------------------------------------------------------
// registry

type liftOp struct {
	Name string
	P    []int // cardinalities of the parameters p0..p3
	Ns   []int // candidate item counts
	Ends []int // candidate endings
	Run  func(c *liftCtx)
}

var liftOps = map[string]*liftOp{}
var liftOrder []string

func regLift(name string, p []int, run func(c *liftCtx)) *liftOp {
	if _, dup := liftOps[name]; dup {
		panic("duplicate lift op " + name)
	}
	op := &liftOp{Name: name, P: p, Run: run, Ns: []int{0, 1, 2, 3, 5, 8, 13, 21}, Ends: []int{0, 0, 0, 1, 2}}
	liftOps[name] = op
	liftOrder = append(liftOrder, name)
	return op
}

type liftCtx struct {
	run  *c18Run
	e    *Env
	sc   *Scn
	n    int
	lo   int
	end  int
	seed uint64
	p    [4]int
}

// rng returns the generator of item i (stable under changes of n and lo).
func (c *liftCtx) rng(i int) *simrt.Rng {
	x := c.seed*0x9e3779b97f4a7c15 ^ uint64(c.lo+i+1)*0xc2b2ae3d27d4eb4f ^ 0xc18
	r := simrt.NewRng(x)
	r.Uint64()
	return r
}

func genItems[T any](c *liftCtx, f func(r *simrt.Rng) T) []T {
	out := make([]T, c.n)
	for i := range out {
		out[i] = f(c.rng(i))
	}
	return out
}

func init() {
	Register(&Family{
		Name:   "C18.lift",
		Props:  []string{"C18"},
		Weight: 4,
		Gen: func(g *Gen) *Scn {
			sc := &Scn{Family: "C18.lift"}
			op := liftOps[liftOrder[g.Intn(len(liftOrder))]]
			sc.Sub = op.Name
			sc.SetInt("iseed", g.Intn(1<<30))
			sc.SetInt("lo", 0)
			sc.SetInt("n", op.Ns[g.Intn(len(op.Ns))])
			sc.SetInt("end", op.Ends[g.Intn(len(op.Ends))])
			for i, card := range op.P {
				sc.SetInt(fmt.Sprintf("p%d", i), g.Intn(card))
			}
			return sc
		},
		Shrink: func(sc *Scn) []*Scn {
			var out []*Scn
			n, lo := sc.Int("n", 0), sc.Int("lo", 0)
			if n > 1 {
				a := cloneScn(sc) // first half
				a.SetInt("n", n/2)
				b := cloneScn(sc) // second half
				b.SetInt("lo", lo+n/2)
				b.SetInt("n", n-n/2)
				d := cloneScn(sc) // drop the first item
				d.SetInt("lo", lo+1)
				d.SetInt("n", n-1)
				out = append(out, a, b, d)
			}
			return out
		},
		Run: func(e *Env) {
			sc := e.Sc
			op := liftOps[sc.Sub]
			if op == nil {
				panic("C18.lift: unknown operator " + sc.Sub)
			}
			c := &liftCtx{run: &c18Run{e: e}, e: e, sc: sc, n: sc.Int("n", 0), lo: sc.Int("lo", 0), end: sc.Int("end", 0), seed: uint64(sc.Int("iseed", 0))}
			if c.n < 0 || c.lo < 0 || c.end < 0 || c.end > 2 {
				panic("C18.lift: bad n/lo/end")
			}
			for i := range c.p {
				if i < len(op.P) && op.P[i] > 0 {
					c.p[i] = sc.Int(fmt.Sprintf("p%d", i), 0) % op.P[i]
					if c.p[i] < 0 {
						c.p[i] = 0
					}
				}
			}
			op.Run(c)
			c.run.finish()
		},
	})
}

// ---------------------------------------------------------------------------------------------
// generic one-stage differential runner

type liftCase[T, R any] struct {
	name   string
	items  []T
	op     func(ro.Observable[T]) ro.Observable[R]
	ref    func(T) (R, bool, error) // value, emitted?, error; nil = no value oracle
	snapT  func(T) string
	snapR  func(R) string
	clause string
}

type liftExp struct {
	k    byte
	snap string
	err  error
	item int
}

// runLift plays lc.items through lc.op and checks:
//   - lift-mismatch: the notifications are, item by item, what the wrapped function returns: a value
//     for every item until the first item for which it returns an error, which ends the stream with an
//     Error notification matching that error; otherwise the source's own terminal is forwarded;
//   - input-modified: no item was modified; delivered-modified: no delivered value changed afterwards;
//   - core contract: no escaping panic, grammar, non-nil context, source subscribed once, released once.
//
// It returns the recorder (nil when the run could not be judged).
// liftViolate files a lift violation; when the case is the second use of one operator value the difference is
// also what C12 forbids (an operator value is a recipe: its uses do not influence each other).
func liftViolate(e *Env, what, clause, msg string) {
	e.Violate("C18", clause, msg)
	if strings.Contains(what, "second use of the operator value") {
		e.Violate("C12", "operator-value-reuse", msg)
	}
}

func runLift[T, R any](c *liftCtx, lc liftCase[T, R]) *tRec[R] {
	e := c.e
	what := lc.name
	clause := lc.clause
	if clause == "" {
		clause = "lift-mismatch"
	}
	before := make([]string, len(lc.items))
	for i, it := range lc.items {
		before[i] = lc.snapT(it)
	}
	var want []liftExp
	failed := false
	if lc.ref != nil {
		refPanic := func() (p interface{}) {
			defer func() { p = recover() }()
			for i, it := range lc.items {
				v, emit, err := lc.ref(it)
				if err != nil {
					want = append(want, liftExp{k: 'E', err: err, item: i})
					failed = true
					break
				}
				if emit {
					want = append(want, liftExp{k: 'N', snap: lc.snapR(v), item: i})
				}
			}
			return nil
		}()
		if refPanic != nil {
			// the wrapped function itself panics on this input: outside the operator's domain
			e.Probe("c18-ref-panics")
			e.Note(fmt.Sprintf("%s: reference panicked: %v", what, refPanic))
			return nil
		}
		for i, it := range lc.items {
			if lc.snapT(it) != before[i] {
				c.run.bug("the reference function of %s modified item %d", what, i)
			}
		}
	} else {
		for i := range lc.items {
			want = append(want, liftExp{k: 'N', item: i})
		}
	}
	if !failed {
		switch c.end {
		case 0:
			want = append(want, liftExp{k: 'C', item: -1})
		case 1:
			want = append(want, liftExp{k: 'E', err: ScriptError(11), item: -1})
		}
	} else {
		e.Probe("c18-item-error")
	}
	src := newTSrc(e, lc.items, c.end, 11)
	rec := newTRec[R](e, lc.snapR)
	h := tSubscribe(e, lc.op(src.Obs()), rec.Observer())
	e.Settle()
	if !c18Contract(e, rec, h, what) {
		return nil
	}
	itemDesc := func(i int) string {
		if i < 0 || i >= len(before) {
			return "the source's terminal"
		}
		return fmt.Sprintf("item #%d %s", i, c18Trunc(before[i], 80))
	}
	for i := 0; i < len(want) || i < len(rec.Events); i++ {
		if i >= len(rec.Events) {
			w := want[i]
			liftViolate(e, what, clause, fmt.Sprintf("%s: notification #%d missing: want %c for %s; got trace %s", what, i, w.k, itemDesc(w.item), rec.trace()))
			break
		}
		g := rec.Events[i]
		if i >= len(want) {
			liftViolate(e, what, clause, fmt.Sprintf("%s: unexpected extra notification #%d (%c); got trace %s", what, i, g.K, rec.trace()))
			break
		}
		w := want[i]
		if g.K != w.k {
			detail := ""
			if g.K == 'E' {
				detail = fmt.Sprintf(" (error: %v)", g.Err)
			}
			if w.k == 'E' {
				detail += fmt.Sprintf(" (the wrapped function returns error %q)", w.err)
			}
			liftViolate(e, what, clause, fmt.Sprintf("%s: notification #%d is %c%s, want %c for %s", what, i, g.K, detail, w.k, itemDesc(w.item)))
			break
		}
		if w.k == 'N' && lc.ref != nil && g.Snap != w.snap {
			liftViolate(e, what, clause, fmt.Sprintf("%s: %s: emitted %s, the wrapped function returns %s", what, itemDesc(w.item), c18Trunc(g.Snap, 100), c18Trunc(w.snap, 100)))
			break
		}
		if w.k == 'E' && !errMatches(g.Err, w.err) {
			liftViolate(e, what, clause, fmt.Sprintf("%s: %s: Error notification carries %q (%T), want %q (%T)", what, itemDesc(w.item), g.Err, g.Err, w.err, w.err))
			break
		}
	}
	for i, it := range lc.items {
		if now := lc.snapT(it); now != before[i] {
			e.Violate("C18", "input-modified", fmt.Sprintf("%s: item #%d was %s when handed to the operator and is %s after the run", what, i, c18Trunc(before[i], 80), c18Trunc(now, 80)))
			break
		}
	}
	for i, ev := range rec.Events {
		if ev.K == 'N' {
			if now := lc.snapR(ev.V); now != ev.Snap {
				e.Violate("C18", "delivered-modified", fmt.Sprintf("%s: value #%d was %s when delivered and is %s at the end of the run", what, i, c18Trunc(ev.Snap, 80), c18Trunc(now, 80)))
				break
			}
		}
	}
	c18Release(e, src, rec, h, what)
	return rec
}

// liftMap / liftMapErr: shorthand for total and partial functions.
func liftMap[T, R any](c *liftCtx, name string, items []T, op func(ro.Observable[T]) ro.Observable[R], f func(T) R, snapT func(T) string, snapR func(R) string) {
	runLift(c, liftCase[T, R]{name: name, items: items, op: op, snapT: snapT, snapR: snapR,
		ref: func(v T) (R, bool, error) { return f(v), true, nil }})
}

func liftMapErr[T, R any](c *liftCtx, name string, items []T, op func(ro.Observable[T]) ro.Observable[R], f func(T) (R, error), snapT func(T) string, snapR func(R) string) {
	runLift(c, liftCase[T, R]{name: name, items: items, op: op, snapT: snapT, snapR: snapR,
		ref: func(v T) (R, bool, error) { r, err := f(v); return r, true, err }})
}

// ---------------------------------------------------------------------------------------------
// snapshots

func snapStr(s string) string      { return strconv.Quote(s) }
func snapI64(v int64) string       { return strconv.FormatInt(v, 10) }
func snapU64(v uint64) string      { return strconv.FormatUint(v, 10) }
func snapBool(v bool) string       { return strconv.FormatBool(v) }
func snapRune(v rune) string       { return strconv.FormatInt(int64(v), 10) }
func snapF64(v float64) string     { return fmt.Sprintf("%v/%016x", v, math.Float64bits(v)) }
func snapC128(v complex128) string { return snapF64(real(v)) + "," + snapF64(imag(v)) }
func snapAny[T any](v T) string    { return fmt.Sprintf("%#v", v) }

func snapBss(xs [][]byte) string {
	ss := make([]string, len(xs))
	for i, x := range xs {
		ss[i] = string(x)
	}
	return snapStrs(ss)
}

func snapBsss(xs [][][]byte) string {
	var sb strings.Builder
	sb.WriteByte('[')
	for _, x := range xs {
		sb.WriteString(snapBss(x))
	}
	sb.WriteByte(']')
	return sb.String()
}

func snapStrss(xs [][]string) string {
	var sb strings.Builder
	sb.WriteByte('[')
	for _, x := range xs {
		sb.WriteString(snapStrs(x))
	}
	sb.WriteByte(']')
	return sb.String()
}

func snapTime(t time.Time) string {
	return fmt.Sprintf("%d.%09d %q %s", t.Unix(), t.Nanosecond(), t.Location().String(), t.Format(time.RFC3339Nano))
}

// ---------------------------------------------------------------------------------------------
// input generators

func genLongText(r *simrt.Rng) string {
	var sb strings.Builder
	n := 1000 + r.Intn(2200)
	for sb.Len() < n {
		sb.WriteString(c18Words[r.Intn(len(c18Words))])
		sb.WriteByte(" _-.A9"[r.Intn(6)])
	}
	return sb.String()
}

// genText: empty, ASCII in several case styles, padded, long (> 1024 bytes), multi-byte, invalid
// UTF-8, control characters, e-mail-like and numeric fragments.
func genText(r *simrt.Rng) string {
	switch r.Intn(20) {
	case 0:
		return ""
	case 1:
		return "hello world"
	case 2:
		return "fooBarBaz"
	case 3:
		return "snake_case_word"
	case 4:
		return "HTTPServer2Go"
	case 5:
		return "  padded  text  "
	case 6:
		return genLongText(r)
	case 7:
		return "héllo wörld ünï"
	case 8:
		return "日本語 テキスト"
	case 9:
		return "👍🏽 ok ǅemal ß"
	case 10:
		return "bad\xff\xfeutf8 x"
	case 11:
		return "abc\xe2\x82"
	case 12:
		b := make([]byte, r.Intn(40))
		for i := range b {
			b[i] = byte(r.Intn(256))
		}
		return string(b)
	case 13:
		return "user@example.com, other@site.com 12345 aaa"
	case 14:
		return "line1\nline2\r\n\ttabbed"
	case 15:
		return "<script>alert('x')</script> O'Reilly & \"Sons\""
	case 16:
		return "kebab-case-with-more-words and.dots"
	case 17:
		return "ALLCAPS"
	case 18:
		if r.Intn(4) == 0 { // huge
			return strings.Repeat(genLongText(r), 24)
		}
		return "Mixed CASE with 3 numbers 42 and 7up"
	default:
		var parts []string
		for i, k := 0, 1+r.Intn(5); i < k; i++ {
			parts = append(parts, c18Words[r.Intn(len(c18Words))])
		}
		return strings.Join(parts, []string{" ", "_", "-", "", "."}[r.Intn(5)])
	}
}

// spareBytes copies s into a slice that sometimes has spare capacity (filled with a sentinel).
func spareBytes(s string, r *simrt.Rng) []byte {
	extra := []int{0, 0, 1, 8, 64}[r.Intn(5)]
	b := make([]byte, len(s), len(s)+extra)
	copy(b, s)
	sp := b[len(s):cap(b)]
	for i := range sp {
		sp[i] = 0xEE
	}
	return b
}

func genBytesText(r *simrt.Rng) []byte { s := genText(r); return spareBytes(s, r) }

var c18NumStrs = []string{"0", "-0", "+7", "42", "-42", "  42", "42 ", "", "abc", "12a", "9223372036854775807", "9223372036854775808",
	"-9223372036854775808", "-9223372036854775809", "18446744073709551615", "18446744073709551616", "0x1F", "0b101", "0o17", "017", "1_000", "1__0", "_1",
	"ff", "FF", "zz", "3.14", "-2.5e10", "1e400", "1e-400", "NaN", "nan", "Inf", "-inf", "+Infinity", "0x1p-2", "0x1.8p1", "1e", "１２３", "4\xff2", ".5", "5.",
	"true", "false", "T", "F", "1", "t", "f", "TRUE", "True", "tRuE", "٣", "2147483647", "2147483648", "-2147483649", "255", "256", "-129", "127", "128",
	"3.4028235e38", "3.5e38", "1e-46", "4.9e-324", "0.1", "1e23", "179769313486231580793728971405303415079934132710037826936173778980444968292764750946649017977587207096330286416692887910946555547851940402630657488671505820681908902000708383676273854845817711531764475730270069855571366959622842914819860834936475292719074168444365510704342711559699508093042880177904174497792"}

func genNumStr(r *simrt.Rng) string {
	if r.Intn(4) == 0 {
		n := 1 + r.Intn(24)
		b := make([]byte, n)
		for i := range b {
			b[i] = byte('0' + r.Intn(10))
		}
		if r.Bool(0.3) {
			return "-" + string(b)
		}
		return string(b)
	}
	return c18NumStrs[r.Intn(len(c18NumStrs))]
}

func genQuoted(r *simrt.Rng) string {
	fixed := []string{`"hello"`, `"a\nb"`, "`raw\\n`", `'c'`, `"unterminated`, `"\xZZ"`, `"é"`, `""`, ``, `"a"b"`, `'ab'`, `"\400"`, `"\377"`, `'\''`, `"\'"`, "\"a\nb\"", `"\ud800"`, "`a`b`", `"`, `''`}
	if r.Bool(0.4) {
		return strconv.Quote(genText(r))
	}
	return fixed[r.Intn(len(fixed))]
}

func genF64(r *simrt.Rng) float64 {
	fixed := []float64{0, math.Copysign(0, -1), 1, -1.5, math.Pi, 1e300, 5e-324, 1e-320, math.MaxFloat64, math.NaN(), math.Inf(1), math.Inf(-1), 0.1, 123456789.125, 1e21, 1e20, 3.4028235e38, 1e-7}
	if r.Bool(0.4) {
		return math.Float64frombits(r.Uint64())
	}
	return fixed[r.Intn(len(fixed))]
}

func genI64(r *simrt.Rng) int64 {
	fixed := []int64{0, 1, -1, math.MaxInt64, math.MinInt64, 255, -256, 1 << 32, 36, 35}
	if r.Bool(0.4) {
		return int64(r.Uint64())
	}
	return fixed[r.Intn(len(fixed))]
}

func genRune(r *simrt.Rng) rune {
	fixed := []rune{'a', 'é', '日', '\n', 0, 0x10FFFF, 0x110000, -1, 0xD800, '\'', '"', '\\', 0x7f, 0xfffd, '☺', 0x200b, math.MaxInt32, math.MinInt32}
	if r.Bool(0.3) {
		return rune(r.Intn(0x110000))
	}
	return fixed[r.Intn(len(fixed))]
}

var c18Locs = func() []*time.Location {
	locs := []*time.Location{time.UTC, time.FixedZone("PLUS530", 5*3600+1800), time.FixedZone("MINUS8", -8*3600), time.FixedZone("", 0), time.FixedZone("ODD", 12345)}
	// real zones (embedded zone database, see the time/tzdata import): daylight-saving transitions, a
	// half-hour shift, a transition at midnight, a skipped calendar day
	for _, name := range []string{"Europe/Paris", "America/New_York", "Australia/Lord_Howe", "America/Sao_Paulo", "Pacific/Apia"} {
		if l, err := time.LoadLocation(name); err == nil {
			locs = append(locs, l)
		}
	}
	return locs
}()

// process-local zones tried by the cases that depend on time.Local
var c18Locals = func() []*time.Location {
	locs := []*time.Location{time.FixedZone("CET", 3600)}
	for _, name := range []string{"Europe/Paris", "America/New_York"} {
		if l, err := time.LoadLocation(name); err == nil {
			locs = append(locs, l)
		}
	}
	return locs
}()

// instants around zone transitions of the real zones above (UTC)
var c18Transitions = []time.Time{
	time.Date(2021, 3, 28, 1, 0, 0, 0, time.UTC),   // Paris spring forward
	time.Date(2021, 10, 31, 1, 0, 0, 0, time.UTC),  // Paris fall back
	time.Date(2021, 3, 14, 7, 0, 0, 0, time.UTC),   // New York spring forward
	time.Date(2021, 11, 7, 6, 0, 0, 0, time.UTC),   // New York fall back
	time.Date(2021, 10, 2, 15, 30, 0, 0, time.UTC), // Lord Howe (+30 min)
	time.Date(2018, 11, 4, 3, 0, 0, 0, time.UTC),   // Sao Paulo: midnight does not exist
	time.Date(2011, 12, 30, 10, 0, 0, 0, time.UTC), // Apia skips December 30th
}

func genTime(r *simrt.Rng) time.Time {
	loc := c18Locs[r.Intn(len(c18Locs))]
	if r.Bool(0.25) {
		// some hours around a transition, seen from a real zone
		t := c18Transitions[r.Intn(len(c18Transitions))]
		return t.Add(time.Duration(r.Intn(48*60)-24*60) * time.Minute).In(loc)
	}
	switch r.Intn(9) {
	case 0:
		return time.Time{}
	case 1:
		return time.Unix(0, 0).In(loc)
	case 2:
		return time.Unix(253402300799, 999999999).In(loc)
	case 3:
		return time.Unix(-62135596800, 0).In(loc)
	case 4:
		return time.Date(2024, 2, 29, 23, 59, 59, 999999999, loc)
	case 5:
		return time.Date(2021, 12, 31, 0, 0, 0, 0, loc)
	case 6:
		return time.Date(2023, 1, 31, 12, 30, 0, 500, loc)
	default:
		return time.Unix(int64(r.Uint64()>>27)-(1<<36), int64(r.Intn(1000000000))).In(loc)
	}
}

// ---------------------------------------------------------------------------------------------
// strconv

var (
	c18ParseBases  = []int{10, 0, 2, 8, 16, 36, 1, 37, -1}
	c18BitSizes    = []int{64, 0, 8, 16, 32, 65, -1}
	c18FloatBits   = []int{64, 32}
	c18FormatBases = []int{10, 2, 8, 16, 36, 7}
	c18FloatFmts   = []byte{'g', 'e', 'E', 'f', 'G', 'x', 'X', 'b', 'z'}
	c18Precs       = []int{-1, 0, 1, 3, 10, 30}
	c18CmplxFmts   = []byte{'g', 'e', 'f', 'E', 'G'}
	c18CmplxBits   = []int{128, 64}
)

func init() {
	regLift("strconv.Atoi", nil, func(c *liftCtx) {
		liftMapErr(c, "rostrconv.Atoi", genItems(c, genNumStr), rostrconv.Atoi[string](), strconv.Atoi, snapStr, snapInt)
	})
	regLift("strconv.ParseInt", []int{len(c18ParseBases), len(c18BitSizes)}, func(c *liftCtx) {
		base, bits := c18ParseBases[c.p[0]], c18BitSizes[c.p[1]]
		liftMapErr(c, fmt.Sprintf("rostrconv.ParseInt(%d,%d)", base, bits), genItems(c, genNumStr), rostrconv.ParseInt[string](base, bits),
			func(s string) (int64, error) { return strconv.ParseInt(s, base, bits) }, snapStr, snapI64)
	})
	regLift("strconv.ParseUint", []int{len(c18ParseBases), len(c18BitSizes)}, func(c *liftCtx) {
		base, bits := c18ParseBases[c.p[0]], c18BitSizes[c.p[1]]
		liftMapErr(c, fmt.Sprintf("rostrconv.ParseUint(%d,%d)", base, bits), genItems(c, genNumStr), rostrconv.ParseUint[string](base, bits),
			func(s string) (uint64, error) { return strconv.ParseUint(s, base, bits) }, snapStr, snapU64)
	})
	regLift("strconv.ParseUint64", []int{len(c18ParseBases), len(c18BitSizes)}, func(c *liftCtx) {
		base, bits := c18ParseBases[c.p[0]], c18BitSizes[c.p[1]]
		liftMapErr(c, fmt.Sprintf("rostrconv.ParseUint64(%d,%d)", base, bits), genItems(c, genNumStr), rostrconv.ParseUint64[string](base, bits),
			func(s string) (uint64, error) { return strconv.ParseUint(s, base, bits) }, snapStr, snapU64)
	})
	regLift("strconv.ParseFloat", []int{len(c18FloatBits)}, func(c *liftCtx) {
		bits := c18FloatBits[c.p[0]]
		liftMapErr(c, fmt.Sprintf("rostrconv.ParseFloat(%d)", bits), genItems(c, genNumStr), rostrconv.ParseFloat[string](bits),
			func(s string) (float64, error) { return strconv.ParseFloat(s, bits) }, snapStr, snapF64)
	})
	regLift("strconv.ParseBool", nil, func(c *liftCtx) {
		liftMapErr(c, "rostrconv.ParseBool", genItems(c, genNumStr), rostrconv.ParseBool[string](), strconv.ParseBool, snapStr, snapBool)
	})
	regLift("strconv.FormatBool", nil, func(c *liftCtx) {
		liftMap(c, "rostrconv.FormatBool", genItems(c, func(r *simrt.Rng) bool { return r.Bool(0.5) }), rostrconv.FormatBool(), strconv.FormatBool, snapBool, snapStr)
	})
	regLift("strconv.FormatFloat", []int{len(c18FloatFmts), len(c18Precs), len(c18FloatBits)}, func(c *liftCtx) {
		f, prec, bits := c18FloatFmts[c.p[0]], c18Precs[c.p[1]], c18FloatBits[c.p[2]]
		liftMap(c, fmt.Sprintf("rostrconv.FormatFloat(%q,%d,%d)", f, prec, bits), genItems(c, genF64), rostrconv.FormatFloat(f, prec, bits),
			func(v float64) string { return strconv.FormatFloat(v, f, prec, bits) }, snapF64, snapStr)
	})
	regLift("strconv.FormatComplex", []int{len(c18CmplxFmts), len(c18Precs), len(c18CmplxBits)}, func(c *liftCtx) {
		f, prec, bits := c18CmplxFmts[c.p[0]], c18Precs[c.p[1]], c18CmplxBits[c.p[2]]
		liftMap(c, fmt.Sprintf("rostrconv.FormatComplex(%q,%d,%d)", f, prec, bits),
			genItems(c, func(r *simrt.Rng) complex128 { return complex(genF64(r), genF64(r)) }), rostrconv.FormatComplex(f, prec, bits),
			func(v complex128) string { return strconv.FormatComplex(v, f, prec, bits) }, snapC128, snapStr)
	})
	regLift("strconv.FormatInt", []int{len(c18FormatBases)}, func(c *liftCtx) {
		base := c18FormatBases[c.p[0]]
		liftMap(c, fmt.Sprintf("rostrconv.FormatInt(%d)", base), genItems(c, genI64), rostrconv.FormatInt[string](base),
			func(v int64) string { return strconv.FormatInt(v, base) }, snapI64, snapStr)
	})
	regLift("strconv.FormatUint", []int{len(c18FormatBases)}, func(c *liftCtx) {
		base := c18FormatBases[c.p[0]]
		liftMap(c, fmt.Sprintf("rostrconv.FormatUint(%d)", base), genItems(c, func(r *simrt.Rng) uint64 { return uint64(genI64(r)) }), rostrconv.FormatUint[string](base),
			func(v uint64) string { return strconv.FormatUint(v, base) }, snapU64, snapStr)
	})
	regLift("strconv.Itoa", nil, func(c *liftCtx) {
		liftMap(c, "rostrconv.Itoa", genItems(c, func(r *simrt.Rng) int { return int(genI64(r)) }), rostrconv.Itoa(), strconv.Itoa, snapInt, snapStr)
	})
	regLift("strconv.Quote", nil, func(c *liftCtx) {
		liftMap(c, "rostrconv.Quote", genItems(c, genText), rostrconv.Quote(), strconv.Quote, snapStr, snapStr)
	})
	regLift("strconv.QuoteRune", nil, func(c *liftCtx) {
		liftMap(c, "rostrconv.QuoteRune", genItems(c, genRune), rostrconv.QuoteRune(), strconv.QuoteRune, snapRune, snapStr)
	})
	regLift("strconv.Unquote", nil, func(c *liftCtx) {
		liftMapErr(c, "rostrconv.Unquote", genItems(c, genQuoted), rostrconv.Unquote(), strconv.Unquote, snapStr, snapStr)
	})
}

// ---------------------------------------------------------------------------------------------
// regexp

var c18Pats = func() []*regexp.Regexp {
	var out []*regexp.Regexp
	for _, p := range []string{`a+`, `(\w+)@(\w+)\.com`, `^$`, `[^\x00-\x7F]+`, `(?i)h(el)*lo`, `\d{2,}`, `.`, `(a)|(b)`, ``, `\s+`, `(?s).*`, `\pL+`, `x*`, `(?m)^line\d$`, `(?P<first>[a-z]+)[ _-](?P<second>[a-z]+)`} {
		out = append(out, regexp.MustCompile(p))
	}
	return out
}()

var c18Repls = []string{"", "-", "[$0]", "${1}x$2", "é$1", "$", "$$", "${first}/${second}", "$1W"}
var c18FindN = []int{-1, 0, 1, 2, 5}

func init() {
	np, nr, nn := len(c18Pats), len(c18Repls), len(c18FindN)
	nm := func(f string, c *liftCtx, extra ...interface{}) string {
		return fmt.Sprintf("roregexp.%s(%q%s)", f, c18Pats[c.p[0]].String(), fmt.Sprint(extra...))
	}
	regLift("regexp.Find", []int{np}, func(c *liftCtx) {
		re := c18Pats[c.p[0]]
		liftMap(c, nm("Find", c), genItems(c, genBytesText), roregexp.Find[[]byte](re), re.Find, snapBytes, snapBytes)
	})
	regLift("regexp.FindString", []int{np}, func(c *liftCtx) {
		re := c18Pats[c.p[0]]
		liftMap(c, nm("FindString", c), genItems(c, genText), roregexp.FindString[string](re), re.FindString, snapStr, snapStr)
	})
	regLift("regexp.FindSubmatch", []int{np}, func(c *liftCtx) {
		re := c18Pats[c.p[0]]
		liftMap(c, nm("FindSubmatch", c), genItems(c, genBytesText), roregexp.FindSubmatch[[]byte](re), re.FindSubmatch, snapBytes, snapBss)
	})
	regLift("regexp.FindStringSubmatch", []int{np}, func(c *liftCtx) {
		re := c18Pats[c.p[0]]
		liftMap(c, nm("FindStringSubmatch", c), genItems(c, genText), roregexp.FindStringSubmatch[string](re), re.FindStringSubmatch, snapStr, snapStrs)
	})
	regLift("regexp.FindAll", []int{np, nn}, func(c *liftCtx) {
		re, n := c18Pats[c.p[0]], c18FindN[c.p[1]]
		liftMap(c, nm("FindAll", c, ",", n), genItems(c, genBytesText), roregexp.FindAll[[]byte](re, n),
			func(b []byte) [][]byte { return re.FindAll(b, n) }, snapBytes, snapBss)
	})
	regLift("regexp.FindAllString", []int{np, nn}, func(c *liftCtx) {
		re, n := c18Pats[c.p[0]], c18FindN[c.p[1]]
		liftMap(c, nm("FindAllString", c, ",", n), genItems(c, genText), roregexp.FindAllString[string](re, n),
			func(s string) []string { return re.FindAllString(s, n) }, snapStr, snapStrs)
	})
	regLift("regexp.FindAllSubmatch", []int{np, nn}, func(c *liftCtx) {
		re, n := c18Pats[c.p[0]], c18FindN[c.p[1]]
		liftMap(c, nm("FindAllSubmatch", c, ",", n), genItems(c, genBytesText), roregexp.FindAllSubmatch[[]byte](re, n),
			func(b []byte) [][][]byte { return re.FindAllSubmatch(b, n) }, snapBytes, snapBsss)
	})
	regLift("regexp.FindAllStringSubmatch", []int{np, nn}, func(c *liftCtx) {
		re, n := c18Pats[c.p[0]], c18FindN[c.p[1]]
		liftMap(c, nm("FindAllStringSubmatch", c, ",", n), genItems(c, genText), roregexp.FindAllStringSubmatch[string](re, n),
			func(s string) [][]string { return re.FindAllStringSubmatch(s, n) }, snapStr, snapStrss)
	})
	regLift("regexp.Match", []int{np}, func(c *liftCtx) {
		re := c18Pats[c.p[0]]
		liftMap(c, nm("Match", c), genItems(c, genBytesText), roregexp.Match[[]byte](re), re.Match, snapBytes, snapBool)
	})
	regLift("regexp.MatchString", []int{np}, func(c *liftCtx) {
		re := c18Pats[c.p[0]]
		liftMap(c, nm("MatchString", c), genItems(c, genText), roregexp.MatchString[string](re), re.MatchString, snapStr, snapBool)
	})
	regLift("regexp.ReplaceAll", []int{np, nr}, func(c *liftCtx) {
		re, repl := c18Pats[c.p[0]], c18Repls[c.p[1]]
		rb := []byte(repl)
		liftMap(c, nm("ReplaceAll", c, ",", strconv.Quote(repl)), genItems(c, genBytesText), roregexp.ReplaceAll[[]byte](re, rb),
			func(b []byte) []byte { return re.ReplaceAll(b, []byte(repl)) }, snapBytes, snapBytes)
		if string(rb) != repl {
			c.e.Violate("C18", "input-modified", fmt.Sprintf("roregexp.ReplaceAll modified its replacement argument: %q -> %q", repl, rb))
		}
	})
	regLift("regexp.ReplaceAllString", []int{np, nr}, func(c *liftCtx) {
		re, repl := c18Pats[c.p[0]], c18Repls[c.p[1]]
		liftMap(c, nm("ReplaceAllString", c, ",", strconv.Quote(repl)), genItems(c, genText), roregexp.ReplaceAllString[string](re, repl),
			func(s string) string { return re.ReplaceAllString(s, repl) }, snapStr, snapStr)
	})
	regLift("regexp.FilterMatch", []int{np}, func(c *liftCtx) {
		re := c18Pats[c.p[0]]
		runLift(c, liftCase[[]byte, []byte]{name: nm("FilterMatch", c), items: genItems(c, genBytesText), op: roregexp.FilterMatch[[]byte](re), snapT: snapBytes, snapR: snapBytes,
			ref: func(b []byte) ([]byte, bool, error) { return b, re.Match(b), nil }})
	})
	regLift("regexp.FilterMatchString", []int{np}, func(c *liftCtx) {
		re := c18Pats[c.p[0]]
		runLift(c, liftCase[string, string]{name: nm("FilterMatchString", c), items: genItems(c, genText), op: roregexp.FilterMatchString[string](re), snapT: snapStr, snapR: snapStr,
			ref: func(s string) (string, bool, error) { return s, re.MatchString(s), nil }})
	})
}

// ---------------------------------------------------------------------------------------------
// strings / bytes text helpers: the two flavours must agree on the same text

func textClass(s string) string {
	if !utf8.ValidString(s) {
		return "badutf8"
	}
	for i := 0; i < len(s); i++ {
		if s[i] >= 0x80 {
			return "utf8"
		}
	}
	return "ascii"
}

// runFlavours runs the string flavour and the byte flavour of one helper over the same texts (each
// through the full contract harness of runLift, without value oracle: these helpers wrap no
// standard-library function) and compares the outputs item by item. The clause carries the class of
// the first text on which they disagree: flavours-disagree-ascii / -utf8 / -badutf8.
func runFlavours[RS, RB any](c *liftCtx, name string, opS func(ro.Observable[string]) ro.Observable[RS], opB func(ro.Observable[[]byte]) ro.Observable[RB], snapRS func(RS) string, snapRB func(RB) string) {
	texts := genItems(c, genText)
	bts := make([][]byte, len(texts))
	for i, s := range texts {
		bts[i] = spareBytes(s, c.rng(i))
	}
	rs := runLift(c, liftCase[string, RS]{name: "rostrings." + name, items: texts, op: opS, snapT: snapStr, snapR: snapRS})
	rb := runLift(c, liftCase[[]byte, RB]{name: "robytes." + name, items: bts, op: opB, snapT: snapBytes, snapR: snapRB})
	if rs == nil || rb == nil {
		return
	}
	ns, nb := rs.nexts(), rb.nexts()
	if len(ns) != len(texts) || len(nb) != len(texts) {
		return // already reported by runLift
	}
	for i := range texts {
		if ns[i].Snap != nb[i].Snap {
			c.e.Violate("C18", "flavours-disagree-"+textClass(texts[i]), fmt.Sprintf("%s on text #%d %s: rostrings gives %s, robytes gives %s", name, i, c18Trunc(snapStr(texts[i]), 80), c18Trunc(ns[i].Snap, 80), c18Trunc(nb[i].Snap, 80)))
			return
		}
	}
}

var c18EllipsisLen = []int{8, -1, 0, 1, 2, 3, 4, 5, 20, 1024, 1 << 20}

func init() {
	regLift("text.CamelCase", nil, func(c *liftCtx) {
		runFlavours(c, "CamelCase", rostrings.CamelCase[string](), robytes.CamelCase[[]byte](), snapStr, snapBytes)
	})
	regLift("text.Capitalize", nil, func(c *liftCtx) {
		runFlavours(c, "Capitalize", rostrings.Capitalize[string](), robytes.Capitalize[[]byte](), snapStr, snapBytes)
	})
	regLift("text.KebabCase", nil, func(c *liftCtx) {
		runFlavours(c, "KebabCase", rostrings.KebabCase[string](), robytes.KebabCase[[]byte](), snapStr, snapBytes)
	})
	regLift("text.PascalCase", nil, func(c *liftCtx) {
		runFlavours(c, "PascalCase", rostrings.PascalCase[string](), robytes.PascalCase[[]byte](), snapStr, snapBytes)
	})
	regLift("text.SnakeCase", nil, func(c *liftCtx) {
		runFlavours(c, "SnakeCase", rostrings.SnakeCase[string](), robytes.SnakeCase[[]byte](), snapStr, snapBytes)
	})
	regLift("text.Words", nil, func(c *liftCtx) {
		runFlavours(c, "Words", rostrings.Words[string](), robytes.Words[[]byte](), snapStrs, snapBss)
	})
	regLift("text.Ellipsis", []int{len(c18EllipsisLen)}, func(c *liftCtx) {
		n := c18EllipsisLen[c.p[0]]
		runFlavours(c, fmt.Sprintf("Ellipsis(%d)", n), rostrings.Ellipsis[string](n), robytes.Ellipsis[[]byte](n), snapStr, snapBytes)
	})
}

// ---------------------------------------------------------------------------------------------
// time

var (
	c18Durs    = []time.Duration{2 * time.Hour, 0, 1, -1, time.Second, -36 * time.Hour, 1 << 62, -(1 << 62), 90*time.Minute + time.Nanosecond}
	c18Layouts = []string{time.RFC3339, time.RFC3339Nano, time.RFC1123Z, time.RFC1123, time.Kitchen, "2006-01-02 15:04:05", time.ANSIC, time.UnixDate,
		"Jan _2 06 03:04PM .000", "", "hello", "2006-01-02T15:04:05.999999999Z07:00:00", time.StampMicro, "02/01/06 -0700", "2006-002"}
	c18Years  = []int{0, 1, -1, 3, -3, 400}
	c18Months = []int{0, 1, -1, 12, -14, 25}
	c18Days   = []int{0, 1, -1, 31, -400, 366}
)

func genTimeStr(layout string) func(r *simrt.Rng) string {
	return func(r *simrt.Rng) string {
		good := genTime(r).Format(layout)
		switch r.Intn(10) {
		case 0:
			return ""
		case 1:
			return "garbage"
		case 2:
			if len(good) > 0 {
				k := r.Intn(len(good))
				return good[:k] + good[k+1:]
			}
			return good
		case 3:
			return genTime(r).Format(c18Layouts[r.Intn(len(c18Layouts))])
		case 4:
			return "2024-02-30 10:00:00"
		case 5:
			return good + " "
		case 6:
			return "2023-01-31T24:00:00Z"
		default:
			return good
		}
	}
}

func init() {
	regLift("time.Add", []int{len(c18Durs)}, func(c *liftCtx) {
		d := c18Durs[c.p[0]]
		liftMap(c, fmt.Sprintf("rotime.Add(%v)", d), genItems(c, genTime), rotime.Add(d), func(t time.Time) time.Time { return t.Add(d) }, snapTime, snapTime)
	})
	regLift("time.AddDate", []int{len(c18Years), len(c18Months), len(c18Days)}, func(c *liftCtx) {
		y, m, d := c18Years[c.p[0]], c18Months[c.p[1]], c18Days[c.p[2]]
		liftMap(c, fmt.Sprintf("rotime.AddDate(%d,%d,%d)", y, m, d), genItems(c, genTime), rotime.AddDate(y, m, d), func(t time.Time) time.Time { return t.AddDate(y, m, d) }, snapTime, snapTime)
	})
	regLift("time.Format", []int{len(c18Layouts)}, func(c *liftCtx) {
		l := c18Layouts[c.p[0]]
		liftMap(c, fmt.Sprintf("rotime.Format(%q)", l), genItems(c, genTime), rotime.Format(l), func(t time.Time) string { return t.Format(l) }, snapTime, snapStr)
	})
	regLift("time.In", []int{len(c18Locs)}, func(c *liftCtx) {
		loc := c18Locs[c.p[0]]
		liftMap(c, fmt.Sprintf("rotime.In(%q)", loc.String()), genItems(c, genTime), rotime.In(loc), func(t time.Time) time.Time { return t.In(loc) }, snapTime, snapTime)
	})
	// Random: every item is replaced by a random text of exactly `size` runes, all taken from the charset
	// (judged on that shape: the snapshot is the rune count and whether every rune belongs to the charset)
	{
		sizes := []int{1, 2, 7, 64, 300}
		charsets := [][]rune{rostrings.LowerCaseLettersCharset, rostrings.NumbersCharset, rostrings.SpecialCharset, rostrings.AllCharset, []rune("é漢x"), []rune("q")}
		shape := func(size int, cs []rune) func(string) string {
			return func(out string) string {
				ok := true
				for _, r := range out {
					found := false
					for _, c := range cs {
						found = found || c == r
					}
					ok = ok && found
				}
				return fmt.Sprintf("runes=%d all-in-charset=%v valid-utf8=%v", utf8.RuneCountInString(out), ok, utf8.ValidString(out))
			}
		}
		regLift("strings.Random", []int{len(sizes), len(charsets)}, func(c *liftCtx) {
			size, cs := sizes[c.p[0]], charsets[c.p[1]]
			sh := shape(size, cs)
			liftMap(c, fmt.Sprintf("rostrings.Random(%d,%q)", size, string(cs)), genItems(c, func(r *simrt.Rng) int { return r.Intn(100) }), rostrings.Random[int](size, cs),
				func(int) string { return strings.Repeat(string(cs[0]), size) }, func(v int) string { return strconv.Itoa(v) }, sh)
		})
		regLift("bytes.Random", []int{len(sizes), len(charsets)}, func(c *liftCtx) {
			size, cs := sizes[c.p[0]], charsets[c.p[1]]
			sh := shape(size, cs)
			liftMap(c, fmt.Sprintf("robytes.Random(%d,%q)", size, string(cs)), genItems(c, func(r *simrt.Rng) int { return r.Intn(100) }), robytes.Random[int](size, cs),
				func(int) []byte { return []byte(strings.Repeat(string(cs[0]), size)) }, func(v int) string { return strconv.Itoa(v) }, func(b []byte) string { return sh(string(b)) })
		})
	}
	regLift("time.Parse", []int{len(c18Layouts), 1 + len(c18Locals)}, func(c *liftCtx) {
		l := c18Layouts[c.p[0]]
		if len(c.p) > 1 && c.p[1] > 0 && c.p[1] <= len(c18Locals) {
			// time.Parse resolves zone abbreviations and offsets against the process-local zone: the
			// process lives somewhere else than UTC for the duration of this case
			defer func(old *time.Location) { time.Local = old }(time.Local)
			time.Local = c18Locals[c.p[1]-1]
		}
		liftMapErr(c, fmt.Sprintf("rotime.Parse(%q)", l), genItems(c, genTimeStr(l)), rotime.Parse[string](l), func(s string) (time.Time, error) { return time.Parse(l, s) }, snapStr, snapTime)
	})
	regLift("time.ParseInLocation", []int{len(c18Layouts), len(c18Locs)}, func(c *liftCtx) {
		l, loc := c18Layouts[c.p[0]], c18Locs[c.p[1]]
		liftMapErr(c, fmt.Sprintf("rotime.ParseInLocation(%q,%q)", l, loc.String()), genItems(c, genTimeStr(l)), rotime.ParseInLocation[string](l, loc),
			func(s string) (time.Time, error) { return time.ParseInLocation(l, s, loc) }, snapStr, snapTime)
	})
	regLift("time.StartOfDay", nil, func(c *liftCtx) {
		// documented as: time.Date(year, month, day, 0, 0, 0, 0, value.Location())
		liftMap(c, "rotime.StartOfDay", genItems(c, genTime), rotime.StartOfDay(), func(t time.Time) time.Time {
			y, m, d := t.Date()
			return time.Date(y, m, d, 0, 0, 0, 0, t.Location())
		}, snapTime, snapTime)
	})
}

// ---------------------------------------------------------------------------------------------
// template

type c18Tpl struct {
	Name string
	N    int
	Tags []string
	M    map[string]int
}

var c18Tpls = []string{
	"Hello {{.Name}}!",
	"{{range $i, $t := .Tags}}{{if $i}}, {{end}}<{{$t}}>{{end}}",
	"{{printf \"%05d|%q\" .N .Name}}",
	"{{.Missing}}",
	"{{index .Tags 2}}",
	"",
	"{{if gt .N 3}}big{{else}}small{{end}} {{len .Name}}",
	"{{range $k, $v := .M}}{{$k}}={{$v}};{{end}}",
	"<a href=\"/x?q={{.Name}}\" onclick=\"f('{{.Name}}')\">{{.Name}}</a><script>var n = {{.N}}; var s = {{.Name}};</script>",
	"{{.Name | html}} {{.Name | urlquery}}",
	"{{template \"nope\" .}}",
	"{{slice .Name 1 2}}",
	"{{.N | printf \"%s\"}} {{.Tags}} {{.M}}",
	"prefix {{.Name}} {{index .M \"k1\"}} {{index .Tags 0}} suffix",
}

func genTpl(r *simrt.Rng) c18Tpl {
	t := c18Tpl{Name: genText(r), N: r.Intn(8)}
	for i, k := 0, r.Intn(5); i < k; i++ {
		t.Tags = append(t.Tags, genText(r))
	}
	if k := r.Intn(4); k > 0 {
		t.M = map[string]int{}
		for i := 0; i < k; i++ {
			t.M[fmt.Sprintf("k%d", r.Intn(4))] = r.Intn(100)
		}
	}
	return t
}

func init() {
	regLift("template.TextTemplate", []int{len(c18Tpls)}, func(c *liftCtx) {
		src := c18Tpls[c.p[0]]
		ref := texttemplate.Must(texttemplate.New(src).Parse(src))
		// one operator value, used twice: whatever the first use left behind (it may have ended with a template
		// that failed after writing part of its output) must not show in the second
		op := rotemplate.TextTemplate[c18Tpl](src)
		for _, use := range []string{"", ", second use of the operator value"} {
			liftMapErr(c, fmt.Sprintf("rotemplate.TextTemplate(%q)%s", src, use), genItems(c, genTpl), op,
				func(v c18Tpl) (string, error) {
					var buf bytes.Buffer
					err := ref.Execute(&buf, v)
					return buf.String(), err
				}, snapAny[c18Tpl], snapStr)
		}
	})
	regLift("template.HTMLTemplate", []int{len(c18Tpls)}, func(c *liftCtx) {
		src := c18Tpls[c.p[0]]
		ref := htmltemplate.Must(htmltemplate.New(src).Parse(src))
		op := rotemplate.HTMLTemplate[c18Tpl](src)
		for _, use := range []string{"", ", second use of the operator value"} {
			liftMapErr(c, fmt.Sprintf("rotemplate.HTMLTemplate(%q)%s", src, use), genItems(c, genTpl), op,
				func(v c18Tpl) (string, error) {
					var buf bytes.Buffer
					err := ref.Execute(&buf, v)
					return buf.String(), err
				}, snapAny[c18Tpl], snapStr)
		}
	})
}

// ---------------------------------------------------------------------------------------------
// base64

var c18B64 = []*base64.Encoding{base64.StdEncoding, base64.URLEncoding, base64.RawStdEncoding, base64.RawURLEncoding, base64.StdEncoding.Strict()}

func genRawBytes(r *simrt.Rng) []byte {
	n := []int{0, 1, 2, 3, 4, 5, 30, 31, 32, 1023, 1024, 1025, 3000}[r.Intn(13)]
	extra := []int{0, 0, 8}[r.Intn(3)]
	b := make([]byte, n, n+extra)
	for i := range b {
		b[i] = byte(r.Intn(256))
	}
	return b
}

func genB64Str(enc int) func(r *simrt.Rng) string {
	return func(r *simrt.Rng) string {
		good := c18B64[enc].EncodeToString(genRawBytes(r))
		switch r.Intn(10) {
		case 0:
			return ""
		case 1:
			return c18B64[r.Intn(len(c18B64))].EncodeToString(genRawBytes(r))
		case 2:
			if len(good) > 0 {
				return good[:len(good)-1]
			}
			return "="
		case 3:
			if len(good) > 2 {
				k := r.Intn(len(good))
				return good[:k] + "!" + good[k+1:]
			}
			return "!!!!"
		case 4:
			if len(good) > 4 {
				return good[:4] + "\r\n" + good[4:]
			}
			return good + "\n"
		case 5:
			return good + "="
		case 6:
			return "Zm9=v"
		case 7:
			return "Zh=="
		default:
			return good
		}
	}
}

func init() {
	regLift("base64.Encode", []int{len(c18B64)}, func(c *liftCtx) {
		enc := c18B64[c.p[0]]
		liftMap(c, fmt.Sprintf("robase64.Encode(#%d)", c.p[0]), genItems(c, genRawBytes), robase64.Encode[[]byte](enc), enc.EncodeToString, snapBytes, snapStr)
	})
	regLift("base64.Decode", []int{len(c18B64)}, func(c *liftCtx) {
		enc := c18B64[c.p[0]]
		liftMapErr(c, fmt.Sprintf("robase64.Decode(#%d)", c.p[0]), genItems(c, genB64Str(c.p[0])), robase64.Decode[string](enc), enc.DecodeString, snapStr, snapBytes)
	})
	regLift("base64.RoundTrip", []int{len(c18B64)}, func(c *liftCtx) {
		enc := c18B64[c.p[0]]
		op := func(src ro.Observable[[]byte]) ro.Observable[[]byte] {
			return robase64.Decode[string](enc)(robase64.Encode[[]byte](enc)(src))
		}
		runLift(c, liftCase[[]byte, []byte]{name: fmt.Sprintf("robase64.Encode|Decode(#%d)", c.p[0]), items: genItems(c, genRawBytes), op: op, snapT: snapBytes, snapR: snapBytes,
			clause: "roundtrip-mismatch", ref: func(b []byte) ([]byte, bool, error) { return b, true, nil }})
	})
}

// ---------------------------------------------------------------------------------------------
// json

type c18Doc struct {
	S string         `json:"s"`
	N int            `json:"n,omitempty"`
	F float64        `json:"f"`
	B []byte         `json:"b"`
	L []string       `json:"l"`
	M map[string]int `json:"m"`
	I interface{}    `json:"i"`
}

func genDoc(nan bool) func(r *simrt.Rng) c18Doc {
	return func(r *simrt.Rng) c18Doc {
		d := c18Doc{S: genText(r), N: r.Intn(5) - 1}
		if len(d.S) > 200 && r.Bool(0.7) {
			d.S = d.S[:200]
		}
		d.F = genF64(r)
		if !nan && (math.IsNaN(d.F) || math.IsInf(d.F, 0)) {
			d.F = 1.5
		}
		if r.Bool(0.6) {
			d.B = genRawBytes(r)
			if len(d.B) > 64 {
				d.B = d.B[:64]
			}
		}
		for i, k := 0, r.Intn(4); i < k; i++ {
			d.L = append(d.L, c18Words[r.Intn(len(c18Words))])
		}
		if r.Bool(0.3) {
			d.L = []string{}
		}
		if k := r.Intn(4); k > 0 {
			d.M = map[string]int{}
			for i := 0; i < k; i++ {
				d.M[c18Words[r.Intn(len(c18Words))]] = r.Intn(1000) - 500
			}
		}
		switch r.Intn(6) {
		case 0:
			d.I = 12.5
		case 1:
			d.I = "str"
		case 2:
			d.I = []interface{}{1.0, "two", nil, true}
		case 3:
			d.I = map[string]interface{}{"a": []interface{}{1.0, map[string]interface{}{"b": nil}}, "z": "é"}
		case 4:
			d.I = false
		}
		return d
	}
}

func genJSONText(r *simrt.Rng) []byte {
	good, err := json.Marshal(genDoc(false)(r))
	if err != nil {
		panic("C18 harness bug: reference json.Marshal failed: " + err.Error())
	}
	fixed := []string{``, `null`, `nul`, `[]`, `{}`, `{"s":1}`, `{"n":1e400}`, `{"n":1.5}`, `{"b":"!!!"}`, `{"s":"\ud800"}`, `{} x`, `{"S":"case-insensitive","N":3}`,
		`{"s":"a","s":"b"}`, `{"i":{"a":[1,2,{"b":null}]}}`, "{\"s\":\"bad\xffutf8\"}", `{"l":["a",1]}`, `{"m":{"k":"v"}}`, `{"f":"1"}`, ` { "s" : "spaced" } `, `{"s":"unterminated`, `{"l":null,"m":null,"b":null}`, `"just a string"`, `{"n":9223372036854775808}`, "\xef\xbb\xbf{}"}
	var out []byte
	switch r.Intn(8) {
	case 0, 1, 2:
		out = []byte(fixed[r.Intn(len(fixed))])
	case 3:
		out = good[:r.Intn(len(good)+1)]
	case 4:
		out = append([]byte(nil), good...)
		out[r.Intn(len(out))] = byte(r.Intn(256))
	default:
		out = good
	}
	return spareBytes(string(out), r)
}

func init() {
	regLift("json.Marshal", nil, func(c *liftCtx) {
		liftMapErr(c, "rojson.Marshal", genItems(c, genDoc(true)), rojson.Marshal[c18Doc](), func(v c18Doc) ([]byte, error) { return json.Marshal(v) }, snapAny[c18Doc], snapBytes)
	})
	regLift("json.Unmarshal", nil, func(c *liftCtx) {
		liftMapErr(c, "rojson.Unmarshal", genItems(c, genJSONText), rojson.Unmarshal[c18Doc](), func(b []byte) (c18Doc, error) {
			var d c18Doc
			err := json.Unmarshal(b, &d)
			return d, err
		}, snapBytes, snapAny[c18Doc])
	})
	regLift("json.RoundTrip", nil, func(c *liftCtx) {
		op := func(src ro.Observable[c18Doc]) ro.Observable[c18Doc] {
			return rojson.Unmarshal[c18Doc]()(rojson.Marshal[c18Doc]()(src))
		}
		runLift(c, liftCase[c18Doc, c18Doc]{name: "rojson.Marshal|Unmarshal", items: genItems(c, genDoc(true)), op: op, snapT: snapAny[c18Doc], snapR: snapAny[c18Doc],
			clause: "roundtrip-mismatch", ref: func(v c18Doc) (c18Doc, bool, error) {
				// encoding/json's own round trip (the identity wherever encoding/json is lossless)
				b, err := json.Marshal(v)
				if err != nil {
					return c18Doc{}, true, err
				}
				var d c18Doc
				err = json.Unmarshal(b, &d)
				return d, true, err
			}})
	})
}

// ---------------------------------------------------------------------------------------------
// gob

type c18GobIn struct{ A, B int }

type c18Gob struct {
	S  string
	N  int
	F  float64
	B  []byte
	L  []string
	U  uint8
	In c18GobIn
}

type c18GobOther struct {
	S int
	X string
}

func genGob(r *simrt.Rng) c18Gob {
	g := c18Gob{S: genText(r), N: int(genI64(r)), F: genF64(r), U: uint8(r.Intn(256)), In: c18GobIn{r.Intn(3), -r.Intn(3)}}
	if len(g.S) > 200 {
		g.S = g.S[:200]
	}
	if r.Bool(0.6) {
		g.B = genRawBytes(r)
	}
	for i, k := 0, r.Intn(4); i < k; i++ {
		g.L = append(g.L, c18Words[r.Intn(len(c18Words))])
	}
	return g
}

func gobBytes(v interface{}) []byte {
	var buf bytes.Buffer
	if err := gob.NewEncoder(&buf).Encode(v); err != nil {
		panic("C18 harness bug: reference gob encode failed: " + err.Error())
	}
	return buf.Bytes()
}

func genGobBytes(r *simrt.Rng) []byte {
	good := gobBytes(genGob(r))
	var out []byte
	switch r.Intn(9) {
	case 0:
		out = nil
	case 1:
		out = good[:r.Intn(len(good))]
	case 2:
		out = append([]byte(nil), good...)
		out[r.Intn(len(out))] ^= byte(1 << uint(r.Intn(8)))
	case 3:
		out = gobBytes(c18GobOther{S: 3, X: "x"})
	case 4:
		out = gobBytes("a plain string")
	case 5:
		out = append(append([]byte(nil), good...), good...)
	case 6:
		out = []byte{0x03, 0xff, 0x82}
	default:
		out = good
	}
	return spareBytes(string(out), r)
}

func init() {
	regLift("gob.Encode", nil, func(c *liftCtx) {
		liftMapErr(c, "rogob.Encode", genItems(c, genGob), rogob.Encode[c18Gob](), func(v c18Gob) ([]byte, error) {
			var buf bytes.Buffer
			err := gob.NewEncoder(&buf).Encode(v)
			return buf.Bytes(), err
		}, snapAny[c18Gob], snapBytes)
	})
	regLift("gob.Decode", nil, func(c *liftCtx) {
		liftMapErr(c, "rogob.Decode", genItems(c, genGobBytes), rogob.Decode[c18Gob](), func(b []byte) (c18Gob, error) {
			var out c18Gob
			err := gob.NewDecoder(bytes.NewBuffer(b)).Decode(&out)
			return out, err
		}, snapBytes, snapAny[c18Gob])
	})
	regLift("gob.RoundTrip", nil, func(c *liftCtx) {
		op := func(src ro.Observable[c18Gob]) ro.Observable[c18Gob] {
			return rogob.Decode[c18Gob]()(rogob.Encode[c18Gob]()(src))
		}
		runLift(c, liftCase[c18Gob, c18Gob]{name: "rogob.Encode|Decode", items: genItems(c, genGob), op: op, snapT: snapAny[c18Gob], snapR: snapAny[c18Gob],
			clause: "roundtrip-mismatch", ref: func(v c18Gob) (c18Gob, bool, error) {
				var buf bytes.Buffer
				if err := gob.NewEncoder(&buf).Encode(v); err != nil {
					return c18Gob{}, true, err
				}
				var out c18Gob
				err := gob.NewDecoder(&buf).Decode(&out)
				return out, true, err
			}})
	})
}

// ---------------------------------------------------------------------------------------------
// sort

// c18KV: equal under the comparison (K) but distinguishable (ID = position in the input).
type c18KV struct{ K, ID int }

func snapKV(v c18KV) string { return fmt.Sprintf("%d#%d", v.K, v.ID) }

var c18KeyRange = []int{3, 1, 2, 5, 1000}

// runSort plays items through a sort operator and checks: the output is a permutation of the input
// (sort-not-permutation), ordered by cmp (sort-not-sorted), and - for the variant that is named
// stable - elements that compare equal keep their input order (sort-not-stable); Complete follows;
// a failing source yields its Error; items untouched; core contract.
func runSort[T comparable](c *liftCtx, name string, items []T, op func(ro.Observable[T]) ro.Observable[T], cmp func(a, b T) int, stable bool, snap func(T) string) {
	e := c.e
	before := make([]string, len(items))
	for i, it := range items {
		before[i] = snap(it)
	}
	src := newTSrc(e, items, c.end, 11)
	rec := newTRec[T](e, snap)
	h := tSubscribe(e, op(src.Obs()), rec.Observer())
	e.Settle()
	if !c18Contract(e, rec, h, name) {
		return
	}
	if len(items) > 12 {
		e.Probe("c18-sort-over-12")
	}
	term := rec.terminal()
	if c.end == 1 {
		if term == nil || term.K != 'E' || !errMatches(term.Err, ScriptError(11)) {
			e.Violate("C18", "terminal-mismatch", fmt.Sprintf("%s: the source failed with %v; got trace %s", name, ScriptError(11), rec.trace()))
		}
	} else {
		var got []T
		count := map[string]int{}
		for _, ev := range rec.nexts() {
			got = append(got, ev.V)
			count[ev.Snap]++
		}
		for _, b := range before {
			count[b]--
		}
		perm := len(got) == len(items)
		for _, k := range sortedKeys(count) {
			if count[k] != 0 {
				perm = false
			}
		}
		sorted := true
		for i := 0; i+1 < len(got); i++ {
			if cmp(got[i], got[i+1]) > 0 {
				sorted = false
			}
		}
		switch {
		case !perm:
			e.Violate("C18", "sort-not-permutation", fmt.Sprintf("%s: %d items in, %d out, and the output is not a permutation of the input; input %v, trace %s", name, len(items), len(got), c18Trunc(strings.Join(before, " "), 200), rec.trace()))
		case !sorted:
			e.Violate("C18", "sort-not-sorted", fmt.Sprintf("%s: the output is not ordered by the comparison: %s", name, c18Trunc(joinSnaps(rec), 300)))
		case stable:
			ref := append([]T(nil), items...)
			sort.SliceStable(ref, func(i, j int) bool { return cmp(ref[i], ref[j]) < 0 })
			for i := range ref {
				if snap(ref[i]) != snap(got[i]) {
					e.Violate("C18", "sort-not-stable", fmt.Sprintf("%s over %d items: position %d holds %s, the stable order has %s there (elements are key#input-position; equal keys must keep their input order); output %s",
						name, len(items), i, snap(got[i]), snap(ref[i]), c18Trunc(joinSnaps(rec), 300)))
					break
				}
			}
		}
		if term == nil || term.K != 'C' {
			e.Violate("C18", "terminal-mismatch", fmt.Sprintf("%s: the source completed; got trace %s", name, rec.trace()))
		}
	}
	for i, it := range items {
		if snap(it) != before[i] {
			e.Violate("C18", "input-modified", fmt.Sprintf("%s: item #%d changed from %s to %s", name, i, before[i], snap(it)))
			break
		}
	}
	c18Release(e, src, rec, h, name)
}

func joinSnaps[R any](rec *tRec[R]) string {
	var parts []string
	for _, ev := range rec.nexts() {
		parts = append(parts, ev.Snap)
	}
	return strings.Join(parts, " ")
}

func genKVs(c *liftCtx, keyRange int) []c18KV {
	out := make([]c18KV, c.n)
	for i := range out {
		out[i] = c18KV{K: c.rng(i).Intn(keyRange), ID: i}
	}
	return out
}

func init() {
	sortNs := []int{0, 1, 2, 5, 11, 12, 13, 14, 20, 33, 64}
	sortEnds := []int{0, 0, 0, 1}
	dir := func(c *liftCtx) int {
		if c.p[0] == 1 {
			return -1
		}
		return 1
	}
	op := regLift("sort.Sort", []int{2, len(c18KeyRange), 2}, func(c *liftCtx) {
		d := dir(c)
		if c.p[2] == 0 {
			cmp := func(a, b int) int { return d * (a - b) }
			items := genItems(c, func(r *simrt.Rng) int { return r.Intn(c18KeyRange[c.p[1]]) - 1 })
			runSort(c, "rosort.Sort[int]", items, rosort.Sort(cmp), cmp, false, snapInt)
		} else {
			cmp := func(a, b string) int { return d * strings.Compare(a, b) }
			runSort(c, "rosort.Sort[string]", genItems(c, genText), rosort.Sort(cmp), cmp, false, snapStr)
		}
	})
	op.Ns, op.Ends = sortNs, sortEnds
	op = regLift("sort.SortFunc", []int{2, len(c18KeyRange)}, func(c *liftCtx) {
		d := dir(c)
		cmp := func(a, b c18KV) int { return d * (a.K - b.K) }
		runSort(c, "rosort.SortFunc", genKVs(c, c18KeyRange[c.p[1]]), rosort.SortFunc(cmp), cmp, false, snapKV)
	})
	op.Ns, op.Ends = sortNs, sortEnds
	op = regLift("sort.SortStableFunc", []int{2, len(c18KeyRange)}, func(c *liftCtx) {
		d := dir(c)
		cmp := func(a, b c18KV) int { return d * (a.K - b.K) }
		runSort(c, "rosort.SortStableFunc", genKVs(c, c18KeyRange[c.p[1]]), rosort.SortStableFunc(cmp), cmp, true, snapKV)
	})
	op.Ns, op.Ends = sortNs, sortEnds
}

// gob assigns type ids in order of first use, process-wide: fix that order at package initialisation
// so that the seeded gob inputs are the same bytes in every process (replay determinism).
var _ = func() int {
	gobBytes(c18Gob{})
	gobBytes(c18GobOther{})
	gobBytes("")
	return 0
}()

// C12.plugin — the plugin operators whose values are used twice by their lift case (the template renderers):
// run by C18.lift's executor, a difference between the two uses is filed under C12.
func init() {
	Register(&Family{
		Name:   "C12.plugin",
		Props:  []string{"C12"},
		Weight: 1,
		Gen: func(g *Gen) *Scn {
			sc := families["C18.lift"].Gen(g)
			sc.Family = "C12.plugin"
			op := liftOps[g.Pick("template.TextTemplate", "template.HTMLTemplate")]
			sc.Sub = op.Name
			sc.Ints = map[string]int{}
			sc.SetInt("iseed", g.Intn(1<<30))
			sc.SetInt("lo", 0)
			sc.SetInt("n", op.Ns[g.Intn(len(op.Ns))])
			sc.SetInt("end", op.Ends[g.Intn(len(op.Ends))])
			for i, card := range op.P {
				sc.SetInt(fmt.Sprintf("p%d", i), g.Intn(card))
			}
			return sc
		},
		Run: func(e *Env) { families["C18.lift"].Run(e) },
	})
}
