package roverif

// C19 — Prometheus instrumentation (ee/plugins/prometheus).
//
// Two families:
//
//   C19.pipe      roprometheus.Pipe1..Pipe6 (call sites written out literally below: the plugin parses the
//                 source file of its caller) against ro.Pipe1..Pipe6 over the same stages, plus a third
//                 "probe" pipeline carrying counting ro.Tap probes at the positions where the plugin
//                 inserts its instrumentation operators.
//   C19.counters  the stand-alone IncCounterOn{Next,Error,Complete,Subscription} / ObserveNextLag operators
//                 placed inside an ordinary chain, against counting ro.Tap probes at the same positions.
//
// Every pipeline gets its own scripted source built from the same SrcSpec and its own recorders; the
// oracles only use quantities that do not depend on the interleaving of independent subscriptions
// (per-subscription traces of a cold source through synchronous per-subscription operators, and sums).

import (
	"context"
	"errors"
	"fmt"
	"sort"
	"strings"

	"github.com/prometheus/client_golang/prometheus"
	dto "github.com/prometheus/client_model/go"
	"github.com/samber/ro"
	roprometheus "github.com/samber/ro/ee/plugins/prometheus"
)

type c19Key struct{}

type c19Stamp struct{}

type c19SrcKey struct{}

// c19Obs is the observable a pipeline is built over: the scripted source followed by a marker that only
// the notifications (not the subscriber's context as seen by the chain) carry, so that an instrumentation
// operator that rebuilds a notification context from the subscription context is noticed.
func c19Obs(s *Src) ro.Observable[int] {
	return ro.ContextWithValue[int](c19SrcKey{}, "src")(s.Obs())
}

type c19Op = func(ro.Observable[int]) ro.Observable[int]

// Stages admitted in C19 chains: synchronous, single-source, state kept per subscription (checked by
// reading the operators: only MergeMapI, Share and OnErrorResumeNextWith hoist state out of the
// subscription closure), no goroutine, no timer, nothing that waits inside Subscribe.
var c19StageNames = []string{
	"Map", "MapI", "MapWithContext", "MapIWithContext", "MapTo", "MapErr", "Scan", "ScanI", "Cast",
	"BufferWithCount", "BufferWithCountSum", "Pairwise",
	"Filter", "FilterI", "Distinct", "DistinctBy", "IgnoreElements", "Skip", "SkipWhile", "SkipLast",
	"Take", "TakeWhile", "TakeLast", "Head", "Tail", "First", "Last", "ElementAt", "ElementAtOrDefault",
	"All", "Contains", "Find", "DefaultIfEmpty", "Count", "Sum", "Min", "Max", "Reduce", "Clamp",
	"Catch", "OnErrorReturn", "ThrowIfEmpty",
	"Tap", "TapOnNext", "TapOnError", "TapOnComplete", "TapOnSubscribe", "TapOnFinalize", "Defer", "Serialize",
	"MaterializeDematerialize", "ContextWithValue", "ContextMap", "StartWith", "EndWith", "ToSliceFlatten",
}

func c19Allowed(name string) bool {
	d := catalog[name]
	if d == nil || d.Aux != 0 || d.Async || d.Time || d.Multi || d.Resub || d.Handoff || d.Waits || d.Hot {
		return false
	}
	for _, n := range c19StageNames {
		if n == name {
			return true
		}
	}
	return false
}

func c19Stages() []string {
	var out []string
	for _, n := range c19StageNames {
		if c19Allowed(n) {
			out = append(out, n)
		}
	}
	if len(out) == 0 {
		panic("C19: no admissible catalogue stage")
	}
	return out
}

// c19Script draws a short script over a small alphabet (duplicates on purpose: Distinct, Scan, TakeWhile…).
func c19Script(g *Gen, timed bool) []Step {
	n := g.PickInt(0, 1, 2, 3, 3, 4, 5)
	var sc []Step
	for i := 0; i < n; i++ {
		sc = append(sc, Step{K: "N", V: g.Intn(5)})
	}
	switch g.Pick("C", "C", "E", "-") {
	case "C":
		sc = append(sc, Step{K: "C"})
	case "E":
		sc = append(sc, Step{K: "E", V: g.Intn(5)})
	}
	if timed {
		for i := range sc {
			sc[i].Gap = g.PickInt(1, 1, 2)
		}
	}
	return sc
}

// c19Source draws the source: "sync" plays inside Subscribe; "timed" plays from a producer actor with at
// least one unit of simulated time before every step, so that every Subscribe call has finished wiring
// the chain (the clock only moves at quiescence) before the first notification. A producer that starts
// emitting while the chain is still being wired ("async") makes the number of values that get past an
// early-terminating operator depend on the schedule: the plain, probe and instrumented pipelines are
// separate objects with separate producers, so their counts could not be compared soundly.
func c19Source(g *Gen) SrcSpec {
	mode := g.Pick("sync", "sync", "timed")
	return SrcSpec{Mode: mode, Ctor: g.Pick("", "", "safe"), Script: c19Script(g, mode == "timed")}
}

func c19SourceOK(sp SrcSpec) bool {
	switch sp.Mode {
	case "sync":
		return true
	case "timed":
		for _, st := range sp.Script {
			if st.Gap < 1 {
				return false
			}
		}
		return true
	}
	return false // e.g. the generic shrinker's timed -> async candidate
}

func c19GenCommon(g *Gen, sc *Scn) {
	conc := g.Bool(0.4)
	if conc {
		sc.SetInt("subs", g.Range(2, 3))
	} else {
		sc.SetInt("subs", g.Range(1, 3))
	}
	sc.SetInt("conc", b2i(conc))
	sc.SetInt("licence", b2i(g.Bool(0.75)))
	sc.SetInt("late", b2i(g.Bool(0.25)))
	sc.SetInt("unsub", b2i(g.Bool(0.35)))
	if !conc && sc.Int("subs", 1) >= 2 && g.Bool(0.4) {
		sc.SetInt("toggle", 1)
		sc.SetInt("late", 0)
	}
}

const (
	c19PromNext         = "prom.Next"
	c19PromError        = "prom.Error"
	c19PromComplete     = "prom.Complete"
	c19PromSubscription = "prom.Subscription"
	c19PromLag          = "prom.Lag"
)

var c19PromKinds = []string{c19PromNext, c19PromError, c19PromComplete, c19PromSubscription, c19PromLag}

func init() {
	Register(&Family{
		Name:   "C19.pipe",
		Props:  []string{"C19"},
		Weight: 3,
		Gen: func(g *Gen) *Scn {
			sc := &Scn{Family: "C19.pipe"}
			sc.Sources = []SrcSpec{c19Source(g)}
			script := sc.Sources[0].Script
			arity := g.PickInt(1, 1, 2, 2, 2, 3, 3, 4, 4, 5, 6)
			if g.Bool(0.3) {
				arity = g.Range(7, c19MaxArity) // every arity is a separate hand-written function in the plugin
			}
			names := c19Stages()
			for i := 0; i < arity; i++ {
				addStage(g, sc, names[g.Intn(len(names))], nvalues(script), "")
			}
			c19GenCommon(g, sc)
			return sc
		},
		Run: runC19Pipe,
	})

	Register(&Family{
		Name:   "C19.counters",
		Props:  []string{"C19"},
		Weight: 2,
		Gen: func(g *Gen) *Scn {
			sc := &Scn{Family: "C19.counters"}
			sc.Sources = []SrcSpec{c19Source(g)}
			script := sc.Sources[0].Script
			names := c19Stages()
			nst := g.Range(0, 3)
			for i := 0; i < nst; i++ {
				addStage(g, sc, names[g.Intn(len(names))], nvalues(script), "")
			}
			nprom := g.Range(1, 3)
			for i := 0; i < nprom; i++ {
				st := StageSpec{Op: c19PromKinds[g.Intn(len(c19PromKinds))]}
				if st.Op == c19PromLag {
					st.P = []int{g.Intn(2)} // 0: histogram, 1: summary
				}
				at := g.Intn(len(sc.Stages) + 1)
				sc.Stages = append(sc.Stages[:at], append([]StageSpec{st}, sc.Stages[at:]...)...)
			}
			c19GenCommon(g, sc)
			return sc
		},
		Run: runC19Counters,
	})
}

// ---------------------------------------------------------------------------------------------
// shared machinery

// c19Pipe is one of the pipelines of a run with its own source and per-subscription recorders.
type c19Pipe struct {
	name string
	src  *Src
	obs  ro.Observable[int]
	recs []*Rec
	hs   []*SubHandle
	// onRec, when set, prepares each recorder before it subscribes
	onRec func(r *Rec)
}

func c19BuildOps(e *Env, stages []StageSpec) []c19Op {
	ops := make([]c19Op, len(stages))
	for i, st := range stages {
		d := catalog[st.Op]
		if d == nil {
			panic("C19: unknown stage " + st.Op)
		}
		ops[i] = d.Build(e, nil, st.P)
	}
	return ops
}

func c19Marks(ctx context.Context) string {
	if ctx == nil {
		return "nil-ctx"
	}
	return fmt.Sprintf("sub=%v/src=%v/mid=%v", ctx.Value(c19Key{}), ctx.Value(c19SrcKey{}), ctx.Value(ctxKey("mid")))
}

func c19SameEv(a, b Ev) bool {
	if a.K != b.K {
		return false
	}
	switch a.K {
	case 'N':
		return a.V == b.V
	case 'E':
		if a.Err == nil || b.Err == nil {
			return a.Err == nil && b.Err == nil
		}
		return errors.Is(b.Err, a.Err) || errors.Is(a.Err, b.Err) || a.Err.Error() == b.Err.Error()
	}
	return true
}

func c19SameTrace(a, b *Rec) bool {
	if len(a.Events) != len(b.Events) {
		return false
	}
	for i := range a.Events {
		if !c19SameEv(a.Events[i], b.Events[i]) {
			return false
		}
	}
	return true
}

func c19CtxTrace(r *Rec) string {
	parts := make([]string, len(r.Events))
	for i, ev := range r.Events {
		parts[i] = ev.String() + "{" + c19Marks(ev.Ctx) + "}"
	}
	return strings.Join(parts, " ")
}

func c19SrcCtxs(s *Src) string {
	parts := make([]string, len(s.Ctxs))
	for i, c := range s.Ctxs {
		parts[i] = c19Marks(c)
	}
	return strings.Join(parts, " ")
}

func c19Traces(p *c19Pipe) string {
	parts := make([]string, len(p.recs))
	for i, r := range p.recs {
		parts[i] = fmt.Sprintf("#%d[%s]", i, r.Trace())
	}
	return p.name + ":" + strings.Join(parts, "")
}

// c19Drive subscribes every pipeline `subs` times (sequentially or concurrently), runs to quiescence and
// optionally unsubscribes everything. It returns false when the step cap was hit (no judgement then).
func c19Drive(e *Env, pipes []*c19Pipe, between ...func(i int)) bool {
	sc := e.Sc
	subs := sc.Int("subs", 1)
	if subs < 1 {
		subs = 1
	}
	if subs > 3 {
		subs = 3
	}
	conc := sc.Int("conc", 0) == 1
	ctx := context.WithValue(context.Background(), c19Key{}, "sub")
	for i := 0; i < subs; i++ {
		for _, p := range pipes {
			rec := e.NewRec(fmt.Sprintf("%s%d", p.name, i))
			if p.onRec != nil {
				p.onRec(rec)
			}
			p.recs = append(p.recs, rec)
			p.hs = append(p.hs, e.Subscribe(p.obs, rec.Observer(), ctx))
		}
		if !conc {
			e.SettleFor(dur(20)) // longer than any script: subscription i is over before i+1 starts
			if e.K.Capped() {
				return false
			}
			for _, f := range between {
				f(i)
			}
		}
	}
	e.SettleFor(dur(30))
	if e.K.Capped() {
		return false
	}
	if sc.Int("unsub", 0) == 1 {
		for _, p := range pipes {
			for _, h := range p.hs {
				if h.Returned && h.S != nil {
					s := h.S
					e.Go("unsubscriber", func() { s.Unsubscribe() })
				}
			}
		}
		e.SettleFor(dur(5))
		if e.K.Capped() {
			return false
		}
	}
	return true
}

// c19Transparency: the subscribers of `instr` observed what the subscribers of `plain` observed.
// It returns whether every trace was identical (the counter expectations are derived from the plain and
// probe runs: they only make sense when the instrumented run did the same thing).
func c19Transparency(e *Env, plain, instr *c19Pipe, licence bool, nilCtxInChain bool) bool {
	tag := fmt.Sprintf("licence=%v ", licence)
	same := true
	for i := range plain.recs {
		pr, ir := plain.recs[i], instr.recs[i]
		if !c19SameTrace(pr, ir) {
			same = false
			clause := "trace-differs"
			// one root cause is reported under its own clause: an operator of the chain emits a value with a
			// nil context (ro.Max over an empty source does); the plugin's per-operator observer calls
			// ctx.Value on it and panics, so the instrumented pipeline errors (or goes silent when the next
			// operator panics on the nil context too) where the plain one carries on
			if nilCtxInChain {
				clause = "nil-context-value-in-chain"
			}
			e.Violate("C19", clause, fmt.Sprintf("%ssubscription #%d: plain pipeline delivered [%s], instrumented pipeline delivered [%s]", tag, i, c19CtxTrace(pr), c19CtxTrace(ir)))
			continue
		}
		if pc, ic := c19CtxTrace(pr), c19CtxTrace(ir); pc != ic {
			e.Violate("C19", "ctx-differs", fmt.Sprintf("%ssubscription #%d: context values seen by the subscriber differ: plain [%s], instrumented [%s]", tag, i, pc, ic))
		}
		ph, ih := plain.hs[i], instr.hs[i]
		if ph.Returned != ih.Returned || (ph.Panic == nil) != (ih.Panic == nil) {
			e.Violate("C19", "subscribe-return-differs", fmt.Sprintf("%ssubscription #%d: plain Subscribe returned=%v panic=%v, instrumented Subscribe returned=%v panic=%v (traces %s %s)", tag, i, ph.Returned, ph.Panic, ih.Returned, ih.Panic, c19Traces(plain), c19Traces(instr)))
		}
	}
	ps, is := plain.src, instr.src
	if ps.Subs != is.Subs || ps.Teardowns != is.Teardowns || ps.Live != is.Live {
		e.Violate("C19", "source-release-differs", fmt.Sprintf("%ssource of the plain pipeline: subscribed %d, released %d, live %d; source of the instrumented pipeline: subscribed %d, released %d, live %d (traces %s %s)", tag, ps.Subs, ps.Teardowns, ps.Live, is.Subs, is.Teardowns, is.Live, c19Traces(plain), c19Traces(instr)))
	}
	if pc, ic := c19SrcCtxs(ps), c19SrcCtxs(is); pc != ic {
		e.Violate("C19", "source-ctx-differs", fmt.Sprintf("%scontext values handed to the source on subscription differ: plain [%s], instrumented [%s]", tag, pc, ic))
	}
	return same
}

// c19Gathered is the flattened content of a registry: counter values and summary/histogram sample counts
// keyed by metric family name (+ "#<operator_index>" when that label is present).
type c19Gathered struct {
	val map[string]float64
}

func c19Gather(reg *prometheus.Registry) (*c19Gathered, error) {
	mfs, err := reg.Gather()
	if err != nil {
		return nil, err
	}
	out := &c19Gathered{val: map[string]float64{}}
	for _, mf := range mfs {
		for _, m := range mf.GetMetric() {
			key := mf.GetName()
			for _, lp := range m.GetLabel() {
				if lp.GetName() == "operator_index" {
					key += "#" + lp.GetValue()
				}
			}
			var v float64
			switch mf.GetType() {
			case dto.MetricType_COUNTER:
				v = m.GetCounter().GetValue()
			case dto.MetricType_SUMMARY:
				v = float64(m.GetSummary().GetSampleCount())
			case dto.MetricType_HISTOGRAM:
				v = float64(m.GetHistogram().GetSampleCount())
			default:
				panic("C19: unexpected metric type " + mf.GetType().String())
			}
			out.val[key] += v
		}
	}
	return out, nil
}

func (g *c19Gathered) keys() []string {
	ks := make([]string, 0, len(g.val))
	for k := range g.val {
		ks = append(ks, k)
	}
	sort.Strings(ks)
	return ks
}

func (g *c19Gathered) dump() string {
	ks := g.keys()
	parts := make([]string, len(ks))
	for i, k := range ks {
		parts[i] = fmt.Sprintf("%s=%v", k, g.val[k])
	}
	return "{" + strings.Join(parts, " ") + "}"
}

// ---------------------------------------------------------------------------------------------
// C19.pipe

const c19Prefix = "verif_c19_"

func runC19Pipe(e *Env) {
	sc := e.Sc
	n := len(sc.Stages)
	if n < 1 || n > c19MaxArity || len(sc.Sources) < 1 || !c19SourceOK(sc.Sources[0]) {
		return // not a scenario of this family (shrinking candidate)
	}
	for _, st := range sc.Stages {
		if catalog[st.Op] == nil {
			panic("C19: unknown stage " + st.Op)
		}
		if !c19Allowed(st.Op) {
			return
		}
	}
	licence := sc.Int("licence", 1) == 1
	// "late": the pipeline is built while the licence is inactive and the licence becomes active before
	// the first Subscribe (the licence is to be checked at subscription time)
	late := licence && sc.Int("late", 0) == 1
	roprometheus.VerifSetLicenseBypass(licence && !late)
	defer roprometheus.VerifSetLicenseBypass(false)

	spec := sc.Sources[0]

	// 1. plain pipeline
	plain := &c19Pipe{name: "plain", src: e.NewSrc(spec)}
	{
		src, ops := c19Obs(plain.src), c19BuildOps(e, sc.Stages)
		switch n {
		case 1:
			plain.obs = ro.Pipe1(src, ops[0])
		case 2:
			plain.obs = ro.Pipe2(src, ops[0], ops[1])
		case 3:
			plain.obs = ro.Pipe3(src, ops[0], ops[1], ops[2])
		case 4:
			plain.obs = ro.Pipe4(src, ops[0], ops[1], ops[2], ops[3])
		case 5:
			plain.obs = ro.Pipe5(src, ops[0], ops[1], ops[2], ops[3], ops[4])
		case 6:
			plain.obs = ro.Pipe6(src, ops[0], ops[1], ops[2], ops[3], ops[4], ops[5])
		default:
			plain.obs = c19PlainPipeN(n, src, ops)
		}
	}

	// 2. probe pipeline: counting taps where the plugin puts its own operators
	//    cnt[0] = values entering the chain, cnt[k+1] = values leaving stage k
	probe := &c19Pipe{name: "probe", src: e.NewSrc(spec)}
	cnt := make([]int, n+1)
	// stamped[k]: those of cnt[k] whose context descends from the context of a value seen at an earlier
	// probe (the only values whose processing time the plugin's design can measure: it threads a
	// checkpoint through the context of Next notifications)
	stamped := make([]int, n+1)
	nilCtx := 0 // values that travel inside the chain with a nil context
	{
		tap := func(k int) c19Op {
			return ro.MapWithContext(func(ctx context.Context, v int) (context.Context, int) {
				cnt[k]++
				if ctx == nil {
					nilCtx++
					return ctx, v
				}
				if ctx.Value(c19Stamp{}) != nil {
					stamped[k]++
				}
				return context.WithValue(ctx, c19Stamp{}, true), v
			})
		}
		ops := c19BuildOps(e, sc.Stages)
		cur := tap(0)(c19Obs(probe.src))
		for k := range ops {
			cur = tap(k + 1)(ops[k](cur))
		}
		probe.obs = cur
	}

	// 3. instrumented pipeline. The call sites are literal and each sits alone on its line: the plugin
	//    locates the call expression in this very file through runtime.Caller.
	instr := &c19Pipe{name: "instr", src: e.NewSrc(spec)}
	var collector prometheus.Collector
	{
		cfg := roprometheus.CollectorConfig{Namespace: "verif", Subsystem: "c19"}
		src, ops := c19Obs(instr.src), c19BuildOps(e, sc.Stages)
		switch n {
		case 1:
			instr.obs, collector = roprometheus.Pipe1(cfg, src, ops[0])
		case 2:
			instr.obs, collector = roprometheus.Pipe2(cfg, src, ops[0], ops[1])
		case 3:
			instr.obs, collector = roprometheus.Pipe3(cfg, src, ops[0], ops[1], ops[2])
		case 4:
			instr.obs, collector = roprometheus.Pipe4(cfg, src, ops[0], ops[1], ops[2], ops[3])
		case 5:
			instr.obs, collector = roprometheus.Pipe5(cfg, src, ops[0], ops[1], ops[2], ops[3], ops[4])
		case 6:
			instr.obs, collector = roprometheus.Pipe6(cfg, src, ops[0], ops[1], ops[2], ops[3], ops[4], ops[5])
		default:
			instr.obs, collector = c19InstrPipeN(n, cfg, src, ops)
		}
	}
	if collector == nil {
		// the plugin could not read /verif/harness/c19.go: environment trouble, not a property violation
		panic("C19: roprometheus.PipeN returned no collector (caller introspection failed: is the harness source file readable at its build-time path?)")
	}
	reg := prometheus.NewRegistry()
	if err := reg.Register(collector); err != nil {
		e.Violate("C19", "register-failed", fmt.Sprintf("licence=%v: a fresh registry refuses the collector returned by Pipe%d: %v", licence, n, err))
		return
	}

	if late {
		roprometheus.VerifSetLicenseBypass(true)
		e.Probe("licence-activated-after-construction")
	}
	pipes := []*c19Pipe{plain, probe, instr}
	// "toggle": the licence state flips between the first and the second (sequential) subscription of the
	// same pipeline: the licence is consulted at each subscription, so exactly the subscriptions made
	// while it was active are counted
	toggled := sc.Int("toggle", 0) == 1 && sc.Int("conc", 0) == 0 && sc.Int("subs", 1) >= 2
	var snapCnt, snapStamped []int
	if !c19Drive(e, pipes, func(i int) {
		if toggled && i == 0 {
			snapCnt, snapStamped = append([]int(nil), cnt...), append([]int(nil), stamped...)
			roprometheus.VerifSetLicenseBypass(!licence)
			e.Probe("licence-toggled-between-subscriptions")
		}
	}) {
		return
	}
	e.Probe(fmt.Sprintf("arity%d", n))

	// oracle 1: transparency
	sameTraces := c19Transparency(e, plain, instr, licence, nilCtx > 0)

	// the probe pipeline must itself be faithful for its counts to mean anything
	probeOK := true
	sumOut := 0
	for i := range plain.recs {
		if !c19SameTrace(plain.recs[i], probe.recs[i]) {
			probeOK = false
		}
		sumOut += len(plain.recs[i].Values())
	}
	if probeOK && cnt[n] != sumOut {
		panic(fmt.Sprintf("C19: probe after the last stage counted %d values but the plain recorders saw %d", cnt[n], sumOut))
	}
	if !probeOK {
		e.Probe("probe-pipeline-diverged")
		e.Note("C19: ro.Tap probes changed the trace: " + c19Traces(plain) + " vs " + c19Traces(probe))
	}

	if toggled {
		// the export itself is read with the licence active ("when it is active the exported counters equal ...")
		roprometheus.VerifSetLicenseBypass(true)
	}
	got, err := c19Gather(reg)
	if err != nil {
		e.Violate("C19", "gather-failed", fmt.Sprintf("licence=%v: Registry.Gather failed on the collector of Pipe%d: %v", licence, n, err))
		return
	}
	ctxInfo := fmt.Sprintf("subscriptions=%d concurrent=%v; probe counts in=%d per-stage-out=%v (with a context descending from a source value: %v); %s; %s; gathered %s", len(instr.hs), sc.Int("conc", 0) == 1, cnt[0], cnt[1:], stamped[1:], c19Traces(plain), c19Traces(instr), got.dump())

	// what happened while the licence was active
	cntOn, stampedOn, subsOn := cnt, stamped, len(instr.hs)
	if toggled {
		if licence {
			cntOn, stampedOn, subsOn = snapCnt, snapStamped, 1
		} else {
			cntOn, stampedOn = make([]int, len(cnt)), make([]int, len(stamped))
			for i := range cnt {
				cntOn[i], stampedOn[i] = cnt[i]-snapCnt[i], stamped[i]-snapStamped[i]
			}
			subsOn = len(instr.hs) - 1
		}
		ctxInfo = fmt.Sprintf("licence %v during subscription #1, %v afterwards; expected in=%d per-stage-out=%v over %d licensed subscription(s); ", licence, !licence, cntOn[0], cntOn[1:], subsOn) + ctxInfo
	}
	if !licence && !toggled {
		// oracle 3: nothing is counted without a licence
		for _, k := range got.keys() {
			if v := got.val[k]; v != 0 {
				e.Violate("C19", "licence-off-counters", fmt.Sprintf("licence off but %s = %v; %s", k, v, ctxInfo))
				break
			}
		}
		e.Probe("licence-off")
		return
	}
	e.Probe("licence-on")
	if !probeOK || !sameTraces {
		return
	}

	// oracle 2: exported counters equal what happened
	want := func(clause, key string, exp int, what string) {
		if v := got.val[key]; v != float64(exp) {
			e.Violate("C19", clause, fmt.Sprintf("%s = %v, expected %d (%s); %s", key, v, exp, what, ctxInfo))
		}
	}
	want("subscriptions-total", c19Prefix+"ro_subscriptions_total", subsOn, "one per Subscribe call made while the licence was active")
	want("notification-in", c19Prefix+"ro_notification_in_total", cntOn[0], "values emitted by the source into the chain")
	want("notification-out", c19Prefix+"ro_notification_out_total", cntOn[n], "values emitted by the chain")
	want("lag-count", c19Prefix+"ro_notification_lag_seconds", cntOn[0], "one lag observation per source value")
	for k := 0; k < n; k++ {
		key := fmt.Sprintf("%sro_operator_processing_time_seconds_total#%d", c19Prefix, k)
		clause := "proc-time-count"
		what := fmt.Sprintf("one observation per value leaving operator %d (%s)", k, sc.Stages[k].Op)
		if v := got.val[key]; v != float64(cntOn[k+1]) && v == float64(stampedOn[k+1]) {
			// exactly the values whose context does not descend from a source value are missing
			// (emitted on subscription / completion / error, or with a fresh context)
			clause = "proc-time-missing-for-fresh-context"
			what += fmt.Sprintf("; only the %d value(s) whose context descends from a source value were observed", stampedOn[k+1])
		}
		want(clause, key, cntOn[k+1], what)
	}
	if cnt[0] > 0 {
		e.Probe("values-in")
	}
}

// ---------------------------------------------------------------------------------------------
// C19.counters

func c19IsProm(op string) bool { return strings.HasPrefix(op, "prom.") }

func runC19Counters(e *Env) {
	sc := e.Sc
	if len(sc.Sources) < 1 || len(sc.Stages) > 8 || !c19SourceOK(sc.Sources[0]) {
		return
	}
	nprom := 0
	for _, st := range sc.Stages {
		if c19IsProm(st.Op) {
			known := false
			for _, k := range c19PromKinds {
				known = known || k == st.Op
			}
			if !known {
				panic("C19: unknown stand-alone operator " + st.Op)
			}
			nprom++
			continue
		}
		if catalog[st.Op] == nil {
			panic("C19: unknown stage " + st.Op)
		}
		if !c19Allowed(st.Op) {
			return
		}
	}
	if nprom == 0 {
		return // shrinking candidate without any instrumentation operator
	}
	licence := sc.Int("licence", 1) == 1
	// the stand-alone operators read the licence when they are applied to their source
	roprometheus.VerifSetLicenseBypass(licence)
	defer roprometheus.VerifSetLicenseBypass(false)

	spec := sc.Sources[0]
	noN, noE, noC := func(int) {}, func(error) {}, func() {}

	cnt := make([]int, len(sc.Stages))
	reg := prometheus.NewRegistry()
	keys := make([]string, len(sc.Stages))

	build := func(kind string) *c19Pipe {
		p := &c19Pipe{name: kind, src: e.NewSrc(spec)}
		cur := c19Obs(p.src)
		for i, st := range sc.Stages {
			i := i
			if !c19IsProm(st.Op) {
				cur = catalog[st.Op].Build(e, nil, st.P)(cur)
				continue
			}
			switch kind {
			case "plain":
				// nothing at this position
			case "probe":
				inc := func() { cnt[i]++ }
				switch st.Op {
				case c19PromNext, c19PromLag:
					cur = ro.Tap(func(int) { inc() }, noE, noC)(cur)
				case c19PromError:
					cur = ro.Tap(noN, func(error) { inc() }, noC)(cur)
				case c19PromComplete:
					cur = ro.Tap(noN, noE, func() { inc() })(cur)
				case c19PromSubscription:
					cur = ro.TapOnSubscribe[int](func() { inc() })(cur)
				}
			case "instr":
				name := fmt.Sprintf("%ssa%d_%s", c19Prefix, i, strings.ToLower(strings.TrimPrefix(st.Op, "prom.")))
				keys[i] = name
				if st.Op == c19PromLag {
					var o prometheus.Observer
					var c prometheus.Collector
					if pi(st.P, 0, 0) == 1 {
						s := prometheus.NewSummary(prometheus.SummaryOpts{Name: name, Help: "C19 stand-alone lag summary"})
						o, c = s, s
					} else {
						h := prometheus.NewHistogram(prometheus.HistogramOpts{Name: name, Help: "C19 stand-alone lag histogram"})
						o, c = h, h
					}
					reg.MustRegister(c)
					cur = roprometheus.ObserveNextLag[int](o)(cur)
					continue
				}
				c := prometheus.NewCounter(prometheus.CounterOpts{Name: name, Help: "C19 stand-alone counter"})
				reg.MustRegister(c)
				switch st.Op {
				case c19PromNext:
					cur = roprometheus.IncCounterOnNext[int](c)(cur)
				case c19PromError:
					cur = roprometheus.IncCounterOnError[int](c)(cur)
				case c19PromComplete:
					cur = roprometheus.IncCounterOnComplete[int](c)(cur)
				case c19PromSubscription:
					cur = roprometheus.IncCounterOnSubscription[int](c)(cur)
				}
			}
		}
		p.obs = cur
		return p
	}
	plain, probe, instr := build("plain"), build("probe"), build("instr")

	// The counters are exact at every moment a subscriber can look at them: a stand-alone operator at the
	// tail of the chain (nothing but other stand-alone operators after it) has counted an event by the time
	// the subscriber is told about it. Read from inside the subscriber's callbacks.
	tail := len(sc.Stages)
	for tail > 0 && c19IsProm(sc.Stages[tail-1].Op) {
		tail--
	}
	if licence && tail < len(sc.Stages) {
		delivered := map[byte]int{}
		look := func(k byte) {
			delivered[k]++
			got, err := c19Gather(reg)
			if err != nil {
				panic(fmt.Sprintf("C19: gathering the harness's own counters failed: %v", err))
			}
			for i := tail; i < len(sc.Stages); i++ {
				var want byte
				switch sc.Stages[i].Op {
				case c19PromNext:
					want = 'N'
				case c19PromError:
					want = 'E'
				case c19PromComplete:
					want = 'C'
				}
				// (the lag operator measures the time the downstream takes: it observes afterwards)
				if want != k {
					continue
				}
				if v := got.val[keys[i]]; v < float64(delivered[k]) {
					e.Violate("C19", "standalone-behind-delivery", fmt.Sprintf("%s at position %d (tail of the chain): while the subscriber is being told about its %s event number %d, %s = %v: the exported counter does not contain that event yet", sc.Stages[i].Op, i, string(k), delivered[k], keys[i], v))
				}
			}
		}
		instr.onRec = func(r *Rec) {
			r.OnNextHook = func(*Rec, int) { look('N') }
			r.OnTermHook = func(_ *Rec, k byte) { look(k) }
		}
	}

	if !c19Drive(e, []*c19Pipe{plain, probe, instr}) {
		return
	}

	sameTraces := c19Transparency(e, plain, instr, licence, false)

	probeOK := true
	for i := range plain.recs {
		if !c19SameTrace(plain.recs[i], probe.recs[i]) {
			probeOK = false
		}
	}
	if !probeOK {
		e.Probe("probe-pipeline-diverged")
		e.Note("C19: ro.Tap probes changed the trace: " + c19Traces(plain) + " vs " + c19Traces(probe))
	}

	got, err := c19Gather(reg)
	if err != nil {
		panic(fmt.Sprintf("C19: gathering the harness's own counters failed: %v", err))
	}
	var exp []string
	for i, st := range sc.Stages {
		if c19IsProm(st.Op) {
			exp = append(exp, fmt.Sprintf("%d:%s=%d", i, st.Op, cnt[i]))
		}
	}
	ctxInfo := fmt.Sprintf("subscriptions=%d concurrent=%v; probe counts [%s]; %s; %s; gathered %s", len(instr.hs), sc.Int("conc", 0) == 1, strings.Join(exp, " "), c19Traces(plain), c19Traces(instr), got.dump())

	if !licence {
		for _, k := range got.keys() {
			if v := got.val[k]; v != 0 {
				e.Violate("C19", "licence-off-counters", fmt.Sprintf("licence off but %s = %v; %s", k, v, ctxInfo))
				break
			}
		}
		e.Probe("licence-off")
		return
	}
	e.Probe("licence-on")
	if !probeOK || !sameTraces {
		return
	}
	for i, st := range sc.Stages {
		if !c19IsProm(st.Op) {
			continue
		}
		clause := "standalone-" + strings.ToLower(strings.TrimPrefix(st.Op, "prom."))
		if v := got.val[keys[i]]; v != float64(cnt[i]) {
			e.Violate("C19", clause, fmt.Sprintf("%s at position %d: %s = %v, expected %d events at that position; %s", st.Op, i, keys[i], v, cnt[i], ctxInfo))
		}
		if cnt[i] > 0 {
			e.Probe("counted-" + strings.TrimPrefix(st.Op, "prom."))
		}
	}
}
