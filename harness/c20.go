package roverif

import (
	"context"

	"errors"
	"fmt"
	"rosim/simcontext"
	"strconv"
	"strings"
	"time"

	"github.com/samber/ro"
	rlnative "github.com/samber/ro/plugins/ratelimit/native"
	rlulule "github.com/samber/ro/plugins/ratelimit/ulule"
	"github.com/ulule/limiter/v3"
	"github.com/ulule/limiter/v3/drivers/store/memory"
)

// C20 — rate limiters.
//
// Scenario encoding (both families):
//   Sources[0]   the timeline: N steps (value v, key = v % 10, Gap in Units before the step) and an
//                optional terminal as the last step (C, E with code, or nothing).
//   Ints[quota]  items of one key allowed per window (1..3)
//   Ints[w]      window length in Units (2, 3 or 5)
//   Ints[solo]   0 = no differential; k+1 = also run the timeline restricted to key k (absolute emission
//                instants kept) through a second, separate limiter in the same run and compare.
// Stall faults are never requested (Ints["stall"] is never set): every oracle below reads delivery instants.

func c20Key(v int) int { return ((v % 10) + 10) % 10 }

func c20KeyGetter(v int) string { return strconv.Itoa(c20Key(v)) }

func init() {
	Register(&Family{Name: "C20.native", Props: []string{"C20"}, Weight: 3, MaxSteps: 80000, Gen: genC20("C20.native"), Run: runC20})
	Register(&Family{Name: "C20.ulule", Props: []string{"C20"}, Weight: 2, MaxSteps: 80000, Gen: genC20("C20.ulule"), Run: runC20})
}

func genC20(family string) func(g *Gen) *Scn {
	return func(g *Gen) *Scn {
		sc := &Scn{Family: family}
		quota := g.Range(1, 3)
		if family == "C20.native" && g.Bool(0.1) {
			quota = 0 // nothing passes; the stream still ends when (and how) the source ends
		}
		w := g.PickInt(2, 3, 5)
		nkeys := g.Range(1, 3)
		n := g.Range(3, 12)
		sc.SetInt("quota", quota)
		sc.SetInt("w", w)

		pattern := g.Pick("burst", "burst0", "steady", "sparse", "mixed", "mixed")
		steady := g.Range(1, w)
		hot := -1 // skewed key distribution: one key gets most of the traffic
		if nkeys > 1 && g.Bool(0.4) {
			hot = g.Intn(nkeys)
		}
		var script []Step
		present := map[int]bool{}
		allZero := true
		for i := 0; i < n; i++ {
			key := g.Intn(nkeys)
			if hot >= 0 && g.Bool(0.6) {
				key = hot
			}
			present[key] = true
			gap := 0
			switch pattern {
			case "burst":
				if !g.Bool(0.75) {
					gap = g.Range(1, 2*w+1)
				}
			case "burst0":
				gap = 0
			case "steady":
				gap = steady
			case "sparse":
				gap = g.Range(w+1, 2*w+2)
			default:
				gap = g.PickInt(0, 0, 1, 1, 2, w-1, w, w+1, 2*w)
			}
			if gap > 0 {
				allZero = false
			}
			script = append(script, Step{K: "N", V: 10*(i+1) + key, Gap: gap})
		}
		endGap := g.PickInt(0, 0, 1, w, w+1)
		if allZero && g.Bool(0.7) {
			endGap = 0
		}
		switch g.Pick("C", "C", "E", "-") {
		case "C":
			script = append(script, Step{K: "C", Gap: endGap})
		case "E":
			script = append(script, Step{K: "E", V: g.Range(1, 9), Gap: endGap})
		}
		mode := "timed"
		if allZero && (len(script) == n || script[n].Gap == 0) {
			mode = g.Pick("sync", "sync", "async", "timed")
		}
		sc.Sources = []SrcSpec{{Mode: mode, Script: script}}

		// differential on one of the keys that occur, mostly when there is somebody else to be independent of
		var keys []int
		for k := 0; k < nkeys; k++ {
			if present[k] {
				keys = append(keys, k)
			}
		}
		if len(keys) > 1 && g.Bool(0.85) {
			sc.SetInt("solo", keys[g.Intn(len(keys))]+1)
		}
		switch g.Intn(8) {
		case 0:
			sc.SetInt("slow", g.Range(w, 2*w+1))
			sc.SetInt("slowat", g.Intn(3))
		case 1:
			sc.SetInt("twin", 1)
		case 2:
			sc.SetInt("ctxcancel", 1)
		}
		return sc
	}
}

// c20Item is one input item with its absolute emission instant.
type c20Item struct {
	V int
	T time.Duration
}

// c20Timeline validates a script (N* terminal?) and returns the items with their emission instants,
// the terminal step (nil if none) and its instant. A malformed script is a harness mistake.
func c20Timeline(spec SrcSpec) (items []c20Item, term *Step, termAt time.Duration) {
	timed := spec.Mode == "timed"
	switch spec.Mode {
	case "timed", "sync", "async":
	default:
		panic("C20: unsupported source mode " + spec.Mode)
	}
	var now time.Duration
	seen := map[int]bool{}
	for i := range spec.Script {
		st := spec.Script[i]
		if st.Gap < 0 {
			panic("C20: negative gap")
		}
		if timed {
			now += dur(st.Gap)
		}
		switch st.K {
		case "N":
			if term != nil {
				panic("C20: value after the terminal step in the script")
			}
			if st.V < 0 {
				panic("C20: negative value in the script")
			}
			if seen[st.V] {
				panic(fmt.Sprintf("C20: duplicate value %d in the script", st.V))
			}
			seen[st.V] = true
			items = append(items, c20Item{V: st.V, T: now})
		case "C", "E":
			if term != nil {
				panic("C20: two terminal steps in the script")
			}
			term = &spec.Script[i]
			termAt = now
		default:
			panic("C20: unknown step kind " + st.K)
		}
	}
	return items, term, now
}

// c20Restrict deletes every item whose key is not k, folding the gaps of deleted steps into the next kept
// step so that absolute emission instants (and the instant of the terminal) are unchanged.
func c20Restrict(spec SrcSpec, k int) SrcSpec {
	out := SrcSpec{Mode: spec.Mode, Ctor: spec.Ctor}
	carry := 0
	for _, st := range spec.Script {
		if st.K == "N" && c20Key(st.V) != k {
			carry += st.Gap
			continue
		}
		st.Gap += carry
		carry = 0
		out.Script = append(out.Script, st)
	}
	return out
}

func c20FmtItems(items []c20Item) string {
	parts := make([]string, len(items))
	for i, it := range items {
		parts[i] = fmt.Sprintf("%d@%d", it.V, it.T/Unit)
	}
	return "[" + strings.Join(parts, " ") + "]"
}

func c20FmtRec(rec *Rec) string {
	parts := make([]string, len(rec.Events))
	for i, ev := range rec.Events {
		parts[i] = fmt.Sprintf("%s@%s", ev.String(), c20Units(ev.T))
	}
	return "[" + strings.Join(parts, " ") + "]"
}

func c20Units(d time.Duration) string {
	if d%Unit == 0 {
		return strconv.Itoa(int(d / Unit))
	}
	return strconv.FormatFloat(float64(d)/float64(Unit), 'f', 3, 64)
}

// c20Passed returns the values delivered for key k with their delivery instants.
func c20Passed(rec *Rec, k int) []c20Item {
	var out []c20Item
	for _, ev := range rec.Events {
		if ev.K == 'N' && c20Key(ev.V) == k {
			out = append(out, c20Item{V: ev.V, T: ev.T})
		}
	}
	return out
}

func runC20(e *Env) {
	sc := e.Sc
	if len(sc.Sources) < 1 {
		panic("C20: scenario without a source")
	}
	if sc.Int("stall", 0) != 0 {
		panic("C20: stall faults are not part of this family (oracles read delivery instants)")
	}
	// (the generic shrinker decrements Ints: an illegal value makes the candidate a harness error, which the
	// minimiser discards, so a stored scenario always shows the values that were really used)
	quota := sc.Int("quota", 1)
	w := sc.Int("w", 2)
	if quota < 0 || w < 1 || (quota == 0 && sc.Family != "C20.native") {
		panic(fmt.Sprintf("C20: illegal quota %d or window %d", quota, w))
	}
	win := dur(w)
	native := sc.Family == "C20.native"

	mkLimiter := func() func(ro.Observable[int]) ro.Observable[int] {
		if native {
			return rlnative.NewRateLimiter[int](int64(quota), win, c20KeyGetter)
		}
		// In-memory store without its janitor goroutine (CleanUpInterval 0): the janitor is a raw goroutine
		// of a third-party module that would outlive the run inside the bubble. The store reads time.Now(),
		// i.e. the bubble clock, which moves in lock-step with the simulated clock.
		store := memory.NewStoreWithOptions(limiter.StoreOptions{Prefix: "c20", CleanUpInterval: 0})
		l := limiter.New(store, limiter.Rate{Period: win, Limit: int64(quota)})
		return rlulule.NewRateLimiter[int](l, c20KeyGetter)
	}

	mainSpec := sc.Sources[0]
	items, term, end := c20Timeline(mainSpec)

	type pipe struct {
		name  string
		spec  SrcSpec
		items []c20Item
		src   *Src
		rec   *Rec

		termCalled bool
	}
	pipes := []*pipe{{name: "all", spec: mainSpec, items: items}}
	soloKey := sc.Int("solo", 0) - 1
	if soloKey >= 0 {
		sp := c20Restrict(mainSpec, soloKey)
		its, t2, end2 := c20Timeline(sp)
		if (t2 == nil) != (term == nil) || (term != nil && end2 != end) || end2 > end {
			panic("C20: restricted timeline does not keep the absolute instants")
		}
		pipes = append(pipes, &pipe{name: "solo", spec: sp, items: its})
	}
	// both pipelines are subscribed at the same simulated instant, before the clock moves
	slow, slowAt := sc.Int("slow", 0), sc.Int("slowat", 0)
	reduced := slow > 0 || sc.Int("ctxcancel", 0) == 1
	slowTag := ""
	if slow > 0 {
		slowTag = ":slow-consumer"
	}
	for pi, p := range pipes {
		p.src = e.NewSrc(p.spec)
		p.rec = e.NewRec(p.name)
		if pi == 0 && slow > 0 {
			// a consumer that takes longer than a window over one item: ordering and completeness must not
			// depend on the consumer keeping up with the window clock
			n := 0
			p.rec.OnNextHook = func(r *Rec, v int) {
				if n == slowAt {
					simSleep(dur(slow))
				}
				n++
			}
		}
		in := p.src.Obs()
		if pi == 0 && sc.Int("ctxcancel", 0) == 1 {
			// every item travels with its own cancellable context; the context of the first item is
			// cancelled when the third one is emitted (a request-scoped context ending while the stream goes
			// on): that is no event of the stream
			var cancels []context.CancelFunc
			in = ro.ContextMapI[int](func(ctx context.Context, i int64) context.Context {
				c, cancel := simcontext.WithCancel(ctx)
				cancels = append(cancels, cancel)
				if i == 2 {
					cancels[0]()
				}
				return c
			})(in)
		}
		if pi == 0 && sc.Int("twin", 0) == 1 && native {
			// two subscribers of the same rate-limited observable over a hot source: each of them gets the
			// behaviour a single subscriber gets
			subject := ro.NewPublishSubject[int]()
			o := mkLimiter()(subject)
			e.Subscribe(o, p.rec.Observer(), nil)
			twin := &pipe{name: "twin", spec: p.spec, items: p.items, src: p.src, rec: e.NewRec("twin")}
			e.Subscribe(o, twin.rec.Observer(), nil)
			e.Settle()
			e.Go("feeder", func() { in.Subscribe(subject) })
			pipes = append(pipes, twin)
			continue
		}
		e.Subscribe(mkLimiter()(in), p.rec.Observer(), nil)
	}
	e.SettleFor(end + 3*win + 2*Unit + 3*dur(slow))
	if e.K.Capped() {
		return
	}
	for _, p := range pipes {
		if p.src.Subs != 1 {
			// never subscribed (Subscribe stuck before reaching the source) or subscribed again: whatever
			// the reason it is the library's doing, but the timeline oracles below assume one playback
			e.Probe("c20-unexpected-subscription-count")
			return
		}
		// Did the producer get as far as its terminal call? It stops early only when it was released (which
		// needs a downstream terminal: judged below as spurious) or when it is blocked inside the library
		// (not this property's business: the source has then not terminated, nothing to propagate).
		for _, c := range p.src.Calls {
			if c.Step.K != "N" {
				p.termCalled = true
			}
		}
		if term != nil && !p.termCalled && p.rec.Terminal() == 0 {
			e.Probe("c20-producer-did-not-reach-terminal")
		}
	}

	describe := func(p *pipe) string {
		t := "none"
		if term != nil {
			t = term.K
			if term.K == "E" {
				t = fmt.Sprintf("E%d", term.V)
			}
			t += "@" + c20Units(end)
		}
		return fmt.Sprintf("quota=%d window=%du mode=%s pipeline=%s input(v@unit)=%s end=%s observed=%s", quota, w, p.spec.Mode, p.name, c20FmtItems(p.items), t, c20FmtRec(p.rec))
	}

	for _, p := range pipes {
		rec := p.rec
		// per-key input, in order
		inByKey := map[int][]int{}
		known := map[int]bool{}
		var keyOrder []int
		for _, it := range p.items {
			k := c20Key(it.V)
			if _, ok := inByKey[k]; !ok {
				keyOrder = append(keyOrder, k)
			}
			inByKey[k] = append(inByKey[k], it.V)
			known[it.V] = true
		}

		// (b) nothing invented, nothing duplicated, per-key order kept
		seen := map[int]bool{}
		for _, ev := range rec.Events {
			if ev.K != 'N' {
				continue
			}
			if !known[ev.V] {
				e.Violate("C20", "invented", fmt.Sprintf("value %d was delivered but never emitted by the source: %s", ev.V, describe(p)))
				continue
			}
			if seen[ev.V] {
				e.Violate("C20", "duplicate", fmt.Sprintf("value %d was delivered twice: %s", ev.V, describe(p)))
			}
			seen[ev.V] = true
		}
		for _, k := range keyOrder {
			in := inByKey[k]
			pos := 0
			dupOrUnknown := false
			for _, it := range c20Passed(rec, k) {
				for pos < len(in) && in[pos] != it.V {
					pos++
				}
				if pos == len(in) {
					dupOrUnknown = true
					break
				}
				pos++
			}
			if dupOrUnknown {
				// not a subsequence: either a duplicate (already reported) or a reordering
				out := c20Passed(rec, k)
				cnt := map[int]int{}
				dup := false
				for _, it := range out {
					cnt[it.V]++
					if cnt[it.V] > 1 {
						dup = true
					}
				}
				if !dup {
					e.Violate("C20", "order", fmt.Sprintf("key %d: delivered %s is not in the order of the input: %s", k, c20FmtItems(out), describe(p)))
				}
			}
		}

		// (a) quota bound, sound whatever the alignment of the windows (delivery instants: not meaningful when
		// the consumer itself holds deliveries back)
		limited := false
		for _, k := range keyOrder {
			if reduced {
				break
			}
			out := c20Passed(rec, k)
			if len(out) < len(inByKey[k]) {
				limited = true
			}
			if len(out) > quota {
				e.Probe("c20-window-reopened") // a key got more than one window's worth through
			}
		spans:
			for i := 0; i < len(out); i++ {
				for j := i; j < len(out); j++ {
					span := out[j].T - out[i].T
					if span < 0 {
						panic("C20: recorded instants go backwards")
					}
					bound := quota * (int(span/win) + 2)
					if j-i+1 > bound {
						e.Violate("C20", "quota", fmt.Sprintf("key %d: %d items passed between unit %s and unit %s (span %s units), more than quota*(floor(span/window)+2)=%d: %s", k, j-i+1, c20Units(out[i].T), c20Units(out[j].T), c20Units(span), bound, describe(p)))
						break spans
					}
				}
			}
		}
		if limited {
			e.Probe("c20-some-dropped")
		} else {
			e.Probe("c20-all-passed")
		}

		// (c) terminal propagation
		got := rec.Terminal()
		switch {
		case term == nil || !p.termCalled:
			if got != 0 {
				e.Violate("C20", "spurious-terminal", fmt.Sprintf("the source has not terminated but the observer got a terminal: %s", describe(p)))
			}
		case term.K == "C":
			if got == 0 {
				e.Violate("C20", "completion-lost"+slowTag, fmt.Sprintf("the source completed at unit %s but the observer saw no completion by unit %s: %s", c20Units(end), c20Units(e.K.Now()), describe(p)))
			} else if got != 'C' {
				e.Violate("C20", "wrong-terminal", fmt.Sprintf("the source completed but the observer got an error: %s", describe(p)))
			}
		case term.K == "E":
			if got == 0 {
				e.Violate("C20", "error-lost"+slowTag, fmt.Sprintf("the source failed at unit %s but the observer saw no error by unit %s: %s", c20Units(end), c20Units(e.K.Now()), describe(p)))
			} else if got != 'E' {
				e.Violate("C20", "wrong-terminal", fmt.Sprintf("the source failed but the observer got a completion: %s", describe(p)))
			} else {
				for _, ev := range rec.Events {
					if ev.K == 'E' {
						if !errors.Is(ev.Err, ScriptError(term.V)) {
							e.Violate("C20", "wrong-error", fmt.Sprintf("the source failed with %v but the observer got %v: %s", ScriptError(term.V), ev.Err, describe(p)))
						}
						break
					}
				}
			}
		}
	}

	// (d) independence: the solo key's output (values and instants) is the same with and without the other keys
	// (not with a slow consumer or per-item contexts on the main pipeline only: the instants differ by design)
	if soloKey >= 0 && !reduced {
		all, solo := pipes[0], pipes[1]
		if native {
			// The windows of a key are cut by its own ticker, started when its first item arrives. An item
			// arriving at exactly a boundary instant races with the tick (same-instant events are ordered
			// by the scheduler, independently in each pipeline): both outcomes are legitimate, so the
			// differential is only decisive when no item of the key sits on a boundary.
			var first time.Duration = -1
			for _, it := range solo.items {
				if first < 0 {
					first = it.T
					continue
				}
				if d := it.T - first; d > 0 && d%win == 0 {
					e.Probe("c20-indep-skipped-boundary-tie")
					return
				}
			}
		}
		a := c20Passed(all.rec, soloKey)
		var bItems []c20Item
		for _, ev := range solo.rec.Events {
			if ev.K == 'N' {
				bItems = append(bItems, c20Item{V: ev.V, T: ev.T})
			}
		}
		same := len(a) == len(bItems)
		for i := 0; same && i < len(a); i++ {
			if a[i] != bItems[i] {
				same = false
			}
		}
		e.Probe("c20-indep-checked")
		if !same {
			e.Violate("C20", "independence", fmt.Sprintf("key %d passes %s when the other keys are present but %s when they are deleted from the timeline (same emission instants): WITH OTHERS %s ; ALONE %s", soloKey, c20FmtItems(a), c20FmtItems(bItems), describe(all), describe(solo)))
		}
	}
}
