package roverif

// C20.shared — one ulule limiter (one store, one set of counters) shared by several subscriptions driven from
// different goroutines at once, all for the same key, all inside one window: exactly min(quota, items) items
// pass, whatever the interleaving of the subscribers' calls into the store. The store is the seam: the
// limiter is given a Store of the harness's that yields to the scheduler before every call and then delegates
// to the in-memory store, so check-then-act sequences over the store can be interleaved.

import (
	"context"
	"fmt"
	"time"

	"github.com/samber/ro"
	rlulule "github.com/samber/ro/plugins/ratelimit/ulule"
	"github.com/ulule/limiter/v3"
	"github.com/ulule/limiter/v3/drivers/store/memory"
)

type c20YieldStore struct {
	e     *Env
	inner limiter.Store
	calls map[string]int
}

func (s *c20YieldStore) step(what string) {
	s.calls[what]++
	s.e.K.Log("store " + what)
	s.e.Yield()
}

func (s *c20YieldStore) Get(ctx context.Context, key string, rate limiter.Rate) (limiter.Context, error) {
	s.step("Get")
	return s.inner.Get(ctx, key, rate)
}

func (s *c20YieldStore) Peek(ctx context.Context, key string, rate limiter.Rate) (limiter.Context, error) {
	s.step("Peek")
	return s.inner.Peek(ctx, key, rate)
}

func (s *c20YieldStore) Reset(ctx context.Context, key string, rate limiter.Rate) (limiter.Context, error) {
	s.step("Reset")
	return s.inner.Reset(ctx, key, rate)
}

func (s *c20YieldStore) Increment(ctx context.Context, key string, count int64, rate limiter.Rate) (limiter.Context, error) {
	s.step("Increment")
	return s.inner.Increment(ctx, key, count, rate)
}

func init() {
	Register(&Family{
		Name:   "C20.shared",
		Props:  []string{"C20"},
		Weight: 1,
		Gen: func(g *Gen) *Scn {
			sc := &Scn{Family: "C20.shared"}
			sc.SetInt("quota", g.Range(1, 3))
			sc.SetInt("subs", g.Range(2, 4))
			sc.SetInt("items", g.Range(1, 2)) // items per subscriber, all of the same key
			sc.SetInt("samepipe", g.Intn(2))  // 1: overlapping subscriptions of ONE limited observable
			return sc
		},
		Run: func(e *Env) {
			sc := e.Sc
			quota, nsubs, items := sc.Int("quota", 1), sc.Int("subs", 2), sc.Int("items", 1)
			if quota < 1 || nsubs < 1 || items < 1 {
				panic("C20.shared: illegal scenario")
			}
			store := &c20YieldStore{e: e, inner: memory.NewStoreWithOptions(limiter.StoreOptions{Prefix: "c20s", CleanUpInterval: 0}), calls: map[string]int{}}
			l := limiter.New(store, limiter.Rate{Period: time.Hour, Limit: int64(quota)})
			limit := rlulule.NewRateLimiter[int](l, func(int) string { return "tenant-1" })
			var vals []int
			for i := 0; i < items; i++ {
				vals = append(vals, i+1)
			}
			shared := limit(ro.Just(vals...))
			recs := make([]*Rec, nsubs)
			for i := 0; i < nsubs; i++ {
				i := i
				recs[i] = e.NewRec(fmt.Sprintf("s%d", i))
				o := shared
				if sc.Int("samepipe", 0) == 0 {
					o = limit(ro.Just(vals...)) // its own pipeline behind the same limiter
				}
				e.Go(fmt.Sprintf("subscriber%d", i), func() { o.Subscribe(recs[i].Observer()) })
			}
			e.SettleFor(10 * Unit)
			if e.K.Capped() {
				return
			}
			passed := 0
			for i, r := range recs {
				passed += len(r.Values())
				if r.Terminal() != 'C' {
					e.Violate("C20", "wrong-terminal", fmt.Sprintf("shared ulule limiter: subscriber %d of %d did not complete with its source: %s", i, nsubs, r.Trace()))
					return
				}
			}
			want := nsubs * items
			if want > quota {
				want = quota
			}
			if passed != want {
				clause := "quota"
				if passed < want {
					clause = "order" // items within the quota were withheld
				}
				traces := ""
				for _, r := range recs {
					traces += "[" + r.Trace() + "] "
				}
				e.Violate("C20", clause, fmt.Sprintf("one ulule limiter (quota %d per hour) shared by %d concurrent subscriptions, %d item(s) each, one key, one window: %d items passed, want exactly %d (store calls %v): %s", quota, nsubs, items, passed, want, store.calls, traces))
			}
		},
	})
}
