package roverif

// C20.shared — one ulule limiter (one store, one set of counters) shared by several subscriptions driven from
// different goroutines at once, all for the same key, all inside one window: exactly min(quota, items) items
// pass, whatever the interleaving of the subscribers' calls into the store. The store is the seam: the
// limiter is given a Store of the harness's that yields to the scheduler before every call and then delegates
// to the in-memory store, so check-then-act sequences over the store can be interleaved.

import (
	"context"
	"fmt"
	"time"

	"github.com/samber/ro"
	rlulule "github.com/samber/ro/plugins/ratelimit/ulule"
	"github.com/ulule/limiter/v3"
	"github.com/ulule/limiter/v3/drivers/store/memory"
)

type c20YieldStore struct {
	e     *Env
	inner limiter.Store
	calls map[string]int
	// honourCtx: like a store that talks to a server, a call made with a context that is over fails with the
	// context's error (and returns the zero limiter.Context)
	honourCtx bool
}

func (s *c20YieldStore) step(what string) {
	s.calls[what]++
	s.e.K.Log("store " + what)
	s.e.Yield()
}

func (s *c20YieldStore) Get(ctx context.Context, key string, rate limiter.Rate) (limiter.Context, error) {
	s.step("Get")
	if s.honourCtx && ctx.Err() != nil {
		return limiter.Context{}, ctx.Err()
	}
	return s.inner.Get(ctx, key, rate)
}

func (s *c20YieldStore) Peek(ctx context.Context, key string, rate limiter.Rate) (limiter.Context, error) {
	s.step("Peek")
	if s.honourCtx && ctx.Err() != nil {
		return limiter.Context{}, ctx.Err()
	}
	return s.inner.Peek(ctx, key, rate)
}

func (s *c20YieldStore) Reset(ctx context.Context, key string, rate limiter.Rate) (limiter.Context, error) {
	s.step("Reset")
	if s.honourCtx && ctx.Err() != nil {
		return limiter.Context{}, ctx.Err()
	}
	return s.inner.Reset(ctx, key, rate)
}

func (s *c20YieldStore) Increment(ctx context.Context, key string, count int64, rate limiter.Rate) (limiter.Context, error) {
	s.step("Increment")
	if s.honourCtx && ctx.Err() != nil {
		return limiter.Context{}, ctx.Err()
	}
	return s.inner.Increment(ctx, key, count, rate)
}

func init() {
	Register(&Family{
		Name:   "C20.shared",
		Props:  []string{"C20"},
		Weight: 1,
		Gen: func(g *Gen) *Scn {
			sc := &Scn{Family: "C20.shared"}
			sc.SetInt("quota", g.Range(1, 3))
			sc.SetInt("subs", g.Range(2, 4))
			sc.SetInt("items", g.Range(1, 2)) // items per subscriber, all of the same key
			sc.SetInt("samepipe", g.Intn(2))  // 1: overlapping subscriptions of ONE limited observable
			if g.Bool(0.3) {
				// one subscriber; from item #deadfrom on the items travel with a context that is already over
				// and the store refuses them: the store's failure ends the stream, nothing passes uncounted
				sc.SetInt("deadfrom", g.Range(0, 3))
				sc.SetInt("subs", 1)
				sc.SetInt("items", g.Range(2, 6))
			} else {
				sc.SetInt("deadfrom", -1)
			}
			return sc
		},
		Run: func(e *Env) {
			sc := e.Sc
			quota, nsubs, items := sc.Int("quota", 1), sc.Int("subs", 2), sc.Int("items", 1)
			if quota < 1 || nsubs < 1 || items < 1 {
				panic("C20.shared: illegal scenario")
			}
			deadFrom := sc.Int("deadfrom", -1)
			store := &c20YieldStore{e: e, inner: memory.NewStoreWithOptions(limiter.StoreOptions{Prefix: "c20s", CleanUpInterval: 0}), calls: map[string]int{}, honourCtx: deadFrom >= 0}
			l := limiter.New(store, limiter.Rate{Period: time.Hour, Limit: int64(quota)})
			limit := rlulule.NewRateLimiter[int](l, func(int) string { return "tenant-1" })
			var vals []int
			for i := 0; i < items; i++ {
				vals = append(vals, i+1)
			}
			if deadFrom >= 0 {
				dead, cancel := context.WithCancel(context.Background())
				cancel()
				in := ro.ContextMapI[int](func(ctx context.Context, i int64) context.Context {
					if int(i) >= deadFrom {
						return dead
					}
					return ctx
				})(ro.Just(vals...))
				rec := e.NewRec("s")
				e.Go("subscriber", func() { limit(in).Subscribe(rec.Observer()) })
				e.SettleFor(10 * Unit)
				if e.K.Capped() {
					return
				}
				passed := len(rec.Values())
				want := deadFrom
				if want > items {
					want = items
				}
				if want > quota {
					want = quota
				}
				wantTerm := byte('E')
				if deadFrom >= items {
					wantTerm = 'C'
				}
				if passed != want || rec.Terminal() != wantTerm {
					clause := "quota"
					if passed <= quota {
						clause = "wrong-terminal"
					}
					e.Violate("C20", clause, fmt.Sprintf("ulule limiter (quota %d per hour) over %d items of one key, the items from #%d on carrying a context that is over, the store refusing calls made with such a context: %d items passed and the stream ended with %q; %d may pass and the stream ends with %q (the store's failure is an error of the stream, no item passes uncounted): %s", quota, items, deadFrom, passed, string(rec.Terminal()), want, string(wantTerm), rec.Trace()))
				}
				return
			}
			shared := limit(ro.Just(vals...))
			recs := make([]*Rec, nsubs)
			for i := 0; i < nsubs; i++ {
				i := i
				recs[i] = e.NewRec(fmt.Sprintf("s%d", i))
				o := shared
				if sc.Int("samepipe", 0) == 0 {
					o = limit(ro.Just(vals...)) // its own pipeline behind the same limiter
				}
				e.Go(fmt.Sprintf("subscriber%d", i), func() { o.Subscribe(recs[i].Observer()) })
			}
			e.SettleFor(10 * Unit)
			if e.K.Capped() {
				return
			}
			passed := 0
			for i, r := range recs {
				passed += len(r.Values())
				if r.Terminal() != 'C' {
					e.Violate("C20", "wrong-terminal", fmt.Sprintf("shared ulule limiter: subscriber %d of %d did not complete with its source: %s", i, nsubs, r.Trace()))
					return
				}
			}
			want := nsubs * items
			if want > quota {
				want = quota
			}
			if passed != want {
				clause := "quota"
				if passed < want {
					clause = "order" // items within the quota were withheld
				}
				traces := ""
				for _, r := range recs {
					traces += "[" + r.Trace() + "] "
				}
				e.Violate("C20", clause, fmt.Sprintf("one ulule limiter (quota %d per hour) shared by %d concurrent subscriptions, %d item(s) each, one key, one window: %d items passed, want exactly %d (store calls %v): %s", quota, nsubs, items, passed, want, store.calls, traces))
			}
		},
	})
}
