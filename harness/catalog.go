package roverif

import (
	"context"
	"fmt"
	"strconv"
	"time"

	"github.com/samber/lo"
	"github.com/samber/ro"
)

// Flags describing a catalogue stage.
type Flags struct {
	Async    bool // delivers from a goroutine other than the producer's / uses time
	Time     bool // time driven
	Multi    bool // consumes auxiliary sources
	Resub    bool // re-subscribes its source by definition
	Stores   bool // keeps notifications before forwarding them
	Handoff  bool // ObserveOn / SubscribeOn
	Term     bool // may terminate before its source does
	Pass     bool // pass-through that hands its destination upstream
	Waits    bool // waits inside Subscribe (Concat family)
	NoModel  bool
	Hot      bool
	ErrAware bool
}

// StageDef is one catalogue entry: Observable[int] -> Observable[int].
type StageDef struct {
	Name  string
	Aux   int // auxiliary sources (scenario source indices are the first Aux params)
	GenP  func(g *Gen, n int) []int
	Build func(e *Env, aux []ro.Observable[int], p []int) func(ro.Observable[int]) ro.Observable[int]
	Model func(p []int, in []N, aux [][]N) [][]N // admissible outputs; nil when there is no model
	Flags
}

var catalog = map[string]*StageDef{}
var catalogOrder []string

func reg(d *StageDef) {
	if _, dup := catalog[d.Name]; dup {
		panic("duplicate stage " + d.Name)
	}
	catalog[d.Name] = d
	catalogOrder = append(catalogOrder, d.Name)
}

func noP(g *Gen, n int) []int { return nil }

func smallP(g *Gen, n int) []int {
	// boundary biased: 0,1,n-1,n,n+1
	c := []int{0, 1, n - 1, n, n + 1, 2}
	v := c[g.Intn(len(c))]
	if v < 0 {
		v = 0
	}
	return []int{v}
}

func posP(g *Gen, n int) []int {
	p := smallP(g, n)
	if p[0] < 1 {
		p[0] = 1
	}
	return p
}

func pi(p []int, i, def int) int {
	if i < len(p) {
		return p[i]
	}
	return def
}

type ctxKey string

// Call is placed at the top of every user callback handed to the library: it numbers the
// invocation, injects the planned fault, and is a scheduling point.
func (e *Env) Call(site string) {
	n := e.calls[site]
	e.calls[site] = n + 1
	before := 0
	if e.evCount != nil {
		before = e.evCount()
	}
	e.CallLog = append(e.CallLog, CallRec{Site: site, Inv: n, Before: before})
	if f := e.faultAt(site, n); f != nil && f.Kind != "ret-err" {
		e.firedFaults++
		if e.firedFaults == 1 {
			e.faultBefore = before
			e.firstFault = f
		}
		e.K.Log(fmt.Sprintf("fault %s@%s#%d", f.Kind, site, n))
		switch f.Kind {
		case "panic-err":
			panic(ScriptError(90 + f.Arg))
		case "panic-str":
			panic(fmt.Sprintf("injected-panic-%d (100%% sure, 5%%d)", f.Arg)) // a message that is not a format string
		case "panic-rt":
			// a real run-time failure of the callback: the cause stays recognisable as a runtime.Error
			var m map[int]int
			m[f.Arg] = 1
		}
	}
	e.Yield()
}

// CallErr is Call for callbacks that may return an error.
func (e *Env) CallErr(site string) error {
	n := e.calls[site]
	if f := e.faultAt(site, n); f != nil && f.Kind == "ret-err" {
		e.calls[site] = n + 1
		before := 0
		if e.evCount != nil {
			before = e.evCount()
		}
		e.CallLog = append(e.CallLog, CallRec{Site: site, Inv: n, Before: before})
		e.firedFaults++
		if e.firedFaults == 1 {
			e.faultBefore = before
			e.firstFault = f
		}
		e.K.Log(fmt.Sprintf("fault ret-err@%s#%d", site, n))
		e.Yield()
		return ScriptError(90 + f.Arg)
	}
	e.Call(site)
	return nil
}

func (e *Env) faultAt(site string, inv int) *FaultSpec {
	if e.faultsOff {
		return nil
	}
	for i := range e.Sc.Faults {
		f := &e.Sc.Faults[i]
		if f.Site == site && f.Inv == inv {
			return f
		}
	}
	return nil
}

func b2i(b bool) int {
	if b {
		return 1
	}
	return 0
}

func justOf(p []int, from int) ro.Observable[int] {
	if from >= len(p) {
		return ro.Empty[int]()
	}
	return ro.Just(p[from:]...)
}

func init() {
	// ---------------- transformation
	reg(&StageDef{Name: "Map", GenP: noP, Build: func(e *Env, aux []ro.Observable[int], p []int) func(ro.Observable[int]) ro.Observable[int] {
		return ro.Map(func(x int) int { e.Call("Map"); return x*2 + 1 })
	}})
	reg(&StageDef{Name: "MapI", GenP: noP, Build: func(e *Env, aux []ro.Observable[int], p []int) func(ro.Observable[int]) ro.Observable[int] {
		return ro.MapI(func(x int, i int64) int { e.Call("MapI"); return x*10 + int(i) })
	}})
	reg(&StageDef{Name: "MapWithContext", GenP: noP, Build: func(e *Env, aux []ro.Observable[int], p []int) func(ro.Observable[int]) ro.Observable[int] {
		return ro.MapWithContext(func(ctx context.Context, x int) (context.Context, int) {
			e.Call("MapWithContext")
			return context.WithValue(ctx, ctxKey("mid"), "MapWithContext"), x*2 + 1
		})
	}})
	reg(&StageDef{Name: "MapIWithContext", GenP: noP, Build: func(e *Env, aux []ro.Observable[int], p []int) func(ro.Observable[int]) ro.Observable[int] {
		return ro.MapIWithContext(func(ctx context.Context, x int, i int64) (context.Context, int) {
			e.Call("MapIWithContext")
			return context.WithValue(ctx, ctxKey("mid"), "MapIWithContext"), x*10 + int(i)
		})
	}})
	reg(&StageDef{Name: "MapTo", GenP: noP, Build: func(e *Env, aux []ro.Observable[int], p []int) func(ro.Observable[int]) ro.Observable[int] {
		return ro.MapTo[int](7)
	}})
	reg(&StageDef{Name: "MapErr", GenP: smallP, Flags: Flags{Term: true, ErrAware: true}, Build: func(e *Env, aux []ro.Observable[int], p []int) func(ro.Observable[int]) ro.Observable[int] {
		k := pi(p, 0, 99)
		n := 0
		_ = n
		return ro.MapErrI(func(x int, i int64) (int, error) {
			if err := e.CallErr("MapErr"); err != nil {
				return 0, err
			}
			if int(i) == k {
				return 0, ScriptError(50)
			}
			return x + 1, nil
		})
	}})
	reg(&StageDef{Name: "Scan", GenP: noP, Build: func(e *Env, aux []ro.Observable[int], p []int) func(ro.Observable[int]) ro.Observable[int] {
		return ro.Scan(func(acc int, x int) int { e.Call("Scan"); return acc + x }, 100)
	}})
	reg(&StageDef{Name: "ScanI", GenP: noP, Build: func(e *Env, aux []ro.Observable[int], p []int) func(ro.Observable[int]) ro.Observable[int] {
		return ro.ScanI(func(acc int, x int, i int64) int { e.Call("ScanI"); return acc + x*int(i+1) }, 100)
	}})
	reg(&StageDef{Name: "Cast", GenP: noP, Build: func(e *Env, aux []ro.Observable[int], p []int) func(ro.Observable[int]) ro.Observable[int] {
		return func(src ro.Observable[int]) ro.Observable[int] {
			return ro.Cast[any, int]()(ro.Cast[int, any]()(src))
		}
	}})
	reg(&StageDef{Name: "FlatMap", GenP: noP, Flags: Flags{Waits: true}, Build: func(e *Env, aux []ro.Observable[int], p []int) func(ro.Observable[int]) ro.Observable[int] {
		return ro.FlatMap(func(x int) ro.Observable[int] { e.Call("FlatMap"); return ro.Just(x, x+100) })
	}})
	reg(&StageDef{Name: "FlatMapI", GenP: noP, Flags: Flags{Waits: true}, Build: func(e *Env, aux []ro.Observable[int], p []int) func(ro.Observable[int]) ro.Observable[int] {
		return ro.FlatMapI(func(x int, i int64) ro.Observable[int] { e.Call("FlatMapI"); return ro.Just(x, int(i)+100) })
	}})
	reg(&StageDef{Name: "MergeMap", GenP: noP, Build: func(e *Env, aux []ro.Observable[int], p []int) func(ro.Observable[int]) ro.Observable[int] {
		return ro.MergeMap(func(x int) ro.Observable[int] { e.Call("MergeMap"); return ro.Just(x, x+100) })
	}})
	reg(&StageDef{Name: "MergeMapI", GenP: noP, Build: func(e *Env, aux []ro.Observable[int], p []int) func(ro.Observable[int]) ro.Observable[int] {
		return ro.MergeMapI(func(x int, i int64) ro.Observable[int] { e.Call("MergeMapI"); return ro.Just(x, int(i)+100) })
	}})
	reg(&StageDef{Name: "BufferWithCount", GenP: posP, Flags: Flags{Stores: true}, Build: func(e *Env, aux []ro.Observable[int], p []int) func(ro.Observable[int]) ro.Observable[int] {
		n := pi(p, 0, 2)
		return func(src ro.Observable[int]) ro.Observable[int] {
			return ro.Flatten[int]()(ro.BufferWithCount[int](n)(src))
		}
	}})
	reg(&StageDef{Name: "BufferWithCountSum", GenP: posP, Flags: Flags{Stores: true}, Build: func(e *Env, aux []ro.Observable[int], p []int) func(ro.Observable[int]) ro.Observable[int] {
		n := pi(p, 0, 2)
		return func(src ro.Observable[int]) ro.Observable[int] {
			return ro.Map(func(b []int) int { return len(b)*1000 + lo.Sum(b) })(ro.BufferWithCount[int](n)(src))
		}
	}})
	reg(&StageDef{Name: "Pairwise", GenP: noP, Build: func(e *Env, aux []ro.Observable[int], p []int) func(ro.Observable[int]) ro.Observable[int] {
		return func(src ro.Observable[int]) ro.Observable[int] {
			return ro.Map(func(b []int) int { return b[0]*100 + b[1] })(ro.Pairwise[int]()(src))
		}
	}})
	reg(&StageDef{Name: "GroupByMerge", GenP: noP, Flags: Flags{Stores: true}, Build: func(e *Env, aux []ro.Observable[int], p []int) func(ro.Observable[int]) ro.Observable[int] {
		return func(src ro.Observable[int]) ro.Observable[int] {
			return ro.MergeAll[int]()(ro.GroupBy(func(x int) int { e.Call("GroupBy"); return x % 2 })(src))
		}
	}})
	// ---------------- filtering
	reg(&StageDef{Name: "Filter", GenP: noP, Build: func(e *Env, aux []ro.Observable[int], p []int) func(ro.Observable[int]) ro.Observable[int] {
		return ro.Filter(func(x int) bool { e.Call("Filter"); return x%2 == 1 })
	}})
	reg(&StageDef{Name: "FilterI", GenP: noP, Build: func(e *Env, aux []ro.Observable[int], p []int) func(ro.Observable[int]) ro.Observable[int] {
		return ro.FilterI(func(x int, i int64) bool { e.Call("FilterI"); return i%2 == 0 })
	}})
	reg(&StageDef{Name: "Distinct", GenP: noP, Build: func(e *Env, aux []ro.Observable[int], p []int) func(ro.Observable[int]) ro.Observable[int] {
		return ro.Distinct[int]()
	}})
	reg(&StageDef{Name: "DistinctBy", GenP: noP, Build: func(e *Env, aux []ro.Observable[int], p []int) func(ro.Observable[int]) ro.Observable[int] {
		return ro.DistinctBy(func(x int) int { e.Call("DistinctBy"); return x % 2 })
	}})
	reg(&StageDef{Name: "IgnoreElements", GenP: noP, Build: func(e *Env, aux []ro.Observable[int], p []int) func(ro.Observable[int]) ro.Observable[int] {
		return ro.IgnoreElements[int]()
	}})
	reg(&StageDef{Name: "Skip", GenP: smallP, Build: func(e *Env, aux []ro.Observable[int], p []int) func(ro.Observable[int]) ro.Observable[int] {
		return ro.Skip[int](int64(pi(p, 0, 1)))
	}})
	reg(&StageDef{Name: "SkipWhile", GenP: noP, Build: func(e *Env, aux []ro.Observable[int], p []int) func(ro.Observable[int]) ro.Observable[int] {
		return ro.SkipWhile(func(x int) bool { e.Call("SkipWhile"); return x < 2 })
	}})
	reg(&StageDef{Name: "SkipLast", GenP: posP, Flags: Flags{Stores: true}, Build: func(e *Env, aux []ro.Observable[int], p []int) func(ro.Observable[int]) ro.Observable[int] {
		return ro.SkipLast[int](pi(p, 0, 1))
	}})
	reg(&StageDef{Name: "Take", GenP: smallP, Flags: Flags{Term: true}, Build: func(e *Env, aux []ro.Observable[int], p []int) func(ro.Observable[int]) ro.Observable[int] {
		return ro.Take[int](int64(pi(p, 0, 1)))
	}})
	reg(&StageDef{Name: "TakeWhile", GenP: noP, Flags: Flags{Term: true}, Build: func(e *Env, aux []ro.Observable[int], p []int) func(ro.Observable[int]) ro.Observable[int] {
		return ro.TakeWhile(func(x int) bool { e.Call("TakeWhile"); return x < 2 })
	}})
	reg(&StageDef{Name: "TakeLast", GenP: posP, Flags: Flags{Stores: true}, Build: func(e *Env, aux []ro.Observable[int], p []int) func(ro.Observable[int]) ro.Observable[int] {
		return ro.TakeLast[int](pi(p, 0, 1))
	}})
	reg(&StageDef{Name: "Head", GenP: noP, Flags: Flags{Term: true}, Build: func(e *Env, aux []ro.Observable[int], p []int) func(ro.Observable[int]) ro.Observable[int] {
		return ro.Head[int]()
	}})
	reg(&StageDef{Name: "Tail", GenP: noP, Flags: Flags{Stores: true}, Build: func(e *Env, aux []ro.Observable[int], p []int) func(ro.Observable[int]) ro.Observable[int] {
		return ro.Tail[int]()
	}})
	reg(&StageDef{Name: "First", GenP: noP, Flags: Flags{Term: true}, Build: func(e *Env, aux []ro.Observable[int], p []int) func(ro.Observable[int]) ro.Observable[int] {
		return ro.First(func(x int) bool { e.Call("First"); return x >= 1 })
	}})
	reg(&StageDef{Name: "Last", GenP: noP, Flags: Flags{Stores: true}, Build: func(e *Env, aux []ro.Observable[int], p []int) func(ro.Observable[int]) ro.Observable[int] {
		return ro.Last(func(x int) bool { e.Call("Last"); return x >= 1 })
	}})
	reg(&StageDef{Name: "ElementAt", GenP: smallP, Flags: Flags{Term: true}, Build: func(e *Env, aux []ro.Observable[int], p []int) func(ro.Observable[int]) ro.Observable[int] {
		return ro.ElementAt[int](pi(p, 0, 0))
	}})
	reg(&StageDef{Name: "ElementAtOrDefault", GenP: smallP, Flags: Flags{Term: true}, Build: func(e *Env, aux []ro.Observable[int], p []int) func(ro.Observable[int]) ro.Observable[int] {
		return ro.ElementAtOrDefault[int](int64(pi(p, 0, 0)), 77)
	}})
	// ---------------- conditional / math
	reg(&StageDef{Name: "All", GenP: noP, Flags: Flags{Term: true}, Build: func(e *Env, aux []ro.Observable[int], p []int) func(ro.Observable[int]) ro.Observable[int] {
		return func(src ro.Observable[int]) ro.Observable[int] {
			return ro.Map(b2i)(ro.All(func(x int) bool { e.Call("All"); return x < 2 })(src))
		}
	}})
	reg(&StageDef{Name: "Contains", GenP: noP, Flags: Flags{Term: true}, Build: func(e *Env, aux []ro.Observable[int], p []int) func(ro.Observable[int]) ro.Observable[int] {
		return func(src ro.Observable[int]) ro.Observable[int] {
			return ro.Map(b2i)(ro.Contains(func(x int) bool { e.Call("Contains"); return x == 2 })(src))
		}
	}})
	reg(&StageDef{Name: "Find", GenP: noP, Flags: Flags{Term: true}, Build: func(e *Env, aux []ro.Observable[int], p []int) func(ro.Observable[int]) ro.Observable[int] {
		return ro.Find(func(x int) bool { e.Call("Find"); return x >= 2 })
	}})
	reg(&StageDef{Name: "DefaultIfEmpty", GenP: noP, Build: func(e *Env, aux []ro.Observable[int], p []int) func(ro.Observable[int]) ro.Observable[int] {
		return ro.DefaultIfEmpty(55)
	}})
	reg(&StageDef{Name: "Count", GenP: noP, Flags: Flags{Stores: true}, Build: func(e *Env, aux []ro.Observable[int], p []int) func(ro.Observable[int]) ro.Observable[int] {
		return func(src ro.Observable[int]) ro.Observable[int] {
			return ro.Map(func(c int64) int { return int(c) })(ro.Count[int]()(src))
		}
	}})
	reg(&StageDef{Name: "Sum", GenP: noP, Flags: Flags{Stores: true}, Build: func(e *Env, aux []ro.Observable[int], p []int) func(ro.Observable[int]) ro.Observable[int] {
		return ro.Sum[int]()
	}})
	reg(&StageDef{Name: "Min", GenP: noP, Flags: Flags{Stores: true}, Build: func(e *Env, aux []ro.Observable[int], p []int) func(ro.Observable[int]) ro.Observable[int] {
		return ro.Min[int]()
	}})
	reg(&StageDef{Name: "Max", GenP: noP, Flags: Flags{Stores: true}, Build: func(e *Env, aux []ro.Observable[int], p []int) func(ro.Observable[int]) ro.Observable[int] {
		return ro.Max[int]()
	}})
	reg(&StageDef{Name: "Reduce", GenP: noP, Flags: Flags{Stores: true}, Build: func(e *Env, aux []ro.Observable[int], p []int) func(ro.Observable[int]) ro.Observable[int] {
		return ro.Reduce(func(acc int, x int) int { e.Call("Reduce"); return acc*3 + x }, 1)
	}})
	reg(&StageDef{Name: "Clamp", GenP: noP, Build: func(e *Env, aux []ro.Observable[int], p []int) func(ro.Observable[int]) ro.Observable[int] {
		return ro.Clamp(1, 2)
	}})
	// ---------------- error handling
	reg(&StageDef{Name: "Catch", GenP: noP, Flags: Flags{Pass: true}, Build: func(e *Env, aux []ro.Observable[int], p []int) func(ro.Observable[int]) ro.Observable[int] {
		return ro.Catch(func(err error) ro.Observable[int] { e.Call("Catch"); return ro.Just(61, 62) })
	}})
	reg(&StageDef{Name: "OnErrorReturn", GenP: noP, Build: func(e *Env, aux []ro.Observable[int], p []int) func(ro.Observable[int]) ro.Observable[int] {
		return ro.OnErrorReturn(63)
	}})
	reg(&StageDef{Name: "OnErrorResumeNextWith", GenP: noP, Flags: Flags{Waits: true}, Build: func(e *Env, aux []ro.Observable[int], p []int) func(ro.Observable[int]) ro.Observable[int] {
		return ro.OnErrorResumeNextWith(ro.Just(64), ro.Just(65))
	}})
	reg(&StageDef{Name: "ThrowIfEmpty", GenP: noP, Build: func(e *Env, aux []ro.Observable[int], p []int) func(ro.Observable[int]) ro.Observable[int] {
		return ro.ThrowIfEmpty[int](func() error { e.Call("ThrowIfEmpty"); return ScriptError(51) })
	}})
	reg(&StageDef{Name: "RetryN", GenP: func(g *Gen, n int) []int { return []int{g.Intn(3)} }, Flags: Flags{Resub: true, Waits: true}, Build: func(e *Env, aux []ro.Observable[int], p []int) func(ro.Observable[int]) ro.Observable[int] {
		return ro.RetryWithConfig[int](ro.RetryConfig{MaxRetries: uint64(pi(p, 0, 1))})
	}})
	reg(&StageDef{Name: "RepeatWith", GenP: func(g *Gen, n int) []int { return []int{g.Intn(3) + 1} }, Flags: Flags{Resub: true, Waits: true}, Build: func(e *Env, aux []ro.Observable[int], p []int) func(ro.Observable[int]) ro.Observable[int] {
		return ro.RepeatWith[int](int64(pi(p, 0, 1)))
	}})
	reg(&StageDef{Name: "DoWhile", GenP: func(g *Gen, n int) []int { return []int{g.Intn(3)} }, Flags: Flags{Resub: true, Waits: true}, Build: func(e *Env, aux []ro.Observable[int], p []int) func(ro.Observable[int]) ro.Observable[int] {
		k := pi(p, 0, 1)
		return ro.DoWhileI[int](func(i int64) bool { return int(i) < k })
	}})
	reg(&StageDef{Name: "While", GenP: func(g *Gen, n int) []int { return []int{g.Intn(3)} }, Flags: Flags{Resub: true, Waits: true}, Build: func(e *Env, aux []ro.Observable[int], p []int) func(ro.Observable[int]) ro.Observable[int] {
		k := pi(p, 0, 1)
		return ro.WhileI[int](func(i int64) bool { return int(i) < k })
	}})
	// ---------------- utility
	reg(&StageDef{Name: "Tap", GenP: noP, Build: func(e *Env, aux []ro.Observable[int], p []int) func(ro.Observable[int]) ro.Observable[int] {
		return ro.Tap(func(x int) { e.Call("Tap.next") }, func(err error) { e.Call("Tap.error") }, func() { e.Call("Tap.complete") })
	}})
	reg(&StageDef{Name: "TapOnNext", GenP: noP, Build: func(e *Env, aux []ro.Observable[int], p []int) func(ro.Observable[int]) ro.Observable[int] {
		return ro.TapOnNext(func(x int) { e.Call("TapOnNext") })
	}})
	reg(&StageDef{Name: "TapOnError", GenP: noP, Build: func(e *Env, aux []ro.Observable[int], p []int) func(ro.Observable[int]) ro.Observable[int] {
		return ro.TapOnError[int](func(err error) { e.Call("TapOnError") })
	}})
	reg(&StageDef{Name: "TapOnComplete", GenP: noP, Build: func(e *Env, aux []ro.Observable[int], p []int) func(ro.Observable[int]) ro.Observable[int] {
		return ro.TapOnComplete[int](func() { e.Call("TapOnComplete") })
	}})
	reg(&StageDef{Name: "TapOnSubscribe", GenP: noP, Flags: Flags{Pass: true}, Build: func(e *Env, aux []ro.Observable[int], p []int) func(ro.Observable[int]) ro.Observable[int] {
		return ro.TapOnSubscribe[int](func() { e.Call("TapOnSubscribe") })
	}})
	reg(&StageDef{Name: "TapOnFinalize", GenP: noP, Flags: Flags{Pass: true}, Build: func(e *Env, aux []ro.Observable[int], p []int) func(ro.Observable[int]) ro.Observable[int] {
		return ro.TapOnFinalize[int](func() { e.finalized++ })
	}})
	reg(&StageDef{Name: "Defer", GenP: noP, Flags: Flags{Pass: true}, Build: func(e *Env, aux []ro.Observable[int], p []int) func(ro.Observable[int]) ro.Observable[int] {
		return func(src ro.Observable[int]) ro.Observable[int] {
			return ro.Defer(func() ro.Observable[int] { e.Call("Defer"); return src })
		}
	}})
	reg(&StageDef{Name: "Serialize", GenP: noP, Build: func(e *Env, aux []ro.Observable[int], p []int) func(ro.Observable[int]) ro.Observable[int] {
		return ro.Serialize[int]()
	}})
	reg(&StageDef{Name: "MaterializeDematerialize", GenP: noP, Build: func(e *Env, aux []ro.Observable[int], p []int) func(ro.Observable[int]) ro.Observable[int] {
		return func(src ro.Observable[int]) ro.Observable[int] {
			return ro.Dematerialize[int]()(ro.Materialize[int]()(src))
		}
	}})
	reg(&StageDef{Name: "Delay", GenP: func(g *Gen, n int) []int { return []int{g.PickInt(1, 2, 3, 5)} }, Flags: Flags{Async: true, Time: true, Stores: true}, Build: func(e *Env, aux []ro.Observable[int], p []int) func(ro.Observable[int]) ro.Observable[int] {
		return ro.Delay[int](time.Duration(pi(p, 0, 1)) * Unit)
	}})
	reg(&StageDef{Name: "DelayEach", GenP: func(g *Gen, n int) []int { return []int{g.PickInt(1, 2, 3)} }, Flags: Flags{Time: true}, Build: func(e *Env, aux []ro.Observable[int], p []int) func(ro.Observable[int]) ro.Observable[int] {
		return ro.DelayEach[int](time.Duration(pi(p, 0, 1)) * Unit)
	}})
	reg(&StageDef{Name: "Timeout", GenP: func(g *Gen, n int) []int { return []int{g.PickInt(1, 2, 3, 5)} }, Flags: Flags{Async: true, Time: true, Term: true}, Build: func(e *Env, aux []ro.Observable[int], p []int) func(ro.Observable[int]) ro.Observable[int] {
		return ro.Timeout[int](time.Duration(pi(p, 0, 1)) * Unit)
	}})
	reg(&StageDef{Name: "ObserveOn", GenP: func(g *Gen, n int) []int { return []int{g.Range(1, 4)} }, Flags: Flags{Async: true, Handoff: true, Stores: true}, Build: func(e *Env, aux []ro.Observable[int], p []int) func(ro.Observable[int]) ro.Observable[int] {
		return ro.ObserveOn[int](pi(p, 0, 1))
	}})
	reg(&StageDef{Name: "SubscribeOn", GenP: func(g *Gen, n int) []int { return []int{g.Range(1, 4)} }, Flags: Flags{Async: true, Handoff: true, Stores: true, Waits: true}, Build: func(e *Env, aux []ro.Observable[int], p []int) func(ro.Observable[int]) ro.Observable[int] {
		return ro.SubscribeOn[int](pi(p, 0, 1))
	}})
	reg(&StageDef{Name: "ThrottleTime", GenP: func(g *Gen, n int) []int { return []int{g.PickInt(1, 2, 3)} }, Flags: Flags{Time: true}, Build: func(e *Env, aux []ro.Observable[int], p []int) func(ro.Observable[int]) ro.Observable[int] {
		return ro.ThrottleTime[int](time.Duration(pi(p, 0, 1)) * Unit)
	}})
	reg(&StageDef{Name: "SampleTime", GenP: func(g *Gen, n int) []int { return []int{g.PickInt(1, 2, 3)} }, Flags: Flags{Async: true, Time: true}, Build: func(e *Env, aux []ro.Observable[int], p []int) func(ro.Observable[int]) ro.Observable[int] {
		return ro.SampleTime[int](time.Duration(pi(p, 0, 1)) * Unit)
	}})
	reg(&StageDef{Name: "BufferWithTime", GenP: func(g *Gen, n int) []int { return []int{g.PickInt(1, 2, 3)} }, Flags: Flags{Async: true, Time: true, Stores: true}, Build: func(e *Env, aux []ro.Observable[int], p []int) func(ro.Observable[int]) ro.Observable[int] {
		d := time.Duration(pi(p, 0, 1)) * Unit
		return func(src ro.Observable[int]) ro.Observable[int] {
			return ro.Flatten[int]()(ro.BufferWithTime[int](d)(src))
		}
	}})
	reg(&StageDef{Name: "BufferWithTimeOrCount", GenP: func(g *Gen, n int) []int { return []int{g.Range(1, 3), g.PickInt(1, 2, 3)} }, Flags: Flags{Async: true, Time: true, Stores: true}, Build: func(e *Env, aux []ro.Observable[int], p []int) func(ro.Observable[int]) ro.Observable[int] {
		d := time.Duration(pi(p, 1, 1)) * Unit
		return func(src ro.Observable[int]) ro.Observable[int] {
			return ro.Flatten[int]()(ro.BufferWithTimeOrCount[int](pi(p, 0, 2), d)(src))
		}
	}})
	// ---------------- context
	reg(&StageDef{Name: "ContextWithValue", GenP: noP, Build: func(e *Env, aux []ro.Observable[int], p []int) func(ro.Observable[int]) ro.Observable[int] {
		return ro.ContextWithValue[int](ctxKey("mid"), "ContextWithValue")
	}})
	// ContextWithTimeout gives every value its own deadline, counted from the emission; the probe behind it
	// negates a value whose context has already expired when it arrives
	reg(&StageDef{Name: "CtxTimeoutProbe", GenP: noP, Build: func(e *Env, aux []ro.Observable[int], p []int) func(ro.Observable[int]) ro.Observable[int] {
		to := ro.ContextWithTimeout[int](50 * Unit)
		probe := ro.MapWithContext(func(ctx context.Context, x int) (context.Context, int) {
			if ctx != nil && ctx.Err() != nil {
				return ctx, -x - 1
			}
			return ctx, x
		})
		return func(src ro.Observable[int]) ro.Observable[int] { return probe(to(src)) }
	}})
	reg(&StageDef{Name: "ContextMap", GenP: noP, Build: func(e *Env, aux []ro.Observable[int], p []int) func(ro.Observable[int]) ro.Observable[int] {
		return ro.ContextMap[int](func(ctx context.Context) context.Context {
			e.Call("ContextMap")
			return context.WithValue(ctx, ctxKey("mid"), "ContextMap")
		})
	}})
	reg(&StageDef{Name: "ThrowOnContextCancel", GenP: noP, Flags: Flags{Async: true, Term: true}, Build: func(e *Env, aux []ro.Observable[int], p []int) func(ro.Observable[int]) ro.Observable[int] {
		return ro.ThrowOnContextCancel[int]()
	}})
	// ---------------- combining with auxiliary sources
	reg(&StageDef{Name: "StartWith", GenP: noP, Flags: Flags{Pass: true}, Build: func(e *Env, aux []ro.Observable[int], p []int) func(ro.Observable[int]) ro.Observable[int] {
		return ro.StartWith(71, 72)
	}})
	reg(&StageDef{Name: "EndWith", GenP: noP, Build: func(e *Env, aux []ro.Observable[int], p []int) func(ro.Observable[int]) ro.Observable[int] {
		return ro.EndWith(73, 74)
	}})
	reg(&StageDef{Name: "MergeWith", Aux: 1, GenP: noP, Flags: Flags{Multi: true}, Build: func(e *Env, aux []ro.Observable[int], p []int) func(ro.Observable[int]) ro.Observable[int] {
		return ro.MergeWith(aux[0])
	}})
	reg(&StageDef{Name: "ConcatWith", Aux: 1, GenP: noP, Flags: Flags{Multi: true, Waits: true}, Build: func(e *Env, aux []ro.Observable[int], p []int) func(ro.Observable[int]) ro.Observable[int] {
		return ro.ConcatWith(aux[0])
	}})
	reg(&StageDef{Name: "RaceWith", Aux: 1, GenP: noP, Flags: Flags{Multi: true}, Build: func(e *Env, aux []ro.Observable[int], p []int) func(ro.Observable[int]) ro.Observable[int] {
		return ro.RaceWith(aux[0])
	}})
	reg(&StageDef{Name: "CombineLatestWith", Aux: 1, GenP: noP, Flags: Flags{Multi: true}, Build: func(e *Env, aux []ro.Observable[int], p []int) func(ro.Observable[int]) ro.Observable[int] {
		return func(src ro.Observable[int]) ro.Observable[int] {
			return ro.Map(func(t lo.Tuple2[int, int]) int { return t.A*100 + t.B })(ro.CombineLatestWith[int](aux[0])(src))
		}
	}})
	reg(&StageDef{Name: "ZipWith", Aux: 1, GenP: noP, Flags: Flags{Multi: true, Term: true}, Build: func(e *Env, aux []ro.Observable[int], p []int) func(ro.Observable[int]) ro.Observable[int] {
		return func(src ro.Observable[int]) ro.Observable[int] {
			return ro.Map(func(t lo.Tuple2[int, int]) int { return t.A*100 + t.B })(ro.ZipWith[int](aux[0])(src))
		}
	}})
	reg(&StageDef{Name: "TakeUntil", Aux: 1, GenP: noP, Flags: Flags{Multi: true, Term: true}, Build: func(e *Env, aux []ro.Observable[int], p []int) func(ro.Observable[int]) ro.Observable[int] {
		return ro.TakeUntil[int](aux[0])
	}})
	reg(&StageDef{Name: "SkipUntil", Aux: 1, GenP: noP, Flags: Flags{Multi: true}, Build: func(e *Env, aux []ro.Observable[int], p []int) func(ro.Observable[int]) ro.Observable[int] {
		return ro.SkipUntil[int](aux[0])
	}})
	reg(&StageDef{Name: "BufferWhen", Aux: 1, GenP: noP, Flags: Flags{Multi: true, Stores: true}, Build: func(e *Env, aux []ro.Observable[int], p []int) func(ro.Observable[int]) ro.Observable[int] {
		return func(src ro.Observable[int]) ro.Observable[int] {
			return ro.Flatten[int]()(ro.BufferWhen[int](aux[0])(src))
		}
	}})
	reg(&StageDef{Name: "WindowWhenMerge", Aux: 1, GenP: noP, Flags: Flags{Multi: true, Stores: true}, Build: func(e *Env, aux []ro.Observable[int], p []int) func(ro.Observable[int]) ro.Observable[int] {
		return func(src ro.Observable[int]) ro.Observable[int] {
			return ro.MergeAll[int]()(ro.WindowWhen[int](aux[0])(src))
		}
	}})
	reg(&StageDef{Name: "SampleWhen", Aux: 1, GenP: noP, Flags: Flags{Multi: true}, Build: func(e *Env, aux []ro.Observable[int], p []int) func(ro.Observable[int]) ro.Observable[int] {
		return ro.SampleWhen[int](aux[0])
	}})
	reg(&StageDef{Name: "ThrottleWhen", Aux: 1, GenP: noP, Flags: Flags{Multi: true}, Build: func(e *Env, aux []ro.Observable[int], p []int) func(ro.Observable[int]) ro.Observable[int] {
		return ro.ThrottleWhen[int](aux[0])
	}})
	reg(&StageDef{Name: "SequenceEqual", Aux: 1, GenP: noP, Flags: Flags{Multi: true, Term: true}, Build: func(e *Env, aux []ro.Observable[int], p []int) func(ro.Observable[int]) ro.Observable[int] {
		return func(src ro.Observable[int]) ro.Observable[int] {
			return ro.Map(b2i)(ro.SequenceEqual(aux[0])(src))
		}
	}})
	// ---------------- sinks
	// like ToSliceFlatten, but the harness keeps the emitted slice by reference (Env.CheckHeld: a value that
	// has been delivered is never modified afterwards, whoever else uses the same operator value)
	reg(&StageDef{Name: "ToSliceKeep", GenP: noP, Flags: Flags{Stores: true}, Build: func(e *Env, aux []ro.Observable[int], p []int) func(ro.Observable[int]) ro.Observable[int] {
		ts := ro.ToSlice[int]()
		keep := ro.Map(func(s []int) []int { e.Hold(s); return s })
		fl := ro.Flatten[int]()
		return func(src ro.Observable[int]) ro.Observable[int] { return fl(keep(ts(src))) }
	}})
	reg(&StageDef{Name: "ToSliceFlatten", GenP: noP, Flags: Flags{Stores: true}, Build: func(e *Env, aux []ro.Observable[int], p []int) func(ro.Observable[int]) ro.Observable[int] {
		return func(src ro.Observable[int]) ro.Observable[int] {
			return ro.Flatten[int]()(ro.ToSlice[int]()(src))
		}
	}})
	// ---------------- hot
	reg(&StageDef{Name: "Share", GenP: noP, Flags: Flags{Hot: true}, Build: func(e *Env, aux []ro.Observable[int], p []int) func(ro.Observable[int]) ro.Observable[int] {
		return ro.Share[int]()
	}})
}

// Multi-source combinators: []Observable[int] -> Observable[int].
type CombDef struct {
	Name  string
	Min   int
	Max   int
	Build func(e *Env, srcs []ro.Observable[int]) ro.Observable[int]
	Flags
}

// Apply builds the combination from a slice of the caller's that has spare capacity (as a slice that was
// appended to has) and checks that building it left the caller's slice alone, spare capacity included.
func (c *CombDef) Apply(e *Env, srcs []ro.Observable[int]) ro.Observable[int] {
	args := make([]ro.Observable[int], len(srcs), len(srcs)+3)
	copy(args, srcs)
	o := c.Build(e, args)
	full := args[:cap(args)]
	for i := range full {
		var want ro.Observable[int]
		if i < len(srcs) {
			want = srcs[i]
		}
		if full[i] != want {
			msg := fmt.Sprintf("%s: building the operator modified the slice of observables the caller passed (index %d of %d, capacity %d)", c.Name, i, len(srcs), cap(args))
			e.Violate("C05", "arguments-modified:"+c.Name, msg)
			e.Violate("C12", "arguments-modified:"+c.Name, msg)
			break
		}
	}
	return o
}

var combs = map[string]*CombDef{}
var combOrder []string

func regc(c *CombDef) { combs[c.Name] = c; combOrder = append(combOrder, c.Name) }

func t2i(t lo.Tuple2[int, int]) int      { return t.A*100 + t.B }
func t3i(t lo.Tuple3[int, int, int]) int { return t.A*10000 + t.B*100 + t.C }
func sl2i(s []int) int {
	v := 0
	for _, x := range s {
		v = v*100 + x
	}
	return v
}

// asyncOuter emits the given observables one by one from a producer goroutine of its own, then completes.
func asyncOuter(e *Env, srcs []ro.Observable[int]) ro.Observable[ro.Observable[int]] {
	var script []Step
	for i := range srcs {
		script = append(script, Step{K: "N", V: i})
	}
	script = append(script, Step{K: "C"})
	outer := e.NewSrc(SrcSpec{Mode: "async", Script: script})
	return ro.Map(func(i int) ro.Observable[int] { return srcs[i] })(outer.Obs())
}

func obsOfObs(srcs []ro.Observable[int]) ro.Observable[ro.Observable[int]] {
	return ro.Just(srcs...)
}

func init() {
	regc(&CombDef{Name: "Merge", Min: 2, Max: 4, Build: func(e *Env, s []ro.Observable[int]) ro.Observable[int] { return ro.Merge(s...) }})
	regc(&CombDef{Name: "MergeAll", Min: 2, Max: 3, Build: func(e *Env, s []ro.Observable[int]) ro.Observable[int] { return ro.MergeAll[int]()(obsOfObs(s)) }})
	regc(&CombDef{Name: "MergeWith", Min: 2, Max: 3, Build: func(e *Env, s []ro.Observable[int]) ro.Observable[int] { return ro.MergeWith(s[1:]...)(s[0]) }})
	regc(&CombDef{Name: "Concat", Min: 2, Max: 3, Flags: Flags{Waits: true}, Build: func(e *Env, s []ro.Observable[int]) ro.Observable[int] { return ro.Concat(s...) }})
	regc(&CombDef{Name: "ConcatAll", Min: 2, Max: 3, Flags: Flags{Waits: true}, Build: func(e *Env, s []ro.Observable[int]) ro.Observable[int] { return ro.ConcatAll[int]()(obsOfObs(s)) }})
	regc(&CombDef{Name: "Race", Min: 2, Max: 3, Build: func(e *Env, s []ro.Observable[int]) ro.Observable[int] { return ro.Race(s...) }})
	regc(&CombDef{Name: "Amb", Min: 2, Max: 3, Build: func(e *Env, s []ro.Observable[int]) ro.Observable[int] { return ro.Amb(s...) }})
	regc(&CombDef{Name: "CombineLatest2", Min: 2, Max: 2, Build: func(e *Env, s []ro.Observable[int]) ro.Observable[int] {
		return ro.Map(t2i)(ro.CombineLatest2(s[0], s[1]))
	}})
	regc(&CombDef{Name: "CombineLatest3", Min: 3, Max: 3, Build: func(e *Env, s []ro.Observable[int]) ro.Observable[int] {
		return ro.Map(t3i)(ro.CombineLatest3(s[0], s[1], s[2]))
	}})
	regc(&CombDef{Name: "CombineLatestAll", Min: 2, Max: 3, Build: func(e *Env, s []ro.Observable[int]) ro.Observable[int] {
		return ro.Map(sl2i)(ro.CombineLatestAll[int]()(obsOfObs(s)))
	}})
	// the interface-typed instantiation: consecutive values of one source differ in dynamic type, one value
	// is the nil interface
	regc(&CombDef{Name: "CombineLatestAny", Min: 2, Max: 3, Build: func(e *Env, s []ro.Observable[int]) ro.Observable[int] {
		enc := ro.Map(func(x int) any {
			switch {
			case x%10 == 2:
				return nil
			case x%3 == 0:
				return int64(x)
			case x%3 == 1:
				return strconv.Itoa(x)
			}
			return x
		})
		anys := make([]ro.Observable[any], len(s))
		for i := range s {
			anys[i] = enc(s[i])
		}
		dec := ro.Map(func(a []any) []int {
			v := make([]int, len(a))
			for i := range a {
				switch t := a[i].(type) {
				case int64:
					v[i] = int(t)
				case string:
					v[i], _ = strconv.Atoi(t)
				case int:
					v[i] = t
				case nil:
					v[i] = -2 // decoded below from the position's source: the only value ending in 2
				}
			}
			return v
		})
		return ro.Map(func(v []int) int {
			for i := range v {
				if v[i] == -2 {
					v[i] = 10*(i+1) + 2
				}
			}
			return sl2i(v)
		})(dec(ro.CombineLatestAny(anys...)))
	}})
	regc(&CombDef{Name: "Zip2", Min: 2, Max: 2, Build: func(e *Env, s []ro.Observable[int]) ro.Observable[int] {
		return ro.Map(t2i)(ro.Zip2(s[0], s[1]))
	}})
	regc(&CombDef{Name: "Zip3", Min: 3, Max: 3, Build: func(e *Env, s []ro.Observable[int]) ro.Observable[int] {
		return ro.Map(t3i)(ro.Zip3(s[0], s[1], s[2]))
	}})
	regc(&CombDef{Name: "Zip", Min: 2, Max: 3, Build: func(e *Env, s []ro.Observable[int]) ro.Observable[int] {
		return ro.Map(sl2i)(ro.Zip(s...))
	}})
	regc(&CombDef{Name: "ZipAll", Min: 2, Max: 3, Build: func(e *Env, s []ro.Observable[int]) ro.Observable[int] {
		return ro.Map(sl2i)(ro.ZipAll[int]()(obsOfObs(s)))
	}})
	// the fixed-arity forms are separate implementations in the library (ZipWith3..5, CombineLatestWith3..4)
	regc(&CombDef{Name: "Zip4", Min: 4, Max: 4, Build: func(e *Env, s []ro.Observable[int]) ro.Observable[int] {
		return ro.Map(func(t lo.Tuple4[int, int, int, int]) int { return sl2i([]int{t.A, t.B, t.C, t.D}) })(ro.Zip4(s[0], s[1], s[2], s[3]))
	}})
	regc(&CombDef{Name: "Zip5", Min: 5, Max: 5, Build: func(e *Env, s []ro.Observable[int]) ro.Observable[int] {
		return ro.Map(func(t lo.Tuple5[int, int, int, int, int]) int { return sl2i([]int{t.A, t.B, t.C, t.D, t.E}) })(ro.Zip5(s[0], s[1], s[2], s[3], s[4]))
	}})
	regc(&CombDef{Name: "Zip6", Min: 6, Max: 6, Build: func(e *Env, s []ro.Observable[int]) ro.Observable[int] {
		return ro.Map(func(t lo.Tuple6[int, int, int, int, int, int]) int { return sl2i([]int{t.A, t.B, t.C, t.D, t.E, t.F}) })(ro.Zip6(s[0], s[1], s[2], s[3], s[4], s[5]))
	}})
	regc(&CombDef{Name: "CombineLatest4", Min: 4, Max: 4, Build: func(e *Env, s []ro.Observable[int]) ro.Observable[int] {
		return ro.Map(func(t lo.Tuple4[int, int, int, int]) int { return sl2i([]int{t.A, t.B, t.C, t.D}) })(ro.CombineLatest4(s[0], s[1], s[2], s[3]))
	}})
	regc(&CombDef{Name: "CombineLatest5", Min: 5, Max: 5, Build: func(e *Env, s []ro.Observable[int]) ro.Observable[int] {
		return ro.Map(func(t lo.Tuple5[int, int, int, int, int]) int { return sl2i([]int{t.A, t.B, t.C, t.D, t.E}) })(ro.CombineLatest5(s[0], s[1], s[2], s[3], s[4]))
	}})
	regc(&CombDef{Name: "MergeWith3", Min: 4, Max: 4, Build: func(e *Env, s []ro.Observable[int]) ro.Observable[int] { return ro.MergeWith3(s[1], s[2], s[3])(s[0]) }})
	regc(&CombDef{Name: "RaceWith", Min: 2, Max: 3, Build: func(e *Env, s []ro.Observable[int]) ro.Observable[int] { return ro.RaceWith(s[1:]...)(s[0]) }})
	regc(&CombDef{Name: "ConcatWith", Min: 2, Max: 3, Flags: Flags{Waits: true}, Build: func(e *Env, s []ro.Observable[int]) ro.Observable[int] { return ro.ConcatWith(s[1:]...)(s[0]) }})
	// higher-order operators over an outer source that delivers the inner observables from its own goroutine,
	// after Subscribe has returned (the *All operators over Just(...) see them all synchronously)
	regc(&CombDef{Name: "MergeAllAsync", Min: 2, Max: 3, Build: func(e *Env, s []ro.Observable[int]) ro.Observable[int] { return ro.MergeAll[int]()(asyncOuter(e, s)) }})
	regc(&CombDef{Name: "ConcatAllAsync", Min: 2, Max: 3, Flags: Flags{Waits: true}, Build: func(e *Env, s []ro.Observable[int]) ro.Observable[int] { return ro.ConcatAll[int]()(asyncOuter(e, s)) }})
	regc(&CombDef{Name: "ZipAllAsync", Min: 2, Max: 3, Build: func(e *Env, s []ro.Observable[int]) ro.Observable[int] {
		return ro.Map(sl2i)(ro.ZipAll[int]()(asyncOuter(e, s)))
	}})
	regc(&CombDef{Name: "CombineLatestAllAsync", Min: 2, Max: 3, Build: func(e *Env, s []ro.Observable[int]) ro.Observable[int] {
		return ro.Map(sl2i)(ro.CombineLatestAll[int]()(asyncOuter(e, s)))
	}})
	regc(&CombDef{Name: "TakeUntil", Min: 2, Max: 2, Build: func(e *Env, s []ro.Observable[int]) ro.Observable[int] { return ro.TakeUntil[int](s[1])(s[0]) }})
	regc(&CombDef{Name: "SkipUntil", Min: 2, Max: 2, Build: func(e *Env, s []ro.Observable[int]) ro.Observable[int] { return ro.SkipUntil[int](s[1])(s[0]) }})
	regc(&CombDef{Name: "BufferWhen", Min: 2, Max: 2, Build: func(e *Env, s []ro.Observable[int]) ro.Observable[int] {
		// the consumer owns the buffers it is handed: it may append to them, at once or later (a trailer
		// added to the previous batch when the next one arrives), writing into their spare capacity
		var prev []int
		own := ro.Map(func(b []int) []int {
			if prev != nil {
				_ = append(prev, -9)
			}
			_ = append(b, -7)
			prev = b
			return b
		})
		return ro.Flatten[int]()(own(ro.BufferWhen[int](s[1])(s[0])))
	}})
	regc(&CombDef{Name: "WindowWhen", Min: 2, Max: 2, Build: func(e *Env, s []ro.Observable[int]) ro.Observable[int] {
		return ro.MergeAll[int]()(ro.WindowWhen[int](s[1])(s[0]))
	}})
	regc(&CombDef{Name: "SampleWhen", Min: 2, Max: 2, Build: func(e *Env, s []ro.Observable[int]) ro.Observable[int] { return ro.SampleWhen[int](s[1])(s[0]) }})
	regc(&CombDef{Name: "ThrottleWhen", Min: 2, Max: 2, Build: func(e *Env, s []ro.Observable[int]) ro.Observable[int] { return ro.ThrottleWhen[int](s[1])(s[0]) }})
	regc(&CombDef{Name: "MergeMapSrc", Min: 2, Max: 3, Build: func(e *Env, s []ro.Observable[int]) ro.Observable[int] {
		idx := make([]int, len(s))
		for i := range idx {
			idx[i] = i
		}
		return ro.MergeMap(func(i int) ro.Observable[int] { return s[i] })(ro.Just(idx...))
	}})
}

// BuildChain applies the scenario's stages to src.
func (e *Env) BuildChain(src ro.Observable[int], stages []StageSpec, auxOf func(i int) ro.Observable[int]) ro.Observable[int] {
	cur := src
	for _, st := range stages {
		d := catalog[st.Op]
		if d == nil {
			panic("unknown stage " + st.Op)
		}
		var aux []ro.Observable[int]
		for i := 0; i < d.Aux; i++ {
			aux = append(aux, auxOf(pi(st.P, i, 1)))
		}
		var p []int
		if len(st.P) > d.Aux {
			p = st.P[d.Aux:]
		}
		cur = d.Build(e, aux, p)(cur)
	}
	return cur
}
