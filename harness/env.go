// Package roverif is the simulation harness: vocabulary (scripted sources, recording observers),
// scenario families per property, oracles, replay and minimisation.
package roverif

import (
	"context"
	"errors"
	"fmt"
	"sort"
	"strings"
	"sync/atomic"
	"time"

	"github.com/samber/ro"

	"rosim/simrt"
)

// Unit of simulated time used by scenarios.
const Unit = 10 * time.Millisecond

// Step of a producer script.
type Step struct {
	K   string `json:"k"`             // "N" next, "E" error, "C" complete
	V   int    `json:"v,omitempty"`   // value (N) or error code (E)
	Gap int    `json:"gap,omitempty"` // simulated delay before the step, in Units (timed sources)
}

// SrcSpec describes one scripted source.
type SrcSpec struct {
	Mode string `json:"mode"`           // "sync" | "async" | "timed" | "hot"
	Ctor string `json:"ctor,omitempty"` // "unsafe" (default) | "safe" | "default" | "eventually"
	// CtorAPI: which of the equivalent constructor functions builds the source: 0 the ...WithContext one,
	// 1 the plain one (subscribe function without a context: the source emits with context.Background()),
	// 2 NewObservableWithConcurrencyMode, 3 not a library constructor at all (foreignObservable)
	CtorAPI int `json:"ctor_api,omitempty"`
	// TermFirst: with several producers only producer 0 issues the script's terminal notification; the
	// others emit the values only (so the one terminal call can collide with somebody else's Next)
	TermFirst bool `json:"term_first,omitempty"`
	// PanicAfterSpawn: an asynchronous source whose subscribe function panics right after it has started its
	// producer goroutines (the failure report of Subscribe then races with their emissions)
	PanicAfterSpawn bool `json:"panic_after_spawn,omitempty"`
	// Subject: kind of subject behind a hot source ("" = publish; see subjectKinds), SubjectBuf its buffer size
	Subject    string `json:"subject,omitempty"`
	SubjectBuf int    `json:"subject_buf,omitempty"`
	Script     []Step `json:"script"`
	// Producers > 1: that many goroutines replay the script concurrently into the same destination
	// (contract-breaking producer; only meaningful for safe constructors and subjects).
	Producers int `json:"producers,omitempty"`
}

// StageSpec names a catalogue operator and its parameters.
type StageSpec struct {
	Op string `json:"op"`
	P  []int  `json:"p,omitempty"`
}

// FaultSpec is one injected fault.
type FaultSpec struct {
	Kind string `json:"kind"`           // family specific
	Site string `json:"site,omitempty"` // callback site (C07)
	Pos  int    `json:"pos,omitempty"`  // callback position / step index
	Inv  int    `json:"inv,omitempty"`  // invocation index
	Arg  int    `json:"arg,omitempty"`
}

// Scn is the explicit, self-contained description of one scenario (what a replay file stores).
type Scn struct {
	Family  string         `json:"family"`
	Sub     string         `json:"sub,omitempty"` // sub-mode within the family
	Sources []SrcSpec      `json:"sources,omitempty"`
	Stages  []StageSpec    `json:"stages,omitempty"`
	Faults  []FaultSpec    `json:"faults,omitempty"`
	Ints    map[string]int `json:"ints,omitempty"`
	Ops     []OpSpec       `json:"ops,omitempty"` // operation sequences (subjects, share)
}

// OpSpec is one operation of an operation-sequence scenario.
type OpSpec struct {
	Client int    `json:"c"`
	Op     string `json:"op"`
	A      int    `json:"a,omitempty"`
	B      int    `json:"b,omitempty"`
}

func (s *Scn) Int(name string, def int) int {
	if v, ok := s.Ints[name]; ok {
		return v
	}
	return def
}

func (s *Scn) SetInt(name string, v int) {
	if s.Ints == nil {
		s.Ints = map[string]int{}
	}
	s.Ints[name] = v
}

// Class is the scenario class used in fingerprints and distinctness counts.
func (s *Scn) Class() string {
	var ops []string
	for _, st := range s.Stages {
		ops = append(ops, st.Op)
	}
	var modes []string
	for _, src := range s.Sources {
		m := src.Mode
		if src.Subject != "" {
			m += ":" + src.Subject
		}
		modes = append(modes, m)
	}
	return fmt.Sprintf("%s/%s|ops=%s|src=%s", s.Family, s.Sub, strings.Join(ops, ">"), strings.Join(modes, ","))
}

// SchedSpec is the schedule half of a replay file.
type SchedSpec struct {
	Strategy     string  `json:"strategy"` // rw | pct | starve | replay
	P            float64 `json:"p,omitempty"`
	D            int     `json:"d,omitempty"`
	Victim       int     `json:"victim,omitempty"`
	Seed         uint64  `json:"seed"`
	YieldAtomics bool    `json:"yield_atomics"`
	MapPermute   bool    `json:"map_permute"`
	Stall        bool    `json:"stall"`
	Decisions    []int   `json:"decisions,omitempty"`
	MaxSteps     int     `json:"max_steps,omitempty"`
}

// Violation found by an oracle.
type Violation struct {
	Prop   string `json:"prop"`
	FP     string `json:"fp"`     // fingerprint: property | scenario class | clause
	Clause string `json:"clause"` // violated clause
	Msg    string `json:"msg"`
}

// Env is the per-run environment handed to a family's Run function (which executes as the driver actor).
type Env struct {
	K     *simrt.Kernel
	Sc    *Scn
	Viols []Violation

	Dropped   []string
	Unhandled []string

	Probes map[string]int    // reach probes ("this rare condition was hit")
	Out    map[string]string // family-specific results of the run (used by ExpandRun)

	calls              map[string]int
	callOrder          []string
	CallLog            []CallRec
	evCount            func() int
	firedFaults        int
	faultBefore        int
	firstFault         *FaultSpec
	faultsOff          bool
	unterminated       bool
	Sites              []string
	finalized          int
	held               []heldSlice // slices delivered to the harness and kept by reference (Hold / CheckHeld)
	after              []func()    // see After
	expectHarnessPanic bool
	srcs               []*Src
	recs               []*Rec
	nextID             int
	notes              []string
}

func newEnv(k *simrt.Kernel, sc *Scn) *Env {
	return &Env{K: k, Sc: sc, Probes: map[string]int{}, calls: map[string]int{}, Out: map[string]string{}}
}

// CallRec is one invocation of a user-supplied callback (numbered per site).
type CallRec struct {
	Site   string
	Inv    int
	Before int // observer events delivered before this invocation began
}

// Violate records a violation of prop, clause (stable short name) with details.
func (e *Env) Violate(prop, clause, msg string) {
	fp := prop + "|" + e.Sc.Class() + "|" + clause
	for _, v := range e.Viols {
		if v.FP == fp {
			return
		}
	}
	e.Viols = append(e.Viols, Violation{Prop: prop, FP: fp, Clause: clause, Msg: msg})
	e.K.Log("VIOLATION " + fp)
}

func (e *Env) Probe(name string) { e.Probes[name]++ }

// After registers work to be done once the simulated run is over, outside the synctest bubble: real-time
// bounded computations (porcupine's timeout is a timer: inside the bubble it would never fire while the
// checker's goroutines are busy). The function may call Violate and Probe.
func (e *Env) After(f func()) { e.after = append(e.after, f) }

func (e *Env) Note(s string) { e.notes = append(e.notes, s) }

// Yield is a user-level scheduling point (inside harness callbacks).
func (e *Env) Yield() { simrt.Yield(simrt.KUser, 0) }

// Step returns the global logical clock.
func (e *Env) Step() int { return e.K.Steps() }

// Settle runs everybody else to quiescence without advancing the clock.
func (e *Env) Settle() { e.K.Settle(e.K.Now()) }

// SettleFor runs to quiescence letting the clock advance by at most d.
func (e *Env) SettleFor(d time.Duration) { e.K.Settle(e.K.Now() + d) }

// Go starts a harness actor.
func (e *Env) Go(name string, f func()) *simrt.Actor { return simrt.GoHarness(name, f) }

func (e *Env) installHooks() func() {
	oldU, oldD := ro.OnUnhandledError, ro.OnDroppedNotification
	ro.OnUnhandledError = func(ctx context.Context, err error) {
		e.Unhandled = append(e.Unhandled, fmt.Sprint(err))
		if simrt.Active() {
			e.K.Log("unhandled " + fmt.Sprint(err))
		}
	}
	ro.OnDroppedNotification = func(ctx context.Context, n fmt.Stringer) {
		// only int notifications are rendered: String() on a notification that carries an observable
		// (windows, groups) would walk the subject's internals with reflection, racing with the library
		txt := fmt.Sprintf("%T", n)
		if ni, ok := n.(ro.Notification[int]); ok {
			txt = ni.String()
		}
		e.Dropped = append(e.Dropped, txt)
		if simrt.Active() {
			e.K.Log("dropped " + txt)
		}
	}
	return func() { ro.OnUnhandledError, ro.OnDroppedNotification = oldU, oldD }
}

// ---------------------------------------------------------------------------------------------
// errors used by scripts

type scriptErr struct{ code int }

func (e *scriptErr) Error() string { return fmt.Sprintf("script-error-%d", e.code) }

// Two codes are failures of the source that wrap a context error of the source's own making (a request of
// its own that timed out or was cancelled): errors.Is(err, context.DeadlineExceeded / context.Canceled)
// holds although the subscription context is alive. They are ordinary source errors to every operator.
const (
	WrapsDeadline = 126
	WrapsCanceled = 125
)

func (e *scriptErr) Unwrap() error {
	switch e.code {
	case WrapsDeadline:
		return context.DeadlineExceeded
	case WrapsCanceled:
		return context.Canceled
	}
	return nil
}

var errTable = func() []*scriptErr {
	t := make([]*scriptErr, 128)
	for i := range t {
		t[i] = &scriptErr{i}
	}
	return t
}()

// ScriptError returns the (stable) error value for a code.
// Code 127 (NilError) is the nil error: Error(nil) is a legal terminal notification.
func ScriptError(code int) error {
	if code&127 == NilError {
		return nil
	}
	return errTable[code&127]
}

const NilError = 127

func errCode(err error) string {
	var se *scriptErr
	if errors.As(err, &se) {
		return fmt.Sprintf("e%d", se.code)
	}
	if err == nil {
		return "nil"
	}
	return "x:" + err.Error()
}

// ---------------------------------------------------------------------------------------------
// Recording observer

// Ev is one recorded callback.
type Ev struct {
	K      byte // 'N','E','C'
	V      int
	Err    error
	Enter  int // logical step at entry
	Exit   int
	T      time.Duration
	Actor  int
	CtxNil bool
	Ctx    context.Context
	Snap   string // deep snapshot for non-int payloads
}

func (ev Ev) String() string {
	switch ev.K {
	case 'N':
		return fmt.Sprintf("N%d", ev.V)
	case 'E':
		return "E(" + errCode(ev.Err) + ")"
	default:
		return "C"
	}
}

// Rec records everything an observer sees.
type Rec struct {
	env         *Env
	Name        string
	Events      []Ev
	inside      int
	MaxInside   int
	YieldInside bool
	Overlap     []string
	OnNextHook  func(r *Rec, v int) // runs inside the callback after recording (may unsubscribe, panic…)
	OnTermHook  func(r *Rec, k byte)
}

func (e *Env) NewRec(name string) *Rec {
	r := &Rec{env: e, Name: name, YieldInside: true}
	e.recs = append(e.recs, r)
	return r
}

func (r *Rec) enter(k byte, v int, err error, ctx context.Context) int {
	r.inside++
	if r.inside > r.MaxInside {
		r.MaxInside = r.inside
	}
	if r.inside > 1 {
		r.Overlap = append(r.Overlap, fmt.Sprintf("%c%d entered at step %d by a%d while another callback was inside", k, v, r.env.Step(), r.env.K.Cur().ID))
	}
	ev := Ev{K: k, V: v, Err: err, Enter: r.env.Step(), T: r.env.K.Now(), Actor: r.env.K.Cur().ID, CtxNil: ctx == nil, Ctx: ctx}
	r.Events = append(r.Events, ev)
	idx := len(r.Events) - 1
	r.env.K.Log(fmt.Sprintf("obs %s %s", r.Name, ev.String()))
	return idx
}

func (r *Rec) exit(idx int) {
	r.Events[idx].Exit = r.env.Step()
	r.inside--
}

// Observer returns the ro observer feeding this recorder.
func (r *Rec) Observer() ro.Observer[int] {
	return ro.NewObserverWithContext(
		func(ctx context.Context, v int) {
			idx := r.enter('N', v, nil, ctx)
			defer r.exit(idx)
			if r.YieldInside {
				r.env.Yield()
			}
			if r.OnNextHook != nil {
				r.OnNextHook(r, v)
			}
		},
		func(ctx context.Context, err error) {
			idx := r.enter('E', 0, err, ctx)
			defer r.exit(idx)
			if r.YieldInside {
				r.env.Yield()
			}
			if r.OnTermHook != nil {
				r.OnTermHook(r, 'E')
			}
		},
		func(ctx context.Context) {
			idx := r.enter('C', 0, nil, ctx)
			defer r.exit(idx)
			if r.YieldInside {
				r.env.Yield()
			}
			if r.OnTermHook != nil {
				r.OnTermHook(r, 'C')
			}
		},
	)
}

// rawObserver is a user-implemented ro.Observer: it records everything it is handed and protects
// itself against nothing (an observer built with ro.NewObserver drops notifications after its own
// terminal, which would hide a subscriber or operator that delivers them).
type rawObserver struct{ r *Rec }

func (o rawObserver) Next(v int) { o.NextWithContext(context.Background(), v) }
func (o rawObserver) NextWithContext(ctx context.Context, v int) {
	r := o.r
	idx := r.enter('N', v, nil, ctx)
	defer r.exit(idx)
	if r.YieldInside {
		r.env.Yield()
	}
	if r.OnNextHook != nil {
		r.OnNextHook(r, v)
	}
}
func (o rawObserver) Error(err error) { o.ErrorWithContext(context.Background(), err) }
func (o rawObserver) ErrorWithContext(ctx context.Context, err error) {
	r := o.r
	idx := r.enter('E', 0, err, ctx)
	defer r.exit(idx)
	if r.YieldInside {
		r.env.Yield()
	}
	if r.OnTermHook != nil {
		r.OnTermHook(r, 'E')
	}
}
func (o rawObserver) Complete() { o.CompleteWithContext(context.Background()) }
func (o rawObserver) CompleteWithContext(ctx context.Context) {
	r := o.r
	idx := r.enter('C', 0, nil, ctx)
	defer r.exit(idx)
	if r.YieldInside {
		r.env.Yield()
	}
	if r.OnTermHook != nil {
		r.OnTermHook(r, 'C')
	}
}
func (o rawObserver) IsClosed() bool    { return o.r.Terminal() != 0 }
func (o rawObserver) HasThrown() bool   { return o.r.Terminal() == 'E' }
func (o rawObserver) IsCompleted() bool { return o.r.Terminal() == 'C' }

// RawObserver returns a user-implemented observer (no self-protection) feeding this recorder.
func (r *Rec) RawObserver() ro.Observer[int] { return rawObserver{r} }

// Obs returns the observer flavour the scenario asks for (Ints["raw"]: 0 ro.NewObserver, 1 user-implemented,
// 2/3 a Subscriber made by the caller).
func (r *Rec) Obs() ro.Observer[int] {
	switch r.env.Sc.Int("raw", 0) {
	case 1:
		return r.RawObserver()
	case 2:
		// the caller hands over a Subscriber of its own: the library uses it as it is (or wraps it when
		// it needs a stronger concurrency mode)
		return ro.NewUnsafeSubscriber(r.Observer())
	case 3:
		return ro.NewSafeSubscriber(r.Observer())
	}
	return r.Observer()
}

// Trace renders the recorded sequence, e.g. "N1 N2 C".
func (r *Rec) Trace() string {
	parts := make([]string, len(r.Events))
	for i, ev := range r.Events {
		parts[i] = ev.String()
	}
	return strings.Join(parts, " ")
}

// Values returns the delivered values.
func (r *Rec) Values() []int {
	var out []int
	for _, ev := range r.Events {
		if ev.K == 'N' {
			out = append(out, ev.V)
		}
	}
	return out
}

// Terminal returns 0, 'E' or 'C' (the first terminal seen).
func (r *Rec) Terminal() byte {
	for _, ev := range r.Events {
		if ev.K != 'N' {
			return ev.K
		}
	}
	return 0
}

// GrammarError checks Next* (Error|Complete)? and returns a description or "".
func (r *Rec) GrammarError() string {
	term := -1
	for i, ev := range r.Events {
		if term >= 0 {
			return fmt.Sprintf("%s delivered after terminal %s (trace: %s)", ev.String(), r.Events[term].String(), r.Trace())
		}
		if ev.K != 'N' {
			term = i
		}
	}
	return ""
}

// ---------------------------------------------------------------------------------------------
// Scripted source

// Src is an instrumented scripted source.
type Src struct {
	env  *Env
	ID   int
	Spec SrcSpec

	Subs             int
	Live             int
	MaxLive          int
	Teardowns        int
	TeardownAt       []int
	SubAt            []int
	EmitAfterRelease int
	DoubleTeardown   int
	PanicTeardown    bool // the teardown panics after doing its bookkeeping
	MaxLiveStrict    int  // like MaxLive, not counting subscriptions whose own terminal call is in progress
	NilCtx           int
	Ctxs             []context.Context
	Done             int // producers that finished their script
	// per subscription
	subs      []*srcSub
	manual    []manualSub
	manualPub uint32
	// multi-attempt: script for the n-th subscription (overrides Spec.Script)
	Attempts [][]Step
	// hot: the subject
	Subject ro.Subject[int]
	// Calls made by producers: for the late-notification oracle
	Calls []ProdCall
	// AfterCall runs on the producer's actor right after each call returned
	AfterCall func(c *ProdCall)
	// BeforeCall runs on the producer's actor right before each call into the library
	BeforeCall func(st Step)
	// SubHook runs at the start of the n-th subscription (inside the subscribe function)
	SubHook func(n int)
	// ScriptPick, when set, chooses the script of a subscription from the context it was made with
	// (nil result: the usual choice)
	ScriptPick func(ctx context.Context, n int) []Step
}

// ProdCall is one producer-side call into the library.
type ProdCall struct {
	Actor     int
	Src, Prod int
	Step      Step
	Invoke    int
	Return    int
	Panic     interface{}
}

type manualSub struct {
	dest ro.Observer[int]
	ctx  context.Context
	sub  *srcSub
}

// Push delivers one notification to every live subscription of a manual source (on the caller's actor).
// It reports how many subscriptions received it.
func (s *Src) Push(st Step) int {
	atomic.LoadUint32(&s.manualPub)
	n := 0
	for _, m := range s.manual {
		if m.sub.released {
			continue
		}
		n++
		if st.K != "N" {
			m.sub.terminating = true
		}
		s.emit(m.dest, m.ctx, 0, st)
	}
	if n == 0 {
		s.env.K.Log(fmt.Sprintf("src%d push %s%d: nobody subscribed", s.ID, st.K, st.V))
	}
	return n
}

type srcSub struct {
	terminating bool // the producer's own terminal call is in progress (the subscription is ending)
	released    bool
	relStep     int
	teardowns   int
}

func (e *Env) NewSrc(spec SrcSpec) *Src {
	s := &Src{env: e, ID: len(e.srcs), Spec: spec}
	e.srcs = append(e.srcs, s)
	return s
}

func (s *Src) emit(dest ro.Observer[int], ctx context.Context, prod int, st Step) {
	if s.BeforeCall != nil {
		s.BeforeCall(st)
	}
	c := ProdCall{Src: s.ID, Prod: prod, Step: st, Invoke: s.env.Step(), Actor: s.env.K.Cur().ID}
	idx := len(s.Calls)
	s.Calls = append(s.Calls, c)
	s.env.K.Log(fmt.Sprintf("src%d.%d call %s%d", s.ID, prod, st.K, st.V))
	func() {
		defer func() {
			if r := recover(); r != nil {
				s.Calls[idx].Panic = r
				s.env.K.Log(fmt.Sprintf("src%d call panicked: %v", s.ID, r))
			}
		}()
		switch st.K {
		case "N":
			dest.NextWithContext(ctx, st.V)
		case "E":
			dest.ErrorWithContext(ctx, ScriptError(st.V))
		case "C":
			dest.CompleteWithContext(ctx)
		}
	}()
	s.Calls[idx].Return = s.env.Step()
	if s.AfterCall != nil {
		s.AfterCall(&s.Calls[idx])
	}
}

func (s *Src) play(dest ro.Observer[int], ctx context.Context, sub *srcSub, prod int, script []Step, timed bool, stopOnRelease bool) {
	for _, st := range script {
		if timed && st.Gap > 0 {
			simSleep(time.Duration(st.Gap) * Unit)
		} else {
			s.env.Yield()
		}
		if sub.released {
			if stopOnRelease {
				return
			}
			s.EmitAfterRelease++
		}
		if s.Spec.TermFirst && prod > 0 && st.K != "N" {
			continue
		}
		if st.K == "P" {
			// the subscribe function itself panics at this point (synchronous sources only: the panic
			// must unwind into the library's Subscribe, not into a harness goroutine)
			if s.Spec.Mode != "sync" {
				continue
			}
			s.env.K.Log(fmt.Sprintf("src%d subscribe function panics", s.ID))
			panic(ScriptError(st.V))
		}
		if s.Spec.Producers > 1 && st.K == "N" {
			st.V += 1000 * prod // values stay attributable to one producer call
		}
		if st.K != "N" {
			sub.terminating = true
		}
		s.emit(dest, ctx, prod, st)
	}
}

func (s *Src) scriptFor(n int) []Step {
	if len(s.Attempts) > 0 {
		if n < len(s.Attempts) {
			return s.Attempts[n]
		}
		return s.Attempts[len(s.Attempts)-1]
	}
	return s.Spec.Script
}

// Obs builds the observable (cold modes) or returns the subject (hot).
func (s *Src) Obs() ro.Observable[int] {
	if s.Spec.Mode == "hot" {
		if s.Subject == nil {
			s.Subject = newSubject(s.Spec.Subject, s.Spec.SubjectBuf)
		}
		return s.Subject
	}
	fn := func(ctx context.Context, dest ro.Observer[int]) ro.Teardown {
		n := s.Subs
		s.Subs++
		s.Live++
		if s.Live > s.MaxLive {
			s.MaxLive = s.Live
		}
		s.SubAt = append(s.SubAt, s.env.Step())
		strict := 1
		for _, old := range s.subs {
			if !old.released && !old.terminating {
				strict++
			}
		}
		if strict > s.MaxLiveStrict {
			s.MaxLiveStrict = strict
		}
		if ctx == nil {
			s.NilCtx++
		}
		s.Ctxs = append(s.Ctxs, ctx)
		sub := &srcSub{}
		s.subs = append(s.subs, sub)
		s.env.K.Log(fmt.Sprintf("src%d subscribe #%d", s.ID, n))
		if s.SubHook != nil {
			s.SubHook(n)
		}
		if ns := len(s.env.Sc.Sources); ns > 0 && s.ID%ns == 0 {
			s.env.Call("src.subscribe") // the subscribe function is user code too (C07)
		}
		script := s.scriptFor(n)
		if s.ScriptPick != nil {
			if alt := s.ScriptPick(ctx, n); alt != nil {
				script = alt
			}
		}
		prods := s.Spec.Producers
		if prods < 1 {
			prods = 1
		}
		switch s.Spec.Mode {
		case "sync":
			s.play(dest, ctx, sub, 0, script, false, false)
			s.Done++
		case "syncpoll":
			// a synchronous producer that emits until its observer reports closed (the only way a producer
			// that is still inside its subscribe function can learn that nobody listens any more)
			for i := 0; i < 300 && !dest.IsClosed(); i++ {
				s.emit(dest, ctx, 0, Step{K: "N", V: i})
			}
			s.Done++
		case "endless":
			gap := 1
			if len(script) > 0 && script[0].Gap > 0 {
				gap = script[0].Gap
			}
			s.env.Go(fmt.Sprintf("src%d.endless", s.ID), func() {
				for i := 0; ; i++ {
					simSleep(time.Duration(gap) * Unit)
					if sub.released {
						return
					}
					s.emit(dest, ctx, 0, Step{K: "N", V: i})
					if sub.released {
						return
					}
				}
			})
		case "manual":
			// the scenario pushes notifications explicitly (Src.Push); subscribing plays nothing
			s.manual = append(s.manual, manualSub{dest: dest, ctx: ctx, sub: sub})
			atomic.AddUint32(&s.manualPub, 1) // a real hot source publishes its observer list under synchronisation
		case "never":
			// subscribes and stays silent
		case "async", "timed":
			timed := s.Spec.Mode == "timed"
			for p := 0; p < prods; p++ {
				p := p
				s.env.Go(fmt.Sprintf("src%d.prod%d", s.ID, p), func() {
					s.play(dest, ctx, sub, p, script, timed, true)
					s.Done++
				})
			}
			if s.Spec.PanicAfterSpawn {
				s.env.Yield()
				s.env.K.Log(fmt.Sprintf("src%d subscribe function panics after starting its producers", s.ID))
				panic(ScriptError(7))
			}
		default:
			panic("unknown source mode " + s.Spec.Mode)
		}
		return func() {
			if s.PanicTeardown {
				defer func() { panic(ScriptError(85)) }()
			}
			if ns := len(s.env.Sc.Sources); ns > 0 && s.ID%ns == 0 && s.Spec.Mode == "sync" && strings.HasPrefix(s.env.Sc.Family, "C07.") {
				// the teardown a subscribe function returns is user code too: a fault site of C07 (for
				// synchronous sources it is registered after the stream has ended)
				defer s.env.Call("src.teardown")
			}
			s.Teardowns++
			s.Live--
			sub.teardowns++
			if sub.teardowns > 1 {
				s.DoubleTeardown++
			}
			sub.released = true
			sub.relStep = s.env.Step()
			s.TeardownAt = append(s.TeardownAt, s.env.Step())
			s.env.K.Log(fmt.Sprintf("src%d teardown #%d", s.ID, n))
		}
	}
	plain := func(dest ro.Observer[int]) ro.Teardown { return fn(context.Background(), dest) }
	if s.Spec.CtorAPI == 3 {
		// an implementation of the public Observable interface that is not the library's: it hands the
		// observer to the producer as it is and returns a subscription of its own (nothing is attached to
		// the observer); whoever subscribed it has to keep and use that subscription
		return foreignObservable{fn: fn}
	}
	switch s.Spec.CtorAPI {
	case 1:
		switch s.Spec.Ctor {
		case "safe":
			return ro.NewSafeObservable(plain)
		case "default":
			return ro.NewObservable(plain)
		case "eventually":
			return ro.NewEventuallySafeObservable(plain)
		default:
			return ro.NewUnsafeObservable(plain)
		}
	case 2:
		switch s.Spec.Ctor {
		case "safe", "default":
			return ro.NewObservableWithConcurrencyMode(fn, ro.ConcurrencyModeSafe)
		case "eventually":
			return ro.NewObservableWithConcurrencyMode(fn, ro.ConcurrencyModeEventuallySafe)
		default:
			return ro.NewObservableWithConcurrencyMode(fn, ro.ConcurrencyModeUnsafe)
		}
	}
	switch s.Spec.Ctor {
	case "safe":
		return ro.NewSafeObservableWithContext(fn)
	case "default":
		return ro.NewObservableWithContext(fn)
	case "eventually":
		return ro.NewEventuallySafeObservableWithContext(fn)
	default:
		return ro.NewUnsafeObservableWithContext(fn)
	}
}

// Feed starts producer actors pushing the script into a hot source's subject.
func (s *Src) Feed() {
	if s.Spec.Mode != "hot" {
		return
	}
	prods := s.Spec.Producers
	if prods < 1 {
		prods = 1
	}
	sub := &srcSub{}
	for p := 0; p < prods; p++ {
		p := p
		s.env.Go(fmt.Sprintf("src%d.feed%d", s.ID, p), func() {
			s.play(s.Subject, context.Background(), sub, p, s.Spec.Script, hasGaps(s.Spec.Script), false)
			s.Done++
		})
	}
}

func hasGaps(sc []Step) bool {
	for _, s := range sc {
		if s.Gap > 0 {
			return true
		}
	}
	return false
}

// ---------------------------------------------------------------------------------------------
// helpers

func traceOf(evs []Ev) string {
	parts := make([]string, len(evs))
	for i, ev := range evs {
		parts[i] = ev.String()
	}
	return strings.Join(parts, " ")
}

func sortedKeys(m map[string]int) []string {
	ks := make([]string, 0, len(m))
	for k := range m {
		ks = append(ks, k)
	}
	sort.Strings(ks)
	return ks
}

type heldSlice struct {
	ref  []int
	snap []int
}

// Hold keeps a delivered slice by reference together with a copy of its content at delivery time.
func (e *Env) Hold(s []int) {
	e.held = append(e.held, heldSlice{ref: s, snap: append([]int(nil), s...)})
}

// CheckHeld reports every kept slice whose content changed after it was delivered.
func (e *Env) CheckHeld(prop string) {
	for _, h := range e.held {
		if fmt.Sprint(h.ref) != fmt.Sprint(h.snap) {
			e.Violate(prop, "delivered-value-modified", fmt.Sprintf("a slice that was delivered as %v reads %v later on: the operator kept writing into memory it had already handed out", h.snap, h.ref))
			return
		}
	}
}

// foreignObservable implements ro.Observable without any of the library's constructors.
type foreignObservable struct {
	fn func(ctx context.Context, dest ro.Observer[int]) ro.Teardown
}

func (f foreignObservable) Subscribe(o ro.Observer[int]) ro.Subscription {
	return f.SubscribeWithContext(context.Background(), o)
}

func (f foreignObservable) SubscribeWithContext(ctx context.Context, o ro.Observer[int]) ro.Subscription {
	sub := ro.NewSubscription(nil)
	sub.Add(f.fn(ctx, o))
	return sub
}
