package roverif

import (
	"context"
	"fmt"
	"strings"
	"sync/atomic"
	"time"

	"github.com/samber/ro"

	"rosim/simrt"
)

// stage name lists by capability
func stagesWhere(pred func(d *StageDef) bool) []string {
	var out []string
	for _, n := range catalogOrder {
		if pred(catalog[n]) {
			out = append(out, n)
		}
	}
	return out
}

// addStage appends stage `name` to the scenario, creating auxiliary sources when the stage needs them.
func addStage(g *Gen, sc *Scn, name string, scriptLen int, auxMode string) {
	d := catalog[name]
	var p []int
	for i := 0; i < d.Aux; i++ {
		mode := auxMode
		if mode == "" {
			mode = "sync"
		}
		sc.Sources = append(sc.Sources, SrcSpec{Mode: mode, Script: genScript(g, 40+10*len(sc.Sources), 3, "CCE-", mode == "timed")})
		p = append(p, len(sc.Sources)-1)
	}
	if d.GenP != nil {
		p = append(p, d.GenP(g, scriptLen)...)
	}
	sc.Stages = append(sc.Stages, StageSpec{Op: name, P: p})
}

// genChain appends n random stages satisfying pred.
func genChain(g *Gen, sc *Scn, n int, scriptLen int, auxMode string, pred func(d *StageDef) bool) {
	names := stagesWhere(pred)
	for i := 0; i < n; i++ {
		addStage(g, sc, names[g.Intn(len(names))], scriptLen, auxMode)
	}
}

func nvalues(sc []Step) int {
	n := 0
	for _, s := range sc {
		if s.K == "N" {
			n++
		}
	}
	return n
}

// Pipeline builds every source of the scenario and the chain over source 0.
func (e *Env) Pipeline() (ro.Observable[int], []*Src) {
	var srcs []*Src
	for _, sp := range e.Sc.Sources {
		srcs = append(srcs, e.NewSrc(sp))
	}
	obs := make([]ro.Observable[int], len(srcs))
	get := func(i int) ro.Observable[int] {
		if i < 0 || i >= len(srcs) {
			return ro.Empty[int]()
		}
		if obs[i] == nil {
			obs[i] = srcs[i].Obs()
		}
		return obs[i]
	}
	var o ro.Observable[int]
	if len(srcs) > 0 {
		o = e.BuildChain(get(0), e.Sc.Stages, get)
	}
	return o, srcs
}

// SubHandle tracks one Subscribe call made by a harness actor.
type SubHandle struct {
	pub      uint32 // published (atomically) once S/Returned are set: readers on other actors acquire it
	S        ro.Subscription
	Returned bool
	RetStep  int
	Panic    interface{}
	Actor    *simrt.Actor
	Invoke   int
}

// Subscribe calls o.SubscribeWithContext(ctx, obs) on a fresh harness actor.
func (e *Env) Subscribe(o ro.Observable[int], obs ro.Observer[int], ctx context.Context) *SubHandle {
	h := &SubHandle{Invoke: e.Step()}
	h.Actor = e.Go("subscriber", func() {
		defer func() {
			if r := recover(); r != nil {
				h.Panic = r
				e.K.Log(fmt.Sprintf("Subscribe panicked: %v", r))
			}
		}()
		var s ro.Subscription
		if ctx == nil {
			s = o.Subscribe(obs)
		} else {
			s = o.SubscribeWithContext(ctx, obs)
		}
		h.S = s
		h.Returned = true
		h.RetStep = e.Step()
		atomic.StoreUint32(&h.pub, 1)
		e.K.Log("Subscribe returned")
	})
	return h
}

// Sub returns the subscription once Subscribe has returned (nil before). Reading it through this method
// gives the reader the happens-before edge a real program would create when handing the subscription
// to another goroutine.
func (h *SubHandle) Sub() ro.Subscription {
	if atomic.LoadUint32(&h.pub) == 0 {
		return nil
	}
	return h.S
}

// Ret reports whether the Subscribe call has returned.
func (h *SubHandle) Ret() bool { return atomic.LoadUint32(&h.pub) == 1 }

// FeedAll starts the producers of every hot source.
func FeedAll(srcs []*Src) {
	for _, s := range srcs {
		s.Feed()
	}
}

// parseDropped splits the recorded dropped notifications by kind.
func parseDropped(d []string) (next []string, errs, completes int) {
	for _, s := range d {
		switch {
		case strings.HasPrefix(s, "Next("):
			next = append(next, strings.TrimSuffix(strings.TrimPrefix(s, "Next("), ")"))
		case strings.HasPrefix(s, "Error("):
			errs++
		case strings.HasPrefix(s, "Complete("):
			completes++
		}
	}
	return
}

// RunUntil advances the simulation event by event (settling to quiescence without moving the clock
// in between) until cond holds at a quiescent point, the simulated budget is spent, or nothing is
// left to happen. It returns whether cond held.
func (e *Env) RunUntil(cond func() bool, budget int) bool {
	limit := e.K.Now() + dur(budget)
	for {
		e.Settle()
		if cond() {
			return true
		}
		if e.K.Capped() {
			return false
		}
		n, at := e.K.PendingTimers()
		if n == 0 || at > limit {
			return false
		}
		e.K.Settle(at)
	}
}

// WaitFor parks the calling harness actor until cond holds (re-evaluated whenever anybody else took a step).
func (e *Env) WaitFor(cond func() bool) {
	for !cond() {
		e.K.Gosched()
	}
}

func dur(units int) time.Duration { return time.Duration(units) * Unit }
