module roverif

go 1.26

require (
	github.com/samber/lo v1.52.0
	github.com/samber/ro v0.0.0
	golang.org/x/exp v0.0.0-20240613232115-7f521ea00fb8
	rosim v0.0.0
)

replace github.com/samber/ro => /repo

replace rosim => /verif/rosim
