// The harness is built inside a generated Go workspace (scripts/build_worker.sh): the instrumented
// scratch copy of samber/ro and its plugin modules, this module, and /verif/rosim.
module roverif

go 1.26

require (
	github.com/anishathalye/porcupine v1.3.0
	github.com/prometheus/client_golang v1.16.0
	github.com/prometheus/client_model v0.6.1
	github.com/samber/lo v1.52.0
	github.com/samber/ro v0.0.0
	github.com/ulule/limiter/v3 v3.11.2
	golang.org/x/exp v0.0.0-20240613232115-7f521ea00fb8
	golang.org/x/sys v0.26.0
	rosim v0.0.0
	github.com/samber/ro/plugins/ratelimit/native v0.0.0
	github.com/samber/ro/plugins/ratelimit/ulule v0.0.0
	github.com/samber/ro/plugins/stdio v0.0.0
	github.com/samber/ro/plugins/encoding/csv v0.0.0
	github.com/samber/ro/plugins/encoding/base64 v0.0.0
	github.com/samber/ro/plugins/encoding/json v0.0.0
	github.com/samber/ro/plugins/encoding/gob v0.0.0
	github.com/samber/ro/plugins/sort v0.0.0
	github.com/samber/ro/plugins/strconv v0.0.0
	github.com/samber/ro/plugins/regexp v0.0.0
	github.com/samber/ro/plugins/strings v0.0.0
	github.com/samber/ro/plugins/bytes v0.0.0
	github.com/samber/ro/plugins/time v0.0.0
	github.com/samber/ro/plugins/template v0.0.0
	github.com/samber/ro/ee/plugins/prometheus v0.0.0
)
