package roverif

import "fmt"

// N is a notification in model space.
type N struct {
	K byte // 'N','E','C'
	V int  // value or error code
}

func (n N) String() string {
	switch n.K {
	case 'N':
		return fmt.Sprintf("N%d", n.V)
	case 'E':
		return fmt.Sprintf("E(e%d)", n.V)
	}
	return "C"
}

func scriptToN(sc []Step) []N {
	out := make([]N, 0, len(sc))
	for _, s := range sc {
		out = append(out, N{K: s.K[0], V: s.V})
	}
	return out
}

func traceN(ns []N) string {
	s := ""
	for i, n := range ns {
		if i > 0 {
			s += " "
		}
		s += n.String()
	}
	return s
}
