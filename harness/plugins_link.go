package roverif

// Blank imports keep every plugin module under test linked into the worker binary (and make a
// change that breaks their build show up as exit 2, not as a silent skip).
import (
	_ "github.com/samber/ro/ee/plugins/prometheus"
	_ "github.com/samber/ro/plugins/bytes"
	_ "github.com/samber/ro/plugins/encoding/base64"
	_ "github.com/samber/ro/plugins/encoding/csv"
	_ "github.com/samber/ro/plugins/encoding/gob"
	_ "github.com/samber/ro/plugins/encoding/json"
	_ "github.com/samber/ro/plugins/ratelimit/native"
	_ "github.com/samber/ro/plugins/ratelimit/ulule"
	_ "github.com/samber/ro/plugins/regexp"
	_ "github.com/samber/ro/plugins/sort"
	_ "github.com/samber/ro/plugins/stdio"
	_ "github.com/samber/ro/plugins/strconv"
	_ "github.com/samber/ro/plugins/strings"
	_ "github.com/samber/ro/plugins/template"
	_ "github.com/samber/ro/plugins/time"
)
