package roverif

import (
	"fmt"
	"os"
	"sort"
	"strings"
)

// Race-detector reports (controlled-race mode, property C13). The binary is built with -race and run
// with GORACE="halt_on_error=0 log_path=<prefix>"; the runtime appends reports to <prefix>.<pid>.
// After every run the worker reads what was appended and keeps the reports in which BOTH conflicting
// accesses are made by library code (first frame outside the Go runtime and the rosim shims lies in the
// instrumented copy of samber/ro). Reports on harness or kernel memory are expected in this mode (the
// token is deliberately passed without a happens-before edge) and are ignored.

type raceLog struct {
	path           string
	off            int64
	beforeShutdown []raceReport
}

func openRaceLog() *raceLog {
	p := os.Getenv("VERIF_RACELOG")
	if p == "" {
		return nil
	}
	return &raceLog{path: fmt.Sprintf("%s.%d", p, os.Getpid())}
}

type raceReport struct {
	A, B  string // accessing functions (library frames)
	Text  string
	InLib bool
}

func (l *raceLog) drain() []raceReport {
	if l == nil {
		return nil
	}
	b, err := os.ReadFile(l.path)
	if err != nil || int64(len(b)) <= l.off {
		return nil
	}
	text := string(b[l.off:])
	l.off = int64(len(b))
	var out []raceReport
	for _, blk := range strings.Split(text, "==================") {
		if !strings.Contains(blk, "DATA RACE") {
			continue
		}
		out = append(out, parseRace(blk))
	}
	return out
}

func isLibFile(f string) bool {
	return strings.Contains(f, "/ro/") && !strings.Contains(f, "/rosim/") && !strings.Contains(f, "/harness/")
}

func skipFrame(fn, file string) bool {
	return strings.Contains(file, "/rosim/") || strings.Contains(file, "/go1.") || strings.Contains(file, "/src/runtime/") || strings.Contains(file, "/src/sync/") || strings.HasPrefix(fn, "sync/atomic.") || strings.HasPrefix(fn, "runtime.") || strings.HasPrefix(fn, "sync.")
}

func parseRace(blk string) raceReport {
	lines := strings.Split(blk, "\n")
	var accs [][2]string // function, file of the deciding frame of each access section
	for i := 0; i < len(lines); i++ {
		l := lines[i]
		if !(strings.Contains(l, " at 0x") && strings.Contains(l, " by ")) {
			continue
		}
		// frames follow: "  func()" then "      file:line +0x.."
		fn, file := "", ""
		first := true
		for j := i + 1; j+1 < len(lines); j += 2 {
			f := strings.TrimSpace(lines[j])
			if f == "" || !strings.HasPrefix(lines[j], "  ") {
				break
			}
			loc := strings.TrimSpace(lines[j+1])
			if first && strings.Contains(loc, "/rosim/") {
				// the access itself is made by kernel/shim code on its own memory (closures of
				// //go:norace functions are still instrumented): not the library's memory
				fn, file = f, loc
				break
			}
			first = false
			if skipFrame(f, loc) {
				continue
			}
			fn, file = f, loc
			break
		}
		accs = append(accs, [2]string{fn, file})
		if len(accs) == 2 {
			break
		}
	}
	r := raceReport{Text: blk}
	if len(accs) == 2 {
		clean := normaliseSymbol
		fa, fb := clean(accs[0][0]), clean(accs[1][0])
		fs := []string{fa, fb}
		sort.Strings(fs)
		r.A, r.B = fs[0], fs[1]
		r.InLib = isLibFile(accs[0][1]) && isLibFile(accs[1][1])
	}
	return r
}

// normaliseSymbol makes a function symbol independent of where the generic code was instantiated or
// inlined: "roverif.init.25.func15.1.BufferWithCount[go.shape.int].3.4.3()" -> "BufferWithCount.3.4.3",
// "github.com/samber/ro.(*subscriptionImpl).Add()" -> "(*subscriptionImpl).Add".
func normaliseSymbol(s string) string {
	s = strings.TrimSuffix(s, "()")
	// drop type arguments
	var b strings.Builder
	depth := 0
	for _, r := range s {
		switch {
		case r == '[':
			depth++
		case r == ']':
			depth--
		case depth == 0:
			b.WriteRune(r)
		}
	}
	s = b.String()
	if i := strings.LastIndex(s, "/"); i >= 0 {
		s = s[i+1:]
	}
	s = strings.TrimPrefix(s, "ro.")
	if strings.HasPrefix(s, "roverif.") {
		parts := strings.Split(s, ".")
		for i, p := range parts {
			if p != "" && p[0] >= 'A' && p[0] <= 'Z' {
				return strings.Join(parts[i:], ".")
			}
		}
	}
	return s
}
