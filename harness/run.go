package roverif

import (
	"encoding/json"
	"fmt"
	"strings"
	"testing"
	"testing/synctest"
	"time"

	"rosim/simrt"
	"rosim/simtime"
)

func simSleep(d time.Duration) { simtime.Sleep(d) }

// Family is a scenario family: generator + executor (with its oracles).
type Family struct {
	Name   string
	Props  []string // properties whose checks use it
	Weight int
	Gen    func(g *Gen) *Scn
	Run    func(e *Env)
	// Expand enumerates the fault positions of a generated scenario (fault enumeration); each result is one run.
	Expand func(sc *Scn) []*Scn
	// ExpandRun is Expand with access to a runner (a fault-free discovery run decides what to enumerate).
	ExpandRun func(sc *Scn, run func(*Scn) *RunResult) []*Scn
	// Valid rejects scenarios outside the family's domain (used on shrink candidates).
	Valid func(sc *Scn) bool
	// Shrink proposes smaller scenarios (generic shrinker is used when nil).
	Shrink func(sc *Scn) []*Scn
	// MaxSteps overrides the default step cap.
	MaxSteps int
	// NoSched: scenario has a single actor; schedule flags are irrelevant.
	Quick func(g *Gen) bool
}

var families = map[string]*Family{}
var familyOrder []string

func Register(f *Family) {
	if _, dup := families[f.Name]; dup {
		panic("duplicate family " + f.Name)
	}
	if f.Weight == 0 {
		f.Weight = 1
	}
	families[f.Name] = f
	familyOrder = append(familyOrder, f.Name)
}

// FamiliesFor lists the families serving a property.
func FamiliesFor(prop string) []*Family {
	var out []*Family
	for _, n := range familyOrder {
		f := families[n]
		for _, p := range f.Props {
			if p == prop {
				out = append(out, f)
			}
		}
	}
	return out
}

// Gen wraps the scenario PRNG with convenience draws.
type Gen struct {
	R    *simrt.Rng
	Tier string
	Prop string
}

func (g *Gen) Intn(n int) int           { return g.R.Intn(n) }
func (g *Gen) Bool(p float64) bool      { return g.R.Bool(p) }
func (g *Gen) Range(lo, hi int) int     { return lo + g.R.Intn(hi-lo+1) }
func (g *Gen) Pick(xs ...string) string { return xs[g.R.Intn(len(xs))] }
func (g *Gen) PickInt(xs ...int) int    { return xs[g.R.Intn(len(xs))] }

// RunResult is what one simulated run produced.
type RunResult struct {
	Viols      []Violation
	Decisions  []int
	Stats      simrt.Stats
	ILHash     uint64
	LogHash    uint64
	SimTime    time.Duration
	Capped     bool
	Deadlock   bool
	Probes     map[string]int
	Trace      []string
	HarnessErr string
	Notes      []string
	CallLog    []CallRec
	Out        map[string]string
}

func makeStrategy(s *SchedSpec) simrt.Strategy {
	r := simrt.NewRng(s.Seed)
	switch s.Strategy {
	case "replay":
		return &simrt.Replay{List: s.Decisions}
	case "pct":
		return simrt.NewPCT(r, s.D, 400)
	case "starve":
		return &simrt.Starve{R: r, Victim: s.Victim, N: 300}
	default:
		return &simrt.RandomWalk{R: r, P: s.P}
	}
}

// DrawSched draws the schedule half of a run (swarm style).
func DrawSched(r *simrt.Rng) SchedSpec {
	s := SchedSpec{Seed: r.Uint64(), YieldAtomics: r.Bool(0.6), MapPermute: r.Bool(0.5)}
	switch x := r.Intn(10); {
	case x < 5:
		s.Strategy = "rw"
		s.P = []float64{0.02, 0.1, 0.3, 0.6}[r.Intn(4)]
	case x < 8:
		s.Strategy = "pct"
		s.D = 1 + r.Intn(3)
	default:
		s.Strategy = "starve"
		s.Victim = 1 + r.Intn(4)
	}
	return s
}

var bubbleDeadlocks int

// RunOnce executes one scenario under one schedule inside a fresh synctest bubble.
func RunOnce(t *testing.T, fam *Family, sc *Scn, sched *SchedSpec, trace bool) *RunResult {
	res := &RunResult{}
	var envRef *Env
	defer func() {
		// work the family postponed until after the bubble (Env.After)
		if envRef == nil || len(envRef.after) == 0 || res.HarnessErr != "" {
			return
		}
		for _, f := range envRef.after {
			f()
		}
		res.Viols = envRef.Viols
		res.Probes = envRef.Probes
		res.LogHash = envRef.K.LogHash
		res.Trace = envRef.K.TraceLog
	}()
	func() {
		defer func() {
			if r := recover(); r != nil {
				msg := fmt.Sprint(r)
				if strings.Contains(msg, "deadlock") {
					// goroutines left blocked in the bubble after the run (released actors that
					// blocked again in real primitives while unwinding)
					bubbleDeadlocks++
					return
				}
				res.HarnessErr = "panic outside the simulation: " + msg
			}
		}()
		body := func(bubble bool) {
			var sleepHook func(time.Duration)
			var waitHook func()
			if bubble {
				sleepHook, waitHook = time.Sleep, synctest.Wait
			}
			maxSteps := sched.MaxSteps
			if maxSteps == 0 {
				maxSteps = fam.MaxSteps
			}
			cfg := simrt.Config{
				MaxSteps:     maxSteps,
				YieldAtomics: sched.YieldAtomics,
				MapPermute:   sched.MapPermute,
				Stall:        sched.Stall,
				Strategy:     makeStrategy(sched),
				SleepHook:    sleepHook,
				WaitHook:     waitHook,
				Trace:        trace,
			}
			epoch := time.Now()
			if !bubble {
				epoch = simtime.BubbleEpoch
			}
			k := simrt.New(cfg, epoch)
			env := newEnv(k, sc)
			envRef = env
			restore := env.installHooks()
			defer restore()
			k.Run(func() { fam.Run(env) })
			res.Viols = env.Viols
			res.Decisions = k.Decisions
			res.Stats = k.Stats
			res.ILHash = k.ILHash
			res.LogHash = k.LogHash
			res.SimTime = k.Now()
			res.Capped = k.Capped()
			res.Deadlock = k.Deadlocked
			res.Probes = env.Probes
			res.Trace = k.TraceLog
			res.Notes = env.notes
			res.CallLog = env.CallLog
			res.Out = env.Out
			for _, esc := range k.Escapes {
				if !esc.Lib && !env.expectHarnessPanic {
					res.HarnessErr = fmt.Sprintf("harness actor %s panicked: %v\n%s", esc.Site, esc.Value, esc.Stack)
				}
			}
		}
		if simrt.RaceMode {
			// controlled-race mode: actors spin on a plain word (not durably blocked), so no synctest
			// bubble; the clock is the kernel's event heap only
			body(false)
			return
		}
		synctest.Test(t, func(t *testing.T) { body(true) })
	}()
	return res
}

// Replay file.
type ReplayFile struct {
	Property string    `json:"property"`
	Scenario *Scn      `json:"scenario"`
	Sched    SchedSpec `json:"sched"`
	Viol     Violation `json:"violation"`
	LogHash  string    `json:"log_hash"`
	Seed     uint64    `json:"seed"`
	Note     string    `json:"note,omitempty"`
}

func cloneScn(sc *Scn) *Scn {
	b, _ := json.Marshal(sc)
	var out Scn
	_ = json.Unmarshal(b, &out)
	return &out
}
