package roverif

import (
	"encoding/json"
	"fmt"
	"os"
	"regexp"
	"sort"
	"strconv"
	"strings"
	"testing"
	"time"

	"rosim/simrt"
	"rosim/simtime"
)

func envInt(name string, def int) int {
	if v := os.Getenv(name); v != "" {
		if n, err := strconv.Atoi(v); err == nil {
			return n
		}
	}
	return def
}

func envU64(name string, def uint64) uint64 {
	if v := os.Getenv(name); v != "" {
		if n, err := strconv.ParseUint(v, 10, 64); err == nil {
			return n
		}
		if n, err := strconv.ParseInt(v, 10, 64); err == nil {
			return uint64(n)
		}
	}
	return def
}

func TestMain(m *testing.M) {
	simtime.InitDone = true
	startWatchdog()
	os.Exit(m.Run())
}

// ---------------------------------------------------------------------------------------------
// watchdog: a run that does not finish in real time is harness/build trouble (exit 2), never a violation.

var wdRunStart int64 // unix nanos, 0 = idle
var wdInfo string

func startWatchdog() {
	limit := time.Duration(envInt("VERIF_RUN_WALL_S", 60)) * time.Second
	go func() {
		for {
			time.Sleep(500 * time.Millisecond)
			s := wdRunStart
			if s != 0 && time.Since(time.Unix(0, s)) > limit {
				fmt.Fprintf(os.Stderr, "WATCHDOG: run exceeded %v: %s\n", limit, wdInfo)
				os.Exit(2)
			}
		}
	}()
}

// ---------------------------------------------------------------------------------------------

// KnownFinding is one committed entry of known_findings.json.
type KnownFinding struct {
	ID       string `json:"id"`
	Property string `json:"property"`
	Match    string `json:"match"` // regexp on the fingerprint
	What     string `json:"what"`
	re       *regexp.Regexp
}

type KnownFile struct {
	Findings []KnownFinding `json:"findings"`
	Fixed    []string       `json:"fixed"`
}

func loadKnown(path string) []KnownFinding {
	if path == "" {
		return nil
	}
	b, err := os.ReadFile(path)
	if err != nil {
		return nil
	}
	var kf KnownFile
	if err := json.Unmarshal(b, &kf); err != nil {
		fmt.Fprintln(os.Stderr, "known findings file unreadable:", err)
		os.Exit(2)
	}
	for i := range kf.Findings {
		kf.Findings[i].re = regexp.MustCompile(kf.Findings[i].Match)
	}
	return kf.Findings
}

func matchKnown(kn []KnownFinding, v Violation) *KnownFinding {
	for i := range kn {
		if kn[i].Property == v.Prop && kn[i].re.MatchString(v.FP) {
			return &kn[i]
		}
	}
	return nil
}

// WorkerOut is what one worker process reports.
type WorkerOut struct {
	Property        string            `json:"property"`
	Worker          int               `json:"worker"`
	Seed            uint64            `json:"seed"`
	Runs            int               `json:"runs"`
	Capped          int               `json:"capped"`
	Deadlocks       int               `json:"deadlocks"`
	SimSeconds      float64           `json:"sim_seconds"`
	Steps           int64             `json:"steps"`
	Decisions       int64             `json:"decisions"`
	Switches        int64             `json:"switches"`
	WallS           float64           `json:"wall_s"`
	Distinct        map[string]int    `json:"-"`
	DistinctN       int               `json:"distinct"`
	DistinctKeys    []string          `json:"distinct_keys,omitempty"`
	Extra           map[string]int64  `json:"extra"`
	Survey          map[string]int    `json:"survey,omitempty"`
	SurveyMsg       map[string]string `json:"survey_msg,omitempty"`
	Probes          map[string]int    `json:"probes"`
	Faults          map[string]int    `json:"faults_fired"`
	PerFamily       map[string]int    `json:"per_family"`
	PerClass        map[string]int    `json:"per_class"`
	Known           map[string]int    `json:"known"`
	KnownWhat       map[string]string `json:"known_what"`
	Violations      []ReplayFile      `json:"violations"`
	Samples         []json.RawMessage `json:"samples"`
	HarnessErr      string            `json:"harness_err,omitempty"`
	BubbleDeadlocks int               `json:"bubble_deadlocks"`
	KindCount       map[string]int64  `json:"kind_count"`
}

func splitmix(a, b, c uint64) uint64 {
	r := simrt.NewRng(a ^ (b * 0x9e3779b97f4a7c15) ^ (c * 0xc2b2ae3d27d4eb4f))
	r.Uint64()
	return r.Uint64()
}

func pickFamily(fams []*Family, r *simrt.Rng) *Family {
	tot := 0
	for _, f := range fams {
		tot += f.Weight
	}
	x := r.Intn(tot)
	for _, f := range fams {
		if x < f.Weight {
			return f
		}
		x -= f.Weight
	}
	return fams[0]
}

func statsFaults(out map[string]int, st *simrt.Stats, sched *SchedSpec, res *RunResult) {
	out["lock_contended"] += st.LockContended
	out["chan_blocked"] += st.ChanBlocked
	out["timer_fired"] += st.TimerFired
	out["clock_advance"] += st.ClockAdvances
	out["stall_advance"] += st.StallAdvances
	out["select_multi_ready"] += st.SelectMulti
	out["same_instant_timers"] += st.SameInstant
	out["spin_wait"] += st.Goscheds
	if sched.MapPermute {
		out["runs_with_map_permutation"]++
	}
	if sched.YieldAtomics {
		out["runs_with_atomic_yields"]++
	}
	if sched.Stall {
		out["runs_with_stall_faults"]++
	}
}

func TestWorker(t *testing.T) {
	prop := os.Getenv("VERIF_PROP")
	if prop == "" {
		t.Skip("VERIF_PROP not set")
	}
	mode := os.Getenv("VERIF_MODE")
	if mode == "replay" {
		workerReplay(t)
		return
	}
	if mode == "determinism" {
		workerDeterminism(t, prop)
		return
	}
	tier := os.Getenv("VERIF_TIER")
	if tier == "" {
		tier = "quick"
	}
	seed := envU64("VERIF_SEED", 1)
	worker := envInt("VERIF_WORKER", 0)
	budget := time.Duration(envInt("VERIF_BUDGET_S", 20)) * time.Second
	maxRuns := envInt("VERIF_MAXRUNS", 1<<30)
	known := loadKnown(os.Getenv("VERIF_KNOWN"))
	fams := FamiliesFor(prop)
	if only := os.Getenv("VERIF_FAMILY"); only != "" {
		fams = []*Family{families[only]}
	}
	if len(fams) == 0 || fams[0] == nil {
		fmt.Fprintln(os.Stderr, "no families for", prop)
		os.Exit(2)
	}
	out := &WorkerOut{Property: prop, Worker: worker, Seed: seed, Distinct: map[string]int{}, Probes: map[string]int{}, Faults: map[string]int{}, PerFamily: map[string]int{}, PerClass: map[string]int{}, Known: map[string]int{}, KnownWhat: map[string]string{}, KindCount: map[string]int64{}, Extra: map[string]int64{}}
	start := time.Now()
	rlog = openRaceLog()
	if rlog != nil {
		simrt.OnShutdown = func() { rlog.beforeShutdown = append(rlog.beforeShutdown, rlog.drain()...) }
	}
	survey := os.Getenv("VERIF_SURVEY") != ""
	out.Survey, out.SurveyMsg = map[string]int{}, map[string]string{}
	seenFP := map[string]bool{}
	minimiseBudget := time.Duration(envInt("VERIF_MINIMISE_S", 15)) * time.Second
	for run := 0; run < maxRuns && time.Since(start) < budget; run++ {
		rs := splitmix(seed, uint64(worker), uint64(run))
		r := simrt.NewRng(rs)
		fam := pickFamily(fams, r)
		g := &Gen{R: r.Fork(), Tier: tier, Prop: prop}
		base := fam.Gen(g)
		scs := []*Scn{base}
		if fam.ExpandRun != nil {
			zero := SchedSpec{Strategy: "replay"}
			scs = fam.ExpandRun(base, func(sc *Scn) *RunResult {
				wdRunStart = time.Now().UnixNano()
				defer func() { wdRunStart = 0 }()
				return RunOnce(t, fam, sc, &zero, false)
			})
			out.Extra["enumerated_scenarios"]++
			out.Extra["enumerated_fault_positions"] += int64(len(scs))
		} else if fam.Expand != nil {
			scs = fam.Expand(base)
			out.Extra["enumerated_scenarios"]++
			out.Extra["enumerated_fault_positions"] += int64(len(scs))
		}
		sr := r.Fork()
		for _, sc := range scs {
			sched := DrawSched(sr.Fork())
			if sc.Int("stall", 0) == 1 {
				sched.Stall = true
			}
			wdInfo = fmt.Sprintf("prop=%s family=%s seed=%d worker=%d run=%d", prop, fam.Name, seed, worker, run)
			wdRunStart = time.Now().UnixNano()
			res := RunOnce(t, fam, sc, &sched, false)
			wdRunStart = 0
			addRaces(rlog, res, sc, out.Extra)
			if prop == "C13" {
				// the families also run their own oracles; C13 only judges the race detector's reports
				kept := res.Viols[:0]
				for _, v := range res.Viols {
					if v.Prop == "C13" {
						kept = append(kept, v)
					}
				}
				res.Viols = kept
			}
			if res.HarnessErr != "" {
				out.HarnessErr = fmt.Sprintf("%s: %s", wdInfo, res.HarnessErr)
				b, _ := json.Marshal(sc)
				out.HarnessErr += "\nscenario: " + string(b)
				break
			}
			if len(out.Violations) >= 3 {
				break
			}
			out.Runs++
			out.PerFamily[fam.Name]++
			cls := sc.Class()
			out.PerClass[cls]++
			if res.Capped {
				out.Capped++
				if survey {
					fp := "CAPPED|" + cls
					out.Survey[fp]++
					if _, ok := out.SurveyMsg[fp]; !ok {
						b, _ := json.Marshal(sc)
						out.SurveyMsg[fp] = "step cap reached || " + string(b)
					}
				}
			}
			if res.Deadlock {
				out.Deadlocks++
			}
			out.SimSeconds += res.SimTime.Seconds()
			out.Steps += int64(res.Stats.Steps)
			out.Decisions += int64(res.Stats.Decisions)
			out.Switches += int64(res.Stats.Switches)
			for i, c := range res.Stats.KindCount {
				if c > 0 {
					out.KindCount[simrt.Kind(i).String()] += int64(c)
				}
			}
			statsFaults(out.Faults, &res.Stats, &sched, res)
			for k, v := range res.Probes {
				out.Probes[k] += v
			}
			if res.Stats.MultiPoints > 0 || sc.Int("seqmode", 0) == 1 {
				key := fmt.Sprintf("%s#%x", cls, res.ILHash)
				if sc.Int("seqmode", 0) == 1 {
					b, _ := json.Marshal(sc)
					key = fmt.Sprintf("%s#%x", cls, simrt.NewRng(hashBytes(b)).Uint64())
				}
				if len(out.Distinct) < 400000 {
					out.Distinct[fmt.Sprintf("%x", hashBytes([]byte(key)))]++
				}
			}
			if len(out.Samples) < 3 && (run%7 == 0) {
				sm := map[string]interface{}{"scenario": sc, "sched": map[string]interface{}{"strategy": sched.Strategy, "p": sched.P, "d": sched.D, "yield_atomics": sched.YieldAtomics, "map_permute": sched.MapPermute, "decisions": truncInts(res.Decisions, 60)}, "steps": res.Stats.Steps, "sim_time": res.SimTime.String(), "violations": len(res.Viols)}
				b, _ := json.Marshal(sm)
				out.Samples = append(out.Samples, b)
			}
			for _, v := range res.Viols {
				if v.Prop != prop {
					// a family shared between properties reports only the property being checked
					continue
				}
				if kf := matchKnown(known, v); kf != nil {
					out.Known[kf.ID]++
					out.KnownWhat[kf.ID] = kf.What
					continue
				}
				if survey {
					out.Survey[v.FP]++
					if _, ok := out.SurveyMsg[v.FP]; !ok {
						b, _ := json.Marshal(sc)
						out.SurveyMsg[v.FP] = v.Msg + " || " + string(b)
					}
					continue
				}
				if seenFP[v.FP] {
					continue
				}
				seenFP[v.FP] = true
				rf := ReplayFile{Property: v.Prop, Scenario: sc, Sched: sched, Viol: v, Seed: seed}
				rf.Sched.Strategy = "replay"
				rf.Sched.Decisions = res.Decisions
				rf.LogHash = fmt.Sprintf("%x", res.LogHash)
				if rlog != nil {
					// the race detector reports each pair of stacks once per process, so a violation cannot
					// be re-observed (hence not minimised) in this process: the driver replays it in a fresh one
					out.Violations = append(out.Violations, rf)
					continue
				}
				min := minimise(t, fam, &rf, known, minimiseBudget)
				out.Violations = append(out.Violations, *min)
			}
		}
		if len(out.Violations) >= 3 || out.HarnessErr != "" {
			break
		}
	}
	out.WallS = time.Since(start).Seconds()
	out.DistinctN = len(out.Distinct)
	out.BubbleDeadlocks = bubbleDeadlocks
	keys := make([]string, 0, len(out.Distinct))
	for k := range out.Distinct {
		keys = append(keys, k)
	}
	sort.Strings(keys)
	out.DistinctKeys = keys
	writeOut(out)
}

func hashBytes(b []byte) uint64 {
	h := uint64(14695981039346656037)
	for _, c := range b {
		h ^= uint64(c)
		h *= 1099511628211
	}
	return h
}

func truncInts(x []int, n int) []int {
	if len(x) > n {
		return x[:n]
	}
	return x
}

func writeOut(out *WorkerOut) {
	path := os.Getenv("VERIF_OUT")
	b, _ := json.Marshal(out)
	if path == "" {
		fmt.Println(string(b))
		return
	}
	if err := os.WriteFile(path, b, 0o644); err != nil {
		fmt.Fprintln(os.Stderr, "cannot write", path, err)
		os.Exit(2)
	}
}

var rlog *raceLog

// addRaces turns the race reports appended during the last run into C13 violations.
func addRaces(l *raceLog, res *RunResult, sc *Scn, extra map[string]int64) {
	if l == nil {
		return
	}
	reports := l.beforeShutdown
	l.beforeShutdown = nil
	if dropped := l.drain(); len(dropped) > 0 && extra != nil {
		// reports written while the surviving actors were being released at the end of the run
		extra["race_reports_during_shutdown_ignored"] += int64(len(dropped))
	}
	for _, rr := range reports {
		if !rr.InLib {
			if extra != nil {
				extra["race_reports_outside_library_ignored"]++
			}
			continue
		}
		if extra != nil {
			extra["race_reports_in_library"]++
		}
		clause := "race:" + rr.A + "+" + rr.B
		res.Viols = append(res.Viols, Violation{Prop: "C13", FP: "C13|" + sc.Class() + "|" + clause, Clause: clause, Msg: "the race detector reports unsynchronised conflicting accesses inside the library:\n" + strings.TrimSpace(rr.Text)})
	}
}

// sameViolation: a candidate reproduces when it violates the same property and clause.
func findViol(res *RunResult, prop, clause string, known []KnownFinding) *Violation {
	for i := range res.Viols {
		v := &res.Viols[i]
		if v.Prop == prop && v.Clause == clause && matchKnown(known, *v) == nil {
			return v
		}
	}
	return nil
}

// minimise shrinks the schedule and the scenario while the same violation class persists.
func minimise(t *testing.T, fam *Family, rf *ReplayFile, known []KnownFinding, budget time.Duration) *ReplayFile {
	deadline := time.Now().Add(budget)
	best := *rf
	prop, clause := rf.Viol.Prop, rf.Viol.Clause
	try := func(sc *Scn, dec []int) (*RunResult, *Violation) {
		s := best.Sched
		s.Strategy = "replay"
		s.Decisions = dec
		wdRunStart = time.Now().UnixNano()
		res := RunOnce(t, fam, sc, &s, false)
		wdRunStart = 0
		addRaces(rlog, res, sc, nil)
		if res.HarnessErr != "" {
			return res, nil
		}
		return res, findViol(res, prop, clause, known)
	}
	accept := func(sc *Scn, res *RunResult, v *Violation) {
		best.Scenario = sc
		best.Sched.Decisions = append([]int(nil), res.Decisions...)
		best.Viol = *v
		best.LogHash = fmt.Sprintf("%x", res.LogHash)
	}
	// the original must reproduce under replay
	if res, v := try(best.Scenario, best.Sched.Decisions); v == nil {
		best.Note = "not reproducible under replay (harness nondeterminism?)"
		_ = res
		return &best
	} else {
		accept(best.Scenario, res, v)
	}
	improved := true
	for improved && time.Now().Before(deadline) {
		improved = false
		// 1. scenario shrinking
		for _, cand := range shrinkCandidates(fam, best.Scenario) {
			if time.Now().After(deadline) {
				break
			}
			if res, v := try(cand, best.Sched.Decisions); v != nil {
				accept(cand, res, v)
				improved = true
				break
			}
			// the decision list may not fit the smaller scenario: try the all-zero schedule too
			if res, v := try(cand, nil); v != nil {
				accept(cand, res, v)
				improved = true
				break
			}
		}
		// 2. schedule shrinking: truncate, then zero chunks
		dec := best.Sched.Decisions
		for n := len(dec) / 2; n >= 1 && time.Now().Before(deadline); n /= 2 {
			for len(dec) > 0 {
				cut := len(dec) - n
				if cut < 0 {
					cut = 0
				}
				c := append([]int(nil), dec[:cut]...)
				res, v := try(best.Scenario, c)
				if v == nil {
					break
				}
				accept(best.Scenario, res, v)
				dec = best.Sched.Decisions
				if len(dec) > cut {
					dec = dec[:cut]
					best.Sched.Decisions = dec
				}
				improved = true
				if time.Now().After(deadline) {
					break
				}
			}
		}
		dec = best.Sched.Decisions
		for chunk := len(dec) / 2; chunk >= 1 && time.Now().Before(deadline); chunk /= 2 {
			for off := 0; off < len(dec) && time.Now().Before(deadline); off += chunk {
				c := append([]int(nil), dec...)
				changed := false
				for i := off; i < off+chunk && i < len(c); i++ {
					if c[i] != 0 {
						c[i] = 0
						changed = true
					}
				}
				if !changed {
					continue
				}
				if res, v := try(best.Scenario, c); v != nil {
					accept(best.Scenario, res, v)
					// keep the zeroed list (accept stores the re-recorded decisions, which are equivalent)
					dec = best.Sched.Decisions
					improved = true
				}
			}
		}
		// strip trailing zeros
		d := best.Sched.Decisions
		for len(d) > 0 && d[len(d)-1] == 0 {
			d = d[:len(d)-1]
		}
		best.Sched.Decisions = d
	}
	// final check of the stored file
	if res, v := try(best.Scenario, best.Sched.Decisions); v != nil {
		best.Viol = *v
		best.LogHash = fmt.Sprintf("%x", res.LogHash)
	} else {
		best.Note = "minimised file failed its final replay"
	}
	return &best
}

// shrinkCandidates proposes smaller scenarios (generic, plus the family's own).
func shrinkCandidates(fam *Family, sc *Scn) (out []*Scn) {
	if fam.Shrink != nil {
		out = append(out, fam.Shrink(sc)...)
	}
	// drop a stage
	for i := range sc.Stages {
		c := cloneScn(sc)
		c.Stages = append(c.Stages[:i], c.Stages[i+1:]...)
		out = append(out, c)
	}
	// drop a fault
	for i := range sc.Faults {
		c := cloneScn(sc)
		c.Faults = append(c.Faults[:i], c.Faults[i+1:]...)
		out = append(out, c)
	}
	// drop an op
	for i := range sc.Ops {
		c := cloneScn(sc)
		c.Ops = append(c.Ops[:i], c.Ops[i+1:]...)
		out = append(out, c)
	}
	// drop a trailing source
	if len(sc.Sources) > 1 {
		c := cloneScn(sc)
		c.Sources = c.Sources[:len(c.Sources)-1]
		out = append(out, c)
	}
	for si := range sc.Sources {
		s := sc.Sources[si]
		for i := range s.Script {
			c := cloneScn(sc)
			c.Sources[si].Script = append(c.Sources[si].Script[:i], c.Sources[si].Script[i+1:]...)
			out = append(out, c)
		}
		if s.Producers > 2 {
			c := cloneScn(sc)
			c.Sources[si].Producers--
			out = append(out, c)
		}
		if s.Mode == "timed" {
			c := cloneScn(sc)
			c.Sources[si].Mode = "async"
			for i := range c.Sources[si].Script {
				c.Sources[si].Script[i].Gap = 0
			}
			out = append(out, c)
		}
		if s.Mode == "hot" {
			c := cloneScn(sc)
			c.Sources[si].Mode = "async"
			out = append(out, c)
		}
	}
	defer func() {
		if fam.Valid != nil {
			kept := out[:0]
			for _, c := range out {
				if fam.Valid(c) {
					kept = append(kept, c)
				}
			}
			out = kept
		}
	}()
	names := make([]string, 0, len(sc.Ints))
	for k := range sc.Ints {
		names = append(names, k)
	}
	sort.Strings(names)
	for _, k := range names {
		if v := sc.Ints[k]; v > 0 {
			c := cloneScn(sc)
			c.Ints[k] = v - 1
			out = append(out, c)
			if v > 1 {
				c2 := cloneScn(sc)
				c2.Ints[k] = 0
				out = append(out, c2)
			}
		}
	}
	return out
}

// workerReplay re-executes a replay file and reports whether the violation reproduces exactly.
func workerReplay(t *testing.T) {
	path := os.Getenv("VERIF_REPLAY")
	b, err := os.ReadFile(path)
	if err != nil {
		fmt.Fprintln(os.Stderr, "cannot read replay file:", err)
		os.Exit(2)
	}
	var rf ReplayFile
	if err := json.Unmarshal(b, &rf); err != nil {
		fmt.Fprintln(os.Stderr, "bad replay file:", err)
		os.Exit(2)
	}
	fam := families[rf.Scenario.Family]
	if fam == nil {
		fmt.Fprintln(os.Stderr, "unknown family", rf.Scenario.Family)
		os.Exit(2)
	}
	trace := os.Getenv("VERIF_TRACE") != ""
	rlog = openRaceLog()
	if rlog != nil {
		simrt.OnShutdown = func() { rlog.beforeShutdown = append(rlog.beforeShutdown, rlog.drain()...) }
	}
	wdRunStart = time.Now().UnixNano()
	res := RunOnce(t, fam, rf.Scenario, &rf.Sched, trace)
	wdRunStart = 0
	addRaces(rlog, res, rf.Scenario, nil)
	type rep struct {
		Reproduced bool        `json:"reproduced"`
		SameLog    bool        `json:"same_log"`
		LogHash    string      `json:"log_hash"`
		Viols      []Violation `json:"violations"`
		HarnessErr string      `json:"harness_err,omitempty"`
		Trace      []string    `json:"trace,omitempty"`
	}
	o := rep{LogHash: fmt.Sprintf("%x", res.LogHash), Viols: res.Viols, HarnessErr: res.HarnessErr, Trace: res.Trace}
	for _, v := range res.Viols {
		if v.FP == rf.Viol.FP {
			o.Reproduced = true
		}
	}
	o.SameLog = o.LogHash == rf.LogHash
	ob, _ := json.MarshalIndent(o, "", " ")
	if p := os.Getenv("VERIF_OUT"); p != "" {
		_ = os.WriteFile(p, ob, 0o644)
	} else {
		fmt.Println(string(ob))
	}
}

// workerDeterminism prints one line per run: seed, log hash, decisions hash — compared across processes.
func workerDeterminism(t *testing.T, prop string) {
	seed := envU64("VERIF_SEED", 1)
	n := envInt("VERIF_MAXRUNS", 40)
	fams := FamiliesFor(prop)
	if prop == "ALL" {
		fams = nil
		for _, name := range familyOrder {
			fams = append(fams, families[name])
		}
	}
	var lines []string
	for run := 0; run < n; run++ {
		for _, fam := range fams {
			rs := splitmix(seed, 0, uint64(run))
			r := simrt.NewRng(rs)
			g := &Gen{R: r.Fork(), Tier: "quick", Prop: prop}
			sc := fam.Gen(g)
			sched := DrawSched(r.Fork())
			if sc.Int("stall", 0) == 1 {
				sched.Stall = true
			}
			wdInfo = fmt.Sprintf("determinism family=%s seed=%d run=%d", fam.Name, seed, run)
			wdRunStart = time.Now().UnixNano()
			res := RunOnce(t, fam, sc, &sched, false)
			wdRunStart = 0
			dh := uint64(1469598103934665603)
			for _, d := range res.Decisions {
				dh = (dh ^ uint64(d)) * 1099511628211
			}
			lines = append(lines, fmt.Sprintf("%s run=%d log=%x dec=%x steps=%d viol=%d herr=%v", fam.Name, run, res.LogHash, dh, res.Stats.Steps, len(res.Viols), res.HarnessErr != ""))
		}
	}
	path := os.Getenv("VERIF_OUT")
	data := ""
	for _, l := range lines {
		data += l + "\n"
	}
	if path == "" {
		fmt.Print(data)
	} else {
		_ = os.WriteFile(path, []byte(data), 0o644)
	}
}
