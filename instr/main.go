// Command instr mechanically rewrites a scratch copy of samber/ro so that every source of
// scheduling nondeterminism goes through the rosim shims:
//
//	sync.{Mutex,RWMutex,Once,Map}      -> simsync
//	sync/atomic functions and types     -> simatomic
//	time.{Now,Since,Until,Sleep,After,AfterFunc,NewTimer,NewTicker,Timer,Ticker} -> simtime
//	runtime.Gosched                     -> simruntime
//	context.With{Cancel,Timeout,Deadline}[Cause] -> simcontext
//	go f(x)                             -> simrt.Go(site, func(){ f(x') })
//	ch <- v, <-ch, v, ok := <-ch, range ch, close(ch), select -> simrt helpers
//
// Usage: instr -dir <module dir> [pattern ...]
// Exit status 2 on any construct it cannot rewrite (never a partial rewrite silently).
package main

import (
	"bytes"
	"flag"
	"fmt"
	"go/ast"
	"go/format"
	"go/token"
	"go/types"
	"os"
	"sort"
	"strconv"
	"strings"

	"golang.org/x/tools/go/ast/astutil"
	"golang.org/x/tools/go/packages"
)

var table = map[string]map[string]string{
	"sync": {
		"Mutex": "simsync", "RWMutex": "simsync", "Once": "simsync", "Map": "simsync",
	},
	"sync/atomic": {
		"AddInt32": "simatomic", "AddInt64": "simatomic", "AddUint32": "simatomic", "AddUint64": "simatomic",
		"LoadInt32": "simatomic", "LoadInt64": "simatomic", "LoadUint32": "simatomic", "LoadUint64": "simatomic",
		"StoreInt32": "simatomic", "StoreInt64": "simatomic", "StoreUint32": "simatomic", "StoreUint64": "simatomic",
		"SwapInt32": "simatomic", "SwapInt64": "simatomic", "SwapUint32": "simatomic",
		"CompareAndSwapInt32": "simatomic", "CompareAndSwapInt64": "simatomic", "CompareAndSwapUint32": "simatomic", "CompareAndSwapUint64": "simatomic",
		"LoadPointer": "simatomic", "StorePointer": "simatomic", "SwapPointer": "simatomic", "CompareAndSwapPointer": "simatomic",
		"Bool": "simatomic", "Int32": "simatomic", "Int64": "simatomic", "Uint32": "simatomic", "Uint64": "simatomic", "Value": "simatomic", "Pointer": "simatomic",
	},
	"time": {
		"Now": "simtime", "Since": "simtime", "Until": "simtime", "Sleep": "simtime", "After": "simtime", "AfterFunc": "simtime",
		"NewTimer": "simtime", "NewTicker": "simtime", "Timer": "simtime", "Ticker": "simtime",
	},
	"runtime": {"Gosched": "simruntime"},
	"context": {
		"WithCancel": "simcontext", "WithCancelCause": "simcontext", "WithTimeout": "simcontext", "WithTimeoutCause": "simcontext",
		"WithDeadline": "simcontext", "WithDeadlineCause": "simcontext",
	},
}

// names of these packages that must not be used un-shimmed (would block the token holder or read a real clock)
var forbidden = map[string]map[string]bool{
	"sync":        {"WaitGroup": true, "Cond": true, "NewCond": true, "Pool": false},
	"time":        {"Tick": true},
	"sync/atomic": {},
}

var lenient bool // test files: leave constructs without a shim alone

type fileCtx struct {
	pkg      *packages.Package
	file     *ast.File
	need     map[string]bool
	changed  bool
	errs     []string
	selCount int
	remain   map[string]int // import path -> remaining un-rewritten uses
}

func (c *fileCtx) errf(pos token.Pos, f string, a ...interface{}) {
	c.errs = append(c.errs, fmt.Sprintf("%s: %s", c.pkg.Fset.Position(pos), fmt.Sprintf(f, a...)))
}

func sel(pkg, name string) *ast.SelectorExpr {
	return &ast.SelectorExpr{X: ast.NewIdent(pkg), Sel: ast.NewIdent(name)}
}

func call(fn ast.Expr, args ...ast.Expr) *ast.CallExpr { return &ast.CallExpr{Fun: fn, Args: args} }

func (c *fileCtx) isChan(e ast.Expr) bool {
	t := c.pkg.TypesInfo.TypeOf(e)
	if t == nil {
		return false
	}
	_, ok := t.Underlying().(*types.Chan)
	return ok
}

func isSimCall(e ast.Expr, name string) (*ast.CallExpr, bool) {
	ce, ok := e.(*ast.CallExpr)
	if !ok {
		return nil, false
	}
	s, ok := ce.Fun.(*ast.SelectorExpr)
	if !ok {
		return nil, false
	}
	x, ok := s.X.(*ast.Ident)
	if !ok || x.Name != "simrt" || s.Sel.Name != name {
		return nil, false
	}
	return ce, true
}

func (c *fileCtx) site(pos token.Pos) ast.Expr {
	p := c.pkg.Fset.Position(pos)
	name := p.Filename
	if i := strings.LastIndex(name, "/"); i >= 0 {
		name = name[i+1:]
	}
	return &ast.BasicLit{Kind: token.STRING, Value: strconv.Quote(fmt.Sprintf("%s:%d", name, p.Line))}
}

func (c *fileCtx) rewrite() {
	info := c.pkg.TypesInfo
	// labelled selects are not supported
	ast.Inspect(c.file, func(n ast.Node) bool {
		if l, ok := n.(*ast.LabeledStmt); ok {
			if _, ok := l.Stmt.(*ast.SelectStmt); ok {
				c.errf(l.Pos(), "labelled select is not supported")
			}
		}
		return true
	})
	post := func(cur *astutil.Cursor) bool {
		switch n := cur.Node().(type) {
		case *ast.SelectorExpr:
			id, ok := n.X.(*ast.Ident)
			if !ok {
				return true
			}
			pn, ok := info.Uses[id].(*types.PkgName)
			if !ok {
				return true
			}
			path := pn.Imported().Path()
			t, ok := table[path]
			if !ok {
				return true
			}
			if shim, ok := t[n.Sel.Name]; ok {
				cur.Replace(sel(shim, n.Sel.Name))
				c.need[shim] = true
				c.changed = true
				return true
			}
			if forbidden[path][n.Sel.Name] && !lenient {
				c.errf(n.Pos(), "%s.%s has no shim", path, n.Sel.Name)
			}
			c.remain[path]++
		case *ast.GoStmt:
			c.changed = true
			c.need["simrt"] = true
			var pre []ast.Stmt
			callExpr := n.Call
			// hoist arguments that are not function literals / constants so they are evaluated now
			newArgs := make([]ast.Expr, len(callExpr.Args))
			for i, a := range callExpr.Args {
				switch a.(type) {
				case *ast.FuncLit, *ast.BasicLit:
					newArgs[i] = a
				default:
					c.selCount++
					name := fmt.Sprintf("_ga%d", c.selCount)
					pre = append(pre, &ast.AssignStmt{Lhs: []ast.Expr{ast.NewIdent(name)}, Tok: token.DEFINE, Rhs: []ast.Expr{a}})
					newArgs[i] = ast.NewIdent(name)
				}
			}
			fun := callExpr.Fun
			if _, isLit := fun.(*ast.FuncLit); !isLit {
				if _, isIdent := fun.(*ast.Ident); !isIdent {
					// method value or selector: evaluate the function value now
					c.selCount++
					name := fmt.Sprintf("_gf%d", c.selCount)
					pre = append(pre, &ast.AssignStmt{Lhs: []ast.Expr{ast.NewIdent(name)}, Tok: token.DEFINE, Rhs: []ast.Expr{fun}})
					fun = ast.NewIdent(name)
				}
			}
			inner := &ast.CallExpr{Fun: fun, Args: newArgs, Ellipsis: callExpr.Ellipsis}
			lit := &ast.FuncLit{Type: &ast.FuncType{Params: &ast.FieldList{}}, Body: &ast.BlockStmt{List: []ast.Stmt{&ast.ExprStmt{X: inner}}}}
			goCall := &ast.ExprStmt{X: call(sel("simrt", "Go"), c.site(n.Pos()), lit)}
			if len(pre) == 0 {
				cur.Replace(goCall)
			} else {
				cur.Replace(&ast.BlockStmt{List: append(pre, goCall)})
			}
		case *ast.SendStmt:
			c.changed = true
			c.need["simrt"] = true
			cur.Replace(&ast.ExprStmt{X: call(sel("simrt", "Send"), n.Chan, n.Value)})
		case *ast.UnaryExpr:
			if n.Op != token.ARROW {
				return true
			}
			c.changed = true
			c.need["simrt"] = true
			// two-value form?
			two := false
			switch p := cur.Parent().(type) {
			case *ast.AssignStmt:
				if len(p.Lhs) == 2 && len(p.Rhs) == 1 {
					two = true
				}
			case *ast.ValueSpec:
				if len(p.Names) == 2 && len(p.Values) == 1 {
					two = true
				}
			}
			if two {
				cur.Replace(call(sel("simrt", "Recv2"), n.X))
			} else {
				cur.Replace(call(sel("simrt", "Recv"), n.X))
			}
		case *ast.CallExpr:
			if id, ok := n.Fun.(*ast.Ident); ok && id.Name == "close" && len(n.Args) == 1 {
				if _, isBuiltin := info.Uses[id].(*types.Builtin); isBuiltin {
					c.changed = true
					c.need["simrt"] = true
					cur.Replace(call(sel("simrt", "Close"), n.Args[0]))
				}
			}
		case *ast.RangeStmt:
			if !c.isChan(n.X) {
				return true
			}
			c.changed = true
			c.need["simrt"] = true
			c.selCount++
			okName := fmt.Sprintf("_rok%d", c.selCount)
			var recv ast.Stmt
			if n.Key != nil {
				tok := n.Tok
				if id, ok := n.Key.(*ast.Ident); ok && id.Name == "_" {
					tok = token.DEFINE
				}
				if tok == token.DEFINE {
					recv = &ast.AssignStmt{Lhs: []ast.Expr{n.Key, ast.NewIdent(okName)}, Tok: token.DEFINE, Rhs: []ast.Expr{call(sel("simrt", "Recv2"), n.X)}}
				} else {
					// assignment form: need a declared ok
					recv = &ast.BlockStmt{List: []ast.Stmt{}}
					c.errf(n.Pos(), "range over channel with '=' is not supported")
				}
			} else {
				recv = &ast.AssignStmt{Lhs: []ast.Expr{ast.NewIdent("_"), ast.NewIdent(okName)}, Tok: token.DEFINE, Rhs: []ast.Expr{call(sel("simrt", "Recv2"), n.X)}}
			}
			brk := &ast.IfStmt{Cond: &ast.UnaryExpr{Op: token.NOT, X: ast.NewIdent(okName)}, Body: &ast.BlockStmt{List: []ast.Stmt{&ast.BranchStmt{Tok: token.BREAK}}}}
			body := &ast.BlockStmt{List: append([]ast.Stmt{recv, brk}, n.Body.List...)}
			cur.Replace(&ast.ForStmt{Body: body})
		case *ast.SelectStmt:
			c.rewriteSelect(cur, n)
		}
		return true
	}
	astutil.Apply(c.file, nil, post)
}

func (c *fileCtx) rewriteSelect(cur *astutil.Cursor, n *ast.SelectStmt) {
	c.changed = true
	c.need["simrt"] = true
	type cs struct {
		ch   ast.Expr
		lhs  []ast.Expr
		tok  token.Token
		body []ast.Stmt
	}
	type sendCase struct {
		ch, val ast.Expr
		body    []ast.Stmt
	}
	var sends []sendCase
	var cases []cs
	var defBody []ast.Stmt
	hasDef := false
	for _, s := range n.Body.List {
		cc := s.(*ast.CommClause)
		if cc.Comm == nil {
			hasDef = true
			defBody = cc.Body
			continue
		}
		switch st := cc.Comm.(type) {
		case *ast.ExprStmt:
			if ce, ok := isSimCall(st.X, "Recv"); ok {
				cases = append(cases, cs{ch: ce.Args[0], body: cc.Body})
				continue
			}
			if ce, ok := isSimCall(st.X, "Send"); ok {
				sends = append(sends, sendCase{ch: ce.Args[0], val: ce.Args[1], body: cc.Body})
				continue
			}
			c.errf(cc.Pos(), "unsupported select case")
			return
		case *ast.AssignStmt:
			if len(st.Rhs) == 1 {
				if ce, ok := isSimCall(st.Rhs[0], "Recv"); ok {
					cases = append(cases, cs{ch: ce.Args[0], lhs: st.Lhs, tok: st.Tok, body: cc.Body})
					continue
				}
				if ce, ok := isSimCall(st.Rhs[0], "Recv2"); ok {
					cases = append(cases, cs{ch: ce.Args[0], lhs: st.Lhs, tok: st.Tok, body: cc.Body})
					continue
				}
			}
			c.errf(cc.Pos(), "unsupported select case")
			return
		default:
			c.errf(cc.Pos(), "unsupported select case")
			return
		}
	}
	if len(sends) == 1 && len(cases) == 0 && hasDef {
		// a non-blocking send, `select { case ch <- v: A; default: B }`
		sw := &ast.SwitchStmt{Body: &ast.BlockStmt{List: []ast.Stmt{
			&ast.CaseClause{List: []ast.Expr{call(sel("simrt", "TrySend"), sends[0].ch, sends[0].val)}, Body: sends[0].body},
			&ast.CaseClause{List: nil, Body: defBody},
		}}}
		cur.Replace(sw)
		return
	}
	if len(sends) > 1 || (len(sends) == 1 && len(cases) > 3) {
		c.errf(n.Pos(), "select with %d send and %d receive cases is not supported (one send case and up to three receive cases are)", len(sends), len(cases))
		return
	}
	if len(sends) == 0 && (len(cases) == 0 || len(cases) > 4) {
		c.errf(n.Pos(), "select with %d receive cases is not supported", len(cases))
		return
	}
	c.selCount++
	id := c.selCount
	idx := fmt.Sprintf("_si%d", id)
	lhs := []ast.Expr{ast.NewIdent(idx)}
	var blanks, vals []ast.Expr
	args := []ast.Expr{ast.NewIdent(strconv.FormatBool(hasDef))}
	fn := fmt.Sprintf("Select%d", len(cases))
	base := 0 // switch value of the first receive case
	if len(sends) == 1 {
		// one send case (switch value 0) and up to three receive cases (1..3)
		fn = fmt.Sprintf("SelectSend%d", len(cases))
		base = 1
		args = append(args, sends[0].ch, sends[0].val)
	}
	for i, k := range cases {
		v := fmt.Sprintf("_sv%d_%d", id, i)
		o := fmt.Sprintf("_so%d_%d", id, i)
		lhs = append(lhs, ast.NewIdent(v), ast.NewIdent(o))
		blanks = append(blanks, ast.NewIdent("_"), ast.NewIdent("_"))
		vals = append(vals, ast.NewIdent(v), ast.NewIdent(o))
		args = append(args, k.ch)
	}
	first := &ast.AssignStmt{Lhs: lhs, Tok: token.DEFINE, Rhs: []ast.Expr{call(sel("simrt", fn), args...)}}
	stmts := []ast.Stmt{first}
	if len(vals) > 0 {
		stmts = append(stmts, &ast.AssignStmt{Lhs: blanks, Tok: token.ASSIGN, Rhs: vals})
	}
	sw := &ast.SwitchStmt{Tag: ast.NewIdent(idx), Body: &ast.BlockStmt{}}
	if len(sends) == 1 {
		sw.Body.List = append(sw.Body.List, &ast.CaseClause{List: []ast.Expr{&ast.BasicLit{Kind: token.INT, Value: "0"}}, Body: sends[0].body})
	}
	for i, k := range cases {
		var body []ast.Stmt
		if len(k.lhs) > 0 {
			rhs := []ast.Expr{ast.NewIdent(fmt.Sprintf("_sv%d_%d", id, i))}
			if len(k.lhs) == 2 {
				rhs = append(rhs, ast.NewIdent(fmt.Sprintf("_so%d_%d", id, i)))
			}
			tok := k.tok
			allBlank := true
			for _, l := range k.lhs {
				if li, ok := l.(*ast.Ident); !ok || li.Name != "_" {
					allBlank = false
				}
			}
			if allBlank {
				tok = token.ASSIGN
			}
			body = append(body, &ast.AssignStmt{Lhs: k.lhs, Tok: tok, Rhs: rhs})
		}
		body = append(body, k.body...)
		sw.Body.List = append(sw.Body.List, &ast.CaseClause{List: []ast.Expr{&ast.BasicLit{Kind: token.INT, Value: strconv.Itoa(i + base)}}, Body: body})
	}
	if hasDef {
		sw.Body.List = append(sw.Body.List, &ast.CaseClause{List: nil, Body: defBody})
	}
	stmts = append(stmts, sw)
	cur.Replace(&ast.BlockStmt{List: stmts})
}

var shimPaths = map[string]string{
	"simrt": "rosim/simrt", "simsync": "rosim/simsync", "simatomic": "rosim/simatomic", "simtime": "rosim/simtime",
	"simruntime": "rosim/simruntime", "simcontext": "rosim/simcontext",
}

func main() {
	dir := flag.String("dir", ".", "module directory")
	verbose := flag.Bool("v", false, "verbose")
	withTests := flag.Bool("tests", false, "also rewrite _test.go files (transparency self-test); constructs without a shim are left alone there")
	flag.Parse()
	patterns := flag.Args()
	if len(patterns) == 0 {
		patterns = []string{"."}
	}
	cfg := &packages.Config{
		Mode: packages.NeedName | packages.NeedFiles | packages.NeedCompiledGoFiles | packages.NeedSyntax | packages.NeedTypes | packages.NeedTypesInfo | packages.NeedImports | packages.NeedDeps,
		Dir:   *dir,
		Tests: *withTests,
	}
	pkgs, err := packages.Load(cfg, patterns...)
	if err != nil {
		fmt.Fprintln(os.Stderr, "instr: load:", err)
		os.Exit(2)
	}
	bad := false
	nfiles, nchanged := 0, 0
	counts := map[string]int{}
	doneFiles := map[string]bool{}
	for _, p := range pkgs {
		for _, e := range p.Errors {
			fmt.Fprintln(os.Stderr, "instr: package error:", e)
			bad = true
		}
		for i, f := range p.Syntax {
			if i >= len(p.CompiledGoFiles) || doneFiles[p.CompiledGoFiles[i]] || !strings.HasSuffix(p.CompiledGoFiles[i], ".go") || strings.Contains(p.CompiledGoFiles[i], "/go-build/") {
				continue
			}
			doneFiles[p.CompiledGoFiles[i]] = true
			lenient = strings.HasSuffix(p.CompiledGoFiles[i], "_test.go")
			nfiles++
			c := &fileCtx{pkg: p, file: f, need: map[string]bool{}, remain: map[string]int{}}
			c.rewrite()
			if len(c.errs) > 0 {
				for _, e := range c.errs {
					fmt.Fprintln(os.Stderr, "instr:", e)
				}
				bad = true
				continue
			}
			if !c.changed {
				continue
			}
			nchanged++
			var shims []string
			for s := range c.need {
				shims = append(shims, s)
			}
			sort.Strings(shims)
			for _, s := range shims {
				astutil.AddNamedImport(p.Fset, f, s, shimPaths[s])
				counts[s]++
			}
			for path := range table {
				if c.remain[path] == 0 {
					// drop the import when nothing references it any more
					for _, imp := range f.Imports {
						ip, _ := strconv.Unquote(imp.Path.Value)
						if ip == path {
							if imp.Name != nil {
								if imp.Name.Name == "_" || imp.Name.Name == "." {
									continue
								}
								astutil.DeleteNamedImport(p.Fset, f, imp.Name.Name, path)
							} else {
								astutil.DeleteImport(p.Fset, f, path)
							}
						}
					}
				}
			}
			// comments inside rewritten code would be re-attached at arbitrary places: keep only the header
			// (test files keep theirs: some carry directives such as go:linkname)
			var keep []*ast.CommentGroup
			if lenient {
				keep = f.Comments
			}
			for _, cg := range f.Comments {
				if lenient {
					break
				}
				if cg.End() < f.Package {
					keep = append(keep, cg)
					continue
				}
				for _, cm := range cg.List {
					if strings.HasPrefix(cm.Text, "//go:") && !lenient {
						fmt.Fprintf(os.Stderr, "instr: %s: directive comment in a rewritten file\n", p.Fset.Position(cm.Pos()))
						bad = true
					}
				}
			}
			f.Comments = keep
			ast.Inspect(f, func(n ast.Node) bool {
				if lenient {
					return false
				}
				switch d := n.(type) {
				case *ast.FuncDecl:
					d.Doc = nil
				case *ast.GenDecl:
					d.Doc = nil
				case *ast.Field:
					d.Doc, d.Comment = nil, nil
				case *ast.TypeSpec:
					d.Doc, d.Comment = nil, nil
				case *ast.ValueSpec:
					d.Doc, d.Comment = nil, nil
				case *ast.ImportSpec:
					d.Doc, d.Comment = nil, nil
				}
				return true
			})
			var buf bytes.Buffer
			if err := format.Node(&buf, p.Fset, f); err != nil {
				fmt.Fprintln(os.Stderr, "instr: print:", err)
				bad = true
				continue
			}
			name := p.CompiledGoFiles[i]
			if err := os.WriteFile(name, buf.Bytes(), 0o644); err != nil {
				fmt.Fprintln(os.Stderr, "instr: write:", err)
				bad = true
			}
			if *verbose {
				fmt.Println("instr: rewrote", name, shims)
			}
		}
	}
	if bad {
		os.Exit(2)
	}
	fmt.Printf("instr: %d files scanned, %d rewritten, shim imports %v\n", nfiles, nchanged, counts)
}
