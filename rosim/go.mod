module rosim

go 1.23
