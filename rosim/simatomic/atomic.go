// Package simatomic replaces the parts of sync/atomic that samber/ro uses: the real operation,
// preceded by an optional scheduling point.
package simatomic

import (
	"sync/atomic"
	"unsafe"

	"rosim/simrt"
)

//go:norace
func y(addr unsafe.Pointer) {
	k := simrt.K
	if k == nil {
		if simrt.Jitter != nil {
			simrt.Jitter()
		}
		return
	}
	if !simrt.Active() {
		return
	}
	k.NoteAtomic(uintptr(addr))
	if k.YieldAtomics() {
		simrt.Yield(simrt.KAtomic, uintptr(addr))
	}
}

// w is called after an operation that may have modified the word: spin-waiters on it may retry.
//
//go:norace
func w(addr unsafe.Pointer) {
	if k := simrt.K; k != nil && simrt.Active() {
		k.Notify(uintptr(addr))
	}
}

// after a store-like operation spinners/pollers on plain words may proceed: they are modelled with
// Gosched, which any step re-enables, so nothing else is needed here.

//go:norace
func AddInt32(addr *int32, delta int32) int32 {
	y(unsafe.Pointer(addr))
	defer w(unsafe.Pointer(addr))
	return atomic.AddInt32(addr, delta)
}

//go:norace
func AddInt64(addr *int64, delta int64) int64 {
	y(unsafe.Pointer(addr))
	defer w(unsafe.Pointer(addr))
	return atomic.AddInt64(addr, delta)
}

//go:norace
func AddUint32(addr *uint32, delta uint32) uint32 {
	y(unsafe.Pointer(addr))
	defer w(unsafe.Pointer(addr))
	return atomic.AddUint32(addr, delta)
}

//go:norace
func AddUint64(addr *uint64, delta uint64) uint64 {
	y(unsafe.Pointer(addr))
	defer w(unsafe.Pointer(addr))
	return atomic.AddUint64(addr, delta)
}

//go:norace
func LoadInt32(addr *int32) int32 { y(unsafe.Pointer(addr)); return atomic.LoadInt32(addr) }

//go:norace
func LoadInt64(addr *int64) int64 { y(unsafe.Pointer(addr)); return atomic.LoadInt64(addr) }

//go:norace
func LoadUint32(addr *uint32) uint32 { y(unsafe.Pointer(addr)); return atomic.LoadUint32(addr) }

//go:norace
func LoadUint64(addr *uint64) uint64 { y(unsafe.Pointer(addr)); return atomic.LoadUint64(addr) }

//go:norace
func StoreInt32(addr *int32, v int32) {
	y(unsafe.Pointer(addr))
	defer w(unsafe.Pointer(addr))
	atomic.StoreInt32(addr, v)
}

//go:norace
func StoreInt64(addr *int64, v int64) {
	y(unsafe.Pointer(addr))
	defer w(unsafe.Pointer(addr))
	atomic.StoreInt64(addr, v)
}

//go:norace
func StoreUint32(addr *uint32, v uint32) {
	y(unsafe.Pointer(addr))
	defer w(unsafe.Pointer(addr))
	atomic.StoreUint32(addr, v)
}

//go:norace
func StoreUint64(addr *uint64, v uint64) {
	y(unsafe.Pointer(addr))
	defer w(unsafe.Pointer(addr))
	atomic.StoreUint64(addr, v)
}

//go:norace
func SwapInt32(addr *int32, v int32) int32 {
	y(unsafe.Pointer(addr))
	defer w(unsafe.Pointer(addr))
	return atomic.SwapInt32(addr, v)
}

//go:norace
func SwapInt64(addr *int64, v int64) int64 {
	y(unsafe.Pointer(addr))
	defer w(unsafe.Pointer(addr))
	return atomic.SwapInt64(addr, v)
}

//go:norace
func SwapUint32(addr *uint32, v uint32) uint32 {
	y(unsafe.Pointer(addr))
	defer w(unsafe.Pointer(addr))
	return atomic.SwapUint32(addr, v)
}

//go:norace
func CompareAndSwapInt32(addr *int32, old, new int32) bool {
	y(unsafe.Pointer(addr))
	ok := atomic.CompareAndSwapInt32(addr, old, new)
	if ok {
		w(unsafe.Pointer(addr))
	}
	return ok
}

//go:norace
func CompareAndSwapInt64(addr *int64, old, new int64) bool {
	y(unsafe.Pointer(addr))
	ok := atomic.CompareAndSwapInt64(addr, old, new)
	if ok {
		w(unsafe.Pointer(addr))
	}
	return ok
}

//go:norace
func CompareAndSwapUint32(addr *uint32, old, new uint32) bool {
	y(unsafe.Pointer(addr))
	ok := atomic.CompareAndSwapUint32(addr, old, new)
	if ok {
		w(unsafe.Pointer(addr))
	}
	return ok
}

//go:norace
func CompareAndSwapUint64(addr *uint64, old, new uint64) bool {
	y(unsafe.Pointer(addr))
	ok := atomic.CompareAndSwapUint64(addr, old, new)
	if ok {
		w(unsafe.Pointer(addr))
	}
	return ok
}

//go:norace
func LoadPointer(addr *unsafe.Pointer) unsafe.Pointer {
	y(unsafe.Pointer(addr))
	return atomic.LoadPointer(addr)
}

//go:norace
func StorePointer(addr *unsafe.Pointer, v unsafe.Pointer) {
	y(unsafe.Pointer(addr))
	defer w(unsafe.Pointer(addr))
	atomic.StorePointer(addr, v)
}

//go:norace
func SwapPointer(addr *unsafe.Pointer, v unsafe.Pointer) unsafe.Pointer {
	y(unsafe.Pointer(addr))
	defer w(unsafe.Pointer(addr))
	return atomic.SwapPointer(addr, v)
}

//go:norace
func CompareAndSwapPointer(addr *unsafe.Pointer, old, new unsafe.Pointer) bool {
	y(unsafe.Pointer(addr))
	ok := atomic.CompareAndSwapPointer(addr, old, new)
	if ok {
		w(unsafe.Pointer(addr))
	}
	return ok
}

type Bool struct{ v atomic.Bool }

//go:norace
func (b *Bool) Load() bool { y(unsafe.Pointer(b)); return b.v.Load() }

//go:norace
func (b *Bool) Store(x bool) { y(unsafe.Pointer(b)); defer w(unsafe.Pointer(b)); b.v.Store(x) }

//go:norace
func (b *Bool) Swap(x bool) bool {
	y(unsafe.Pointer(b))
	defer w(unsafe.Pointer(b))
	return b.v.Swap(x)
}

//go:norace
func (b *Bool) CompareAndSwap(o, n bool) bool {
	y(unsafe.Pointer(b))
	ok := b.v.CompareAndSwap(o, n)
	if ok {
		w(unsafe.Pointer(b))
	}
	return ok
}

type Int32 struct{ v atomic.Int32 }

//go:norace
func (b *Int32) Load() int32 { y(unsafe.Pointer(b)); return b.v.Load() }

//go:norace
func (b *Int32) Store(x int32) { y(unsafe.Pointer(b)); defer w(unsafe.Pointer(b)); b.v.Store(x) }

//go:norace
func (b *Int32) Add(x int32) int32 {
	y(unsafe.Pointer(b))
	defer w(unsafe.Pointer(b))
	return b.v.Add(x)
}

//go:norace
func (b *Int32) Swap(x int32) int32 {
	y(unsafe.Pointer(b))
	defer w(unsafe.Pointer(b))
	return b.v.Swap(x)
}

//go:norace
func (b *Int32) CompareAndSwap(o, n int32) bool {
	y(unsafe.Pointer(b))
	ok := b.v.CompareAndSwap(o, n)
	if ok {
		w(unsafe.Pointer(b))
	}
	return ok
}

type Int64 struct{ v atomic.Int64 }

//go:norace
func (b *Int64) Load() int64 { y(unsafe.Pointer(b)); return b.v.Load() }

//go:norace
func (b *Int64) Store(x int64) { y(unsafe.Pointer(b)); defer w(unsafe.Pointer(b)); b.v.Store(x) }

//go:norace
func (b *Int64) Add(x int64) int64 {
	y(unsafe.Pointer(b))
	defer w(unsafe.Pointer(b))
	return b.v.Add(x)
}

//go:norace
func (b *Int64) Swap(x int64) int64 {
	y(unsafe.Pointer(b))
	defer w(unsafe.Pointer(b))
	return b.v.Swap(x)
}

//go:norace
func (b *Int64) CompareAndSwap(o, n int64) bool {
	y(unsafe.Pointer(b))
	ok := b.v.CompareAndSwap(o, n)
	if ok {
		w(unsafe.Pointer(b))
	}
	return ok
}

type Uint32 struct{ v atomic.Uint32 }

//go:norace
func (b *Uint32) Load() uint32 { y(unsafe.Pointer(b)); return b.v.Load() }

//go:norace
func (b *Uint32) Store(x uint32) { y(unsafe.Pointer(b)); defer w(unsafe.Pointer(b)); b.v.Store(x) }

//go:norace
func (b *Uint32) Add(x uint32) uint32 {
	y(unsafe.Pointer(b))
	defer w(unsafe.Pointer(b))
	return b.v.Add(x)
}

//go:norace
func (b *Uint32) CompareAndSwap(o, n uint32) bool {
	y(unsafe.Pointer(b))
	ok := b.v.CompareAndSwap(o, n)
	if ok {
		w(unsafe.Pointer(b))
	}
	return ok
}

type Uint64 struct{ v atomic.Uint64 }

//go:norace
func (b *Uint64) Load() uint64 { y(unsafe.Pointer(b)); return b.v.Load() }

//go:norace
func (b *Uint64) Store(x uint64) { y(unsafe.Pointer(b)); defer w(unsafe.Pointer(b)); b.v.Store(x) }

//go:norace
func (b *Uint64) Add(x uint64) uint64 {
	y(unsafe.Pointer(b))
	defer w(unsafe.Pointer(b))
	return b.v.Add(x)
}

//go:norace
func (b *Uint64) CompareAndSwap(o, n uint64) bool {
	y(unsafe.Pointer(b))
	ok := b.v.CompareAndSwap(o, n)
	if ok {
		w(unsafe.Pointer(b))
	}
	return ok
}

type Value struct{ v atomic.Value }

//go:norace
func (b *Value) Load() interface{} { y(unsafe.Pointer(b)); return b.v.Load() }

//go:norace
func (b *Value) Store(x interface{}) { y(unsafe.Pointer(b)); defer w(unsafe.Pointer(b)); b.v.Store(x) }

//go:norace
func (b *Value) Swap(x interface{}) interface{} {
	y(unsafe.Pointer(b))
	defer w(unsafe.Pointer(b))
	return b.v.Swap(x)
}

//go:norace
func (b *Value) CompareAndSwap(o, n interface{}) bool {
	y(unsafe.Pointer(b))
	ok := b.v.CompareAndSwap(o, n)
	if ok {
		w(unsafe.Pointer(b))
	}
	return ok
}

type Pointer[T any] struct{ v atomic.Pointer[T] }

//go:norace
func (b *Pointer[T]) Load() *T { y(unsafe.Pointer(b)); return b.v.Load() }

//go:norace
func (b *Pointer[T]) Store(x *T) { y(unsafe.Pointer(b)); defer w(unsafe.Pointer(b)); b.v.Store(x) }

//go:norace
func (b *Pointer[T]) Swap(x *T) *T {
	y(unsafe.Pointer(b))
	defer w(unsafe.Pointer(b))
	return b.v.Swap(x)
}

//go:norace
func (b *Pointer[T]) CompareAndSwap(o, n *T) bool {
	y(unsafe.Pointer(b))
	ok := b.v.CompareAndSwap(o, n)
	if ok {
		w(unsafe.Pointer(b))
	}
	return ok
}
