// Package simcontext wraps the context constructors that create deadlines or cancel functions, so that
// the kernel knows when a Done channel may have been closed and when a deadline needs the clock.
// The contexts themselves are the standard ones (on the bubble clock).
package simcontext

import (
	"context"
	"time"

	"rosim/simrt"
)

//go:norace
func wrapCancel(c context.CancelFunc) context.CancelFunc {
	return func() {
		c()
		if k := simrt.K; k != nil && simrt.Active() {
			k.NotifyAll()
			simrt.Yield(simrt.KUser, 0)
		}
	}
}

//go:norace
func WithCancel(parent context.Context) (context.Context, context.CancelFunc) {
	ctx, c := context.WithCancel(parent)
	return ctx, wrapCancel(c)
}

//go:norace
func WithCancelCause(parent context.Context) (context.Context, context.CancelCauseFunc) {
	ctx, c := context.WithCancelCause(parent)
	return ctx, func(cause error) {
		c(cause)
		if k := simrt.K; k != nil && simrt.Active() {
			k.NotifyAll()
			simrt.Yield(simrt.KUser, 0)
		}
	}
}

//go:norace
func note(d time.Duration) {
	if k := simrt.K; k != nil && simrt.Active() {
		k.AddExternal(d, "ctx-deadline")
	}
}

//go:norace
func WithTimeout(parent context.Context, d time.Duration) (context.Context, context.CancelFunc) {
	ctx, c := context.WithTimeout(parent, d)
	note(d)
	return ctx, wrapCancel(c)
}

//go:norace
func WithTimeoutCause(parent context.Context, d time.Duration, cause error) (context.Context, context.CancelFunc) {
	ctx, c := context.WithTimeoutCause(parent, d, cause)
	note(d)
	return ctx, wrapCancel(c)
}

//go:norace
func WithDeadline(parent context.Context, t time.Time) (context.Context, context.CancelFunc) {
	ctx, c := context.WithDeadline(parent, t)
	note(time.Until(t))
	return ctx, wrapCancel(c)
}

//go:norace
func WithDeadlineCause(parent context.Context, t time.Time, cause error) (context.Context, context.CancelFunc) {
	ctx, c := context.WithDeadlineCause(parent, t, cause)
	note(time.Until(t))
	return ctx, wrapCancel(c)
}
