package simrt

import (
	"runtime"
	"sync/atomic"
	"unsafe"
)

//go:norace
func chanKey[T any](ch <-chan T) uintptr { return *(*uintptr)(unsafe.Pointer(&ch)) }

//go:norace
func chanKeyS[T any](ch chan<- T) uintptr { return *(*uintptr)(unsafe.Pointer(&ch)) }

// ChanKey exposes the scheduling key of a channel.
//
//go:norace
func ChanKey[T any](ch <-chan T) uintptr { return chanKey(ch) }

// Send is `ch <- v` under the scheduler.
//
//go:norace
func Send[T any](ch chan<- T, v T) {
	k := K
	if k == nil {
		if Jitter != nil {
			Jitter()
		}
		ch <- v
		return
	}
	if ch == nil {
		if k.dying {
			runtime.Goexit()
		}
		for {
			k.Block(KSend)
		}
	}
	key := chanKeyS(ch)
	if k.dying {
		select {
		case ch <- v:
		default:
			runtime.Goexit()
		}
		return
	}
	k.yield(KSend, key)
	if cap(ch) > 0 {
		for {
			select {
			case ch <- v: // panics if closed, like the real thing
				k.Notify(key)
				return
			default:
			}
			k.Block(KSend, key)
		}
	}
	// unbuffered: rendezvous through the kernel
	select {
	case ch <- v: // a real receiver (none in controlled mode) or panic if closed
		k.Notify(key)
		return
	default:
	}
	p := &pendSend{actor: k.cur, val: &v}
	atomic.StoreUint32(&p.hb, 1) // send happens-before the matching receive
	k.pend[key] = append(k.pend[key], p)
	k.Notify(key)
	for {
		k.Block(KSend, key)
		if p.taken {
			return
		}
		// closed meanwhile? a send on a closed channel panics
		func() {
			defer func() {
				if r := recover(); r != nil {
					k.removePend(key, p)
					panic(r)
				}
			}()
			select {
			case ch <- v:
				p.taken = true
				k.removePend(key, p)
			default:
			}
		}()
		if p.taken {
			return
		}
	}
}

//go:norace
func (k *Kernel) removePend(key uintptr, p *pendSend) {
	l := k.pend[key]
	for i, x := range l {
		if x == p {
			l = append(l[:i], l[i+1:]...)
			break
		}
	}
	if len(l) == 0 {
		delete(k.pend, key)
	} else {
		k.pend[key] = l
	}
}

// tryRecv attempts a non-blocking receive, including from senders parked in the kernel.
//
//go:norace
func tryRecv[T any](k *Kernel, ch <-chan T, key uintptr) (v T, ok bool, got bool) {
	select {
	case v, ok = <-ch:
		k.Notify(key)
		return v, ok, true
	default:
	}
	if l := k.pend[key]; len(l) > 0 {
		p := l[0]
		k.removePend(key, p)
		p.taken = true
		atomic.LoadUint32(&p.hb)
		v = *(p.val.(*T))
		k.Notify(key)
		return v, true, true
	}
	return v, false, false
}

// Recv2 is `v, ok := <-ch` under the scheduler.
//
//go:norace
func Recv2[T any](ch <-chan T) (T, bool) {
	k := K
	if k == nil {
		if Jitter != nil {
			Jitter()
		}
		v, ok := <-ch
		return v, ok
	}
	if ch == nil {
		if k.dying {
			runtime.Goexit()
		}
		for {
			k.Block(KRecv)
		}
	}
	key := chanKey(ch)
	if k.dying {
		select {
		case v, ok := <-ch:
			return v, ok
		default:
			runtime.Goexit()
		}
	}
	k.yield(KRecv, key)
	for {
		if v, ok, got := tryRecv(k, ch, key); got {
			return v, ok
		}
		k.wakeSelSenders(key)
		k.Block(KRecv, key)
	}
}

// Recv is `<-ch` under the scheduler.
//
//go:norace
func Recv[T any](ch <-chan T) T {
	v, _ := Recv2(ch)
	return v
}

// Close is the builtin close under the scheduler.
//
//go:norace
func Close[T any](ch chan<- T) {
	k := K
	if k == nil {
		if Jitter != nil {
			Jitter()
		}
		close(ch)
		return
	}
	if k.dying {
		func() {
			defer func() { recover() }()
			close(ch)
		}()
		return
	}
	key := chanKeyS(ch)
	k.yield(KClose, key)
	close(ch)
	k.Notify(key)
}

// TryRecv is a single non-blocking receive (used by harness code and select-with-default).
//
//go:norace
func TryRecv[T any](ch <-chan T) (T, bool, bool) {
	k := K
	if k == nil || k.dying {
		select {
		case v, ok := <-ch:
			return v, ok, true
		default:
			var z T
			return z, false, false
		}
	}
	if ch == nil {
		var z T
		return z, false, false
	}
	return tryRecv(k, ch, chanKey(ch))
}

// TrySend is a single non-blocking send (`select { case ch <- v: ... default: ... }`).
//
//go:norace
func TrySend[T any](ch chan<- T, v T) bool {
	k := K
	if k == nil || k.dying {
		select {
		case ch <- v:
			return true
		default:
			return false
		}
	}
	if ch == nil {
		return false
	}
	key := chanKeyS(ch)
	k.yield(KSend, key)
	select {
	case ch <- v: // buffered with room (panics if closed, like the real thing)
		k.Notify(key)
		return true
	default:
	}
	if cap(ch) == 0 {
		// unbuffered: succeeds iff a receiver is parked on this channel; hand the value over through
		// the kernel (the receiver takes it when it is scheduled next)
		if len(k.pend[key]) == 0 && k.parkedReceiver(key) {
			p := &pendSend{actor: k.cur, val: &v}
			atomic.StoreUint32(&p.hb, 1)
			k.pend[key] = append(k.pend[key], p)
			k.Notify(key)
			return true
		}
	}
	return false
}

// selChoose decides among ready cases (a scheduler decision when several are ready).
//
//go:norace
func (k *Kernel) selChoose(ready []int) int {
	if len(ready) == 1 {
		return ready[0]
	}
	k.Stats.SelectMulti++
	idx := 0
	if k.cfg.Strategy != nil {
		idx = k.cfg.Strategy.Pick(k, nil, false, len(ready))
	}
	if idx < 0 || idx >= len(ready) {
		idx = 0
	}
	k.Decisions = append(k.Decisions, idx)
	k.Stats.Decisions++
	k.ILHash = mix(k.ILHash, 0xdd00|uint64(ready[idx]))
	return ready[idx]
}

//go:norace
func readyRecv[T any](k *Kernel, ch <-chan T) bool {
	if ch == nil {
		return false
	}
	if len(ch) > 0 {
		return true
	}
	if len(k.pend[chanKey(ch)]) > 0 {
		return true
	}
	// closed? only a receive can tell; peek without consuming is impossible for a non-empty
	// channel, but for an empty one a successful receive means closed (or a value that raced in,
	// which cannot happen under the token).
	return isClosedEmpty(ch)
}

//go:norace
func isClosedEmpty[T any](ch <-chan T) bool {
	select {
	case _, ok := <-ch:
		if ok {
			panic("simrt: value appeared on an empty channel under the token")
		}
		return true
	default:
		return false
	}
}

// Select1..4: receive-only select statements. idx = index of the chosen case, -1 = default.
//
//go:norace
func Select1[A any](def bool, c0 <-chan A) (idx int, a A, aok bool) {
	i, a, aok, _, _, _, _, _, _ := Select4[A, struct{}, struct{}, struct{}](def, c0, nil, nil, nil)
	return i, a, aok
}

//go:norace
func Select2[A, B any](def bool, c0 <-chan A, c1 <-chan B) (idx int, a A, aok bool, b B, bok bool) {
	i, a, aok, b, bok, _, _, _, _ := Select4[A, B, struct{}, struct{}](def, c0, c1, nil, nil)
	return i, a, aok, b, bok
}

//go:norace
func Select3[A, B, C any](def bool, c0 <-chan A, c1 <-chan B, c2 <-chan C) (idx int, a A, aok bool, b B, bok bool, c C, cok bool) {
	i, a, aok, b, bok, c, cok, _, _ := Select4[A, B, C, struct{}](def, c0, c1, c2, nil)
	return i, a, aok, b, bok, c, cok
}

//go:norace
func Select4[A, B, C, D any](def bool, c0 <-chan A, c1 <-chan B, c2 <-chan C, c3 <-chan D) (idx int, a A, aok bool, b B, bok bool, c C, cok bool, d D, dok bool) {
	k := K
	if k == nil || k.dying {
		if k == nil && Jitter != nil {
			Jitter()
		}
		if def || (k != nil && k.dying) {
			select {
			case a, aok = <-c0:
				return 0, a, aok, b, bok, c, cok, d, dok
			case b, bok = <-c1:
				return 1, a, aok, b, bok, c, cok, d, dok
			case c, cok = <-c2:
				return 2, a, aok, b, bok, c, cok, d, dok
			case d, dok = <-c3:
				return 3, a, aok, b, bok, c, cok, d, dok
			default:
				if !def {
					runtime.Goexit()
				}
				return -1, a, aok, b, bok, c, cok, d, dok
			}
		}
		select {
		case a, aok = <-c0:
			return 0, a, aok, b, bok, c, cok, d, dok
		case b, bok = <-c1:
			return 1, a, aok, b, bok, c, cok, d, dok
		case c, cok = <-c2:
			return 2, a, aok, b, bok, c, cok, d, dok
		case d, dok = <-c3:
			return 3, a, aok, b, bok, c, cok, d, dok
		}
	}
	var keys []uintptr
	if c0 != nil {
		keys = append(keys, chanKey(c0))
	}
	if c1 != nil {
		keys = append(keys, chanKey(c1))
	}
	if c2 != nil {
		keys = append(keys, chanKey(c2))
	}
	if c3 != nil {
		keys = append(keys, chanKey(c3))
	}
	var fk uintptr
	if len(keys) > 0 {
		fk = keys[0]
	}
	k.yield(KSelect, fk)
	for {
		var ready []int
		if readyRecv(k, c0) {
			ready = append(ready, 0)
		}
		if readyRecv(k, c1) {
			ready = append(ready, 1)
		}
		if readyRecv(k, c2) {
			ready = append(ready, 2)
		}
		if readyRecv(k, c3) {
			ready = append(ready, 3)
		}
		if len(ready) > 0 {
			switch k.selChoose(ready) {
			case 0:
				a, aok, _ = tryRecv(k, c0, chanKey(c0))
				return 0, a, aok, b, bok, c, cok, d, dok
			case 1:
				b, bok, _ = tryRecv(k, c1, chanKey(c1))
				return 1, a, aok, b, bok, c, cok, d, dok
			case 2:
				c, cok, _ = tryRecv(k, c2, chanKey(c2))
				return 2, a, aok, b, bok, c, cok, d, dok
			default:
				d, dok, _ = tryRecv(k, c3, chanKey(c3))
				return 3, a, aok, b, bok, c, cok, d, dok
			}
		}
		if def {
			return -1, a, aok, b, bok, c, cok, d, dok
		}
		k.wakeSelSenders(keys...)
		k.Block(KSelect, keys...)
	}
}

// parkedReceiver reports whether some actor is parked in a receive (or a select with a receive case) on key.
//
//go:norace
func (k *Kernel) parkedReceiver(key uintptr) bool {
	for _, a := range k.actors {
		if a.st == stBlocked && (a.kind == KRecv || a.kind == KSelect) && a.selSend != key {
			for _, x := range a.keys {
				if x == key {
					return true
				}
			}
		}
	}
	return false
}

// SelectSend0..3: a select statement with exactly one send case and up to three receive cases.
// idx = 0: the send happened; 1..3: that receive case; -1: default.
//
//go:norace
func SelectSend0[S any](def bool, sch chan<- S, sv S) (idx int) {
	i, _, _, _, _, _, _ := SelectSend3[S, struct{}, struct{}, struct{}](def, sch, sv, nil, nil, nil)
	return i
}

//go:norace
func SelectSend1[S, A any](def bool, sch chan<- S, sv S, c0 <-chan A) (idx int, a A, aok bool) {
	i, a, aok, _, _, _, _ := SelectSend3[S, A, struct{}, struct{}](def, sch, sv, c0, nil, nil)
	return i, a, aok
}

//go:norace
func SelectSend2[S, A, B any](def bool, sch chan<- S, sv S, c0 <-chan A, c1 <-chan B) (idx int, a A, aok bool, b B, bok bool) {
	i, a, aok, b, bok, _, _ := SelectSend3[S, A, B, struct{}](def, sch, sv, c0, c1, nil)
	return i, a, aok, b, bok
}

//go:norace
func SelectSend3[S, A, B, C any](def bool, sch chan<- S, sv S, c0 <-chan A, c1 <-chan B, c2 <-chan C) (idx int, a A, aok bool, b B, bok bool, c C, cok bool) {
	k := K
	if k == nil || k.dying {
		if k == nil && Jitter != nil {
			Jitter()
		}
		if def || (k != nil && k.dying) {
			select {
			case sch <- sv:
				return 0, a, aok, b, bok, c, cok
			case a, aok = <-c0:
				return 1, a, aok, b, bok, c, cok
			case b, bok = <-c1:
				return 2, a, aok, b, bok, c, cok
			case c, cok = <-c2:
				return 3, a, aok, b, bok, c, cok
			default:
				if !def {
					runtime.Goexit()
				}
				return -1, a, aok, b, bok, c, cok
			}
		}
		select {
		case sch <- sv:
			return 0, a, aok, b, bok, c, cok
		case a, aok = <-c0:
			return 1, a, aok, b, bok, c, cok
		case b, bok = <-c1:
			return 2, a, aok, b, bok, c, cok
		case c, cok = <-c2:
			return 3, a, aok, b, bok, c, cok
		}
	}
	var keys, rkeys []uintptr
	var skey uintptr
	if sch != nil {
		skey = chanKeyS(sch)
		keys = append(keys, skey)
	}
	if c0 != nil {
		rkeys = append(rkeys, chanKey(c0))
	}
	if c1 != nil {
		rkeys = append(rkeys, chanKey(c1))
	}
	if c2 != nil {
		rkeys = append(rkeys, chanKey(c2))
	}
	keys = append(keys, rkeys...)
	me := k.cur
	var fk uintptr
	if len(keys) > 0 {
		fk = keys[0]
	}
	k.yield(KSelect, fk)
	for {
		var ready []int
		if sch != nil {
			if cap(sch) > 0 {
				if len(sch) < cap(sch) {
					ready = append(ready, 0)
				}
			} else {
				// a send on a closed channel panics (as in the real select); otherwise nobody can
				// be receiving for real under the token, so this only probes for "closed"
				select {
				case sch <- sv:
					k.Notify(skey)
					return 0, a, aok, b, bok, c, cok
				default:
				}
				if len(k.pend[skey]) == 0 && k.parkedReceiver(skey) {
					ready = append(ready, 0)
				}
			}
		}
		if readyRecv(k, c0) {
			ready = append(ready, 1)
		}
		if readyRecv(k, c1) {
			ready = append(ready, 2)
		}
		if readyRecv(k, c2) {
			ready = append(ready, 3)
		}
		if len(ready) > 0 {
			switch k.selChoose(ready) {
			case 0:
				if cap(sch) > 0 {
					select {
					case sch <- sv: // panics if closed, like the real thing
						k.Notify(skey)
						return 0, a, aok, b, bok, c, cok
					default:
						panic("simrt: buffered channel filled up under the token")
					}
				}
				// unbuffered: hand the value to the parked receiver through the kernel and wait for it
				p := &pendSend{actor: k.cur, val: &sv}
				atomic.StoreUint32(&p.hb, 1)
				k.pend[skey] = append(k.pend[skey], p)
				k.Notify(skey)
				for !p.taken {
					k.Block(KSend, skey)
				}
				return 0, a, aok, b, bok, c, cok
			case 1:
				a, aok, _ = tryRecv(k, c0, chanKey(c0))
				return 1, a, aok, b, bok, c, cok
			case 2:
				b, bok, _ = tryRecv(k, c1, chanKey(c1))
				return 2, a, aok, b, bok, c, cok
			default:
				c, cok, _ = tryRecv(k, c2, chanKey(c2))
				return 3, a, aok, b, bok, c, cok
			}
		}
		if def {
			return -1, a, aok, b, bok, c, cok
		}
		me.selSend = skey
		k.wakeSelSenders(rkeys...)
		k.Block(KSelect, keys...)
		me.selSend = 0
	}
}
