// Package simrt is the deterministic scheduler kernel of rosim.
//
// Actors are real goroutines, but a single token lets exactly one of them run.
// Every shim call (locks, atomics, channel operations, sleeps, spawns, user
// yields) is a scheduling point at which the seeded chooser decides who runs
// next.  Blocking is modelled explicitly (an actor that cannot proceed parks
// and is re-enabled only by an event on the object it waits for), so deadlock
// and quiescence are exact verdicts, never timeouts.
//
// With no kernel installed (K == nil) every shim passes through to the real
// primitive, so instrumented code behaves exactly like the original.
package simrt

import (
	"fmt"
	"runtime"
	"sort"
	"strings"
	"sync/atomic"
	"time"
)

// Kind of scheduling point.
type Kind uint8

const (
	KStart Kind = iota
	KLock
	KUnlock
	KRLock
	KRUnlock
	KTryLock
	KAtomic
	KSend
	KRecv
	KClose
	KSelect
	KSleep
	KGosched
	KSpawn
	KUser
	KOnce
	KMap
	KTimer
	KEnd
	KSettle
)

var kindNames = [...]string{"start", "lock", "unlock", "rlock", "runlock", "trylock", "atomic", "send", "recv", "close", "select", "sleep", "gosched", "spawn", "user", "once", "map", "timer", "end", "settle"}

//go:norace
func (k Kind) String() string {
	if int(k) < len(kindNames) {
		return kindNames[k]
	}
	return "?"
}

type state uint8

const (
	stRunnable state = iota
	stBlocked
	stSleeping
	stQuiesce
	stDone
)

var stateNames = [...]string{"runnable", "blocked", "sleeping", "quiesce", "done"}

// Actor is one controlled goroutine.
type Actor struct {
	selSend    uintptr // channel key of the send case of the select this actor is blocked in (0: none)
	ID         int
	Site       string
	Lib        bool // spawned by instrumented library code
	Parent     int
	wake       chan struct{}
	flag       int32   // race mode: plain word the parked actor spins on (no happens-before edge)
	lastAtomic uintptr // address of the last atomic operation (what a following spin-wait is spinning on)
	rel        uint32  // race mode: released (atomically) whenever the actor parks or ends; acquired by the driver only
	st         state
	keys       []uintptr
	kind       Kind
	die        bool
	prio       float64
	BornAt     int
	Steps      int
	started    bool
}

//go:norace
func (a *Actor) State() string { return stateNames[a.st] }

//go:norace
func (a *Actor) Done() bool { return a.st == stDone }

//go:norace
func (a *Actor) Blocked() bool { return a.st == stBlocked }

//go:norace
func (a *Actor) Sleeping() bool { return a.st == stSleeping }

//go:norace
func (a *Actor) PendingKind() Kind { return a.kind }

// OnShutdown, when set, is called when a run is over, right before the surviving actors are released.
// (Released actors unwind outside the scheduler's control: what the race detector says about that
// phase is not about the library.)
var OnShutdown func()

// RaceMode is set in binaries built with -race: the token is then passed through a plain word that the
// parked actor polls, instead of a channel. A channel hand-off would order every pair of actors for
// the race detector and hide all races; the plain word creates no happens-before edge, so the detector
// sees exactly the library's own synchronisation (the shims keep using the real primitives for that).
var RaceMode bool

//go:norace
func (a *Actor) park() {
	if RaceMode {
		atomic.StoreUint32(&a.rel, 1)
		for a.flag == 0 {
			runtime.Gosched()
		}
		a.flag = 0
		return
	}
	<-a.wake
}

//go:norace
func (a *Actor) unpark() {
	if RaceMode {
		a.flag = 1
		return
	}
	a.wake <- struct{}{}
}

// Escaped describes a panic that escaped an actor's top-level function.
type Escaped struct {
	Actor int
	Site  string
	Lib   bool
	Value interface{}
	Stack string
}

type evKind uint8

const (
	evChan     evKind = iota // non-blocking send on a timer channel
	evFunc                   // spawn an actor running fn
	evWake                   // wake a sleeping actor
	evExternal               // something outside the kernel fires (std context deadline)
)

type event struct {
	at      time.Duration
	seq     uint64
	kind    evKind
	fire    func(k *Kernel)
	actor   *Actor
	period  time.Duration
	dead    bool
	site    string
	pending bool
}

// Strategy picks among candidates. cands[0] is the current actor when it can continue.
type Strategy interface {
	Pick(k *Kernel, cands []*Actor, curFirst bool, extra int) int
	OnSpawn(k *Kernel, a *Actor)
}

// Config of one run.
type Config struct {
	MaxSteps     int
	Horizon      time.Duration
	YieldAtomics bool
	MapPermute   bool
	Stall        bool // clock may advance while actors are enabled
	Strategy     Strategy
	SleepHook    func(time.Duration) // advance the bubble clock
	WaitHook     func()              // synctest.Wait
	Trace        bool
}

// Stats collected per run.
type Stats struct {
	Steps         int
	Decisions     int
	Switches      int
	MultiPoints   int
	LockContended int
	ChanBlocked   int
	TimerFired    int
	ClockAdvances int
	StallAdvances int
	Spawned       int
	SelectMulti   int
	SameInstant   int
	Goscheds      int
	KindCount     [32]int
}

// Kernel is one simulated execution.
type Kernel struct {
	cfg        Config
	actors     []*Actor
	cur        *Actor
	driver     *Actor
	now        time.Duration
	Epoch      time.Time
	events     []*event
	seq        uint64
	limit      time.Duration // clock may advance up to here during the current Settle
	done       chan struct{}
	killAck    chan struct{}
	dying      bool
	capped     bool
	Deadlocked bool

	Decisions []int
	Stats     Stats
	ILHash    uint64 // interleaving hash (multi-candidate points only)
	LogHash   uint64 // hash of the full event log
	TraceLog  []string
	Escapes   []Escaped
	Fatals    []string

	objIDs  map[uintptr]int
	pend    map[uintptr][]*pendSend
	spin    int
	mapPerm func(n int) []int
}

type pendSend struct {
	hb    uint32
	actor *Actor
	val   interface{}
	taken bool
}

// K is the installed kernel; nil means pass-through.
var K *Kernel

// Jitter, when non-nil and K == nil, is called at every shim point (free-race mode).
var Jitter func()

const fnvOff = 14695981039346656037
const fnvPrime = 1099511628211

//go:norace
func mix(h uint64, v uint64) uint64 {
	for i := 0; i < 8; i++ {
		h ^= v & 0xff
		h *= fnvPrime
		v >>= 8
	}
	return h
}

//go:norace
func mixs(h uint64, s string) uint64 {
	for i := 0; i < len(s); i++ {
		h ^= uint64(s[i])
		h *= fnvPrime
	}
	return h
}

// New creates a kernel. epoch is the wall-clock reading that corresponds to simulated time 0.
//
//go:norace
func New(cfg Config, epoch time.Time) *Kernel {
	if cfg.MaxSteps <= 0 {
		cfg.MaxSteps = 20000
	}
	if cfg.Horizon <= 0 {
		cfg.Horizon = 1000 * time.Hour
	}
	k := &Kernel{cfg: cfg, Epoch: epoch, done: make(chan struct{}), killAck: make(chan struct{}, 1), ILHash: fnvOff, LogHash: fnvOff, objIDs: map[uintptr]int{}, pend: map[uintptr][]*pendSend{}}
	return k
}

// Active reports whether a controlled run is in progress (and not shutting down).
//
//go:norace
func Active() bool { return K != nil && !K.dying }

// Now returns the simulated time since the start of the run.
//
//go:norace
func (k *Kernel) Now() time.Duration { return k.now }

//go:norace
func (k *Kernel) Steps() int { return k.Stats.Steps }

//go:norace
func (k *Kernel) Capped() bool { return k.capped }

//go:norace
func (k *Kernel) Cur() *Actor { return k.cur }

//go:norace
func (k *Kernel) Actors() []*Actor { return k.actors }

//go:norace
func (k *Kernel) YieldAtomics() bool { return k.cfg.YieldAtomics }

//go:norace
func (k *Kernel) MapPermute() bool { return k.cfg.MapPermute }

// ObjID gives a small per-run id to an object key (deterministic: first-seen order).
//
//go:norace
func (k *Kernel) ObjID(key uintptr) int {
	if key == 0 {
		return 0
	}
	id, ok := k.objIDs[key]
	if !ok {
		id = len(k.objIDs) + 1
		k.objIDs[key] = id
	}
	return id
}

// Log records a harness-level event in the event log.
//
//go:norace
func (k *Kernel) Log(s string) {
	k.LogHash = mixs(k.LogHash, s)
	k.LogHash = mix(k.LogHash, uint64(k.Stats.Steps))
	if k.cfg.Trace {
		id := -1 // logged after the run ended (post-run checks)
		if k.cur != nil {
			id = k.cur.ID
		}
		k.TraceLog = append(k.TraceLog, fmt.Sprintf("%d t=%v a%d %s", k.Stats.Steps, k.now, id, s))
	}
}

//go:norace
func (k *Kernel) logStep(a *Actor, kind Kind, key uintptr) {
	// object ids are address based (an address can be reused after a collection), so they appear in
	// human-readable traces only, never in the hash that determinism checks compare
	k.LogHash = mix(k.LogHash, uint64(a.ID)<<16|uint64(kind)<<8)
	if k.cfg.Trace {
		k.TraceLog = append(k.TraceLog, fmt.Sprintf("%d t=%v a%d .%s o%d", k.Stats.Steps, k.now, a.ID, kind, k.ObjID(key)))
	}
}

// Run executes fn as the driver actor (id 0) and returns when the run is over.
// It must be called from a goroutine that is not an actor (inside the bubble if hooks are set).
//
//go:norace
func (k *Kernel) Run(fn func()) {
	if K != nil {
		panic("simrt: nested run")
	}
	K = k
	d := k.newActor("driver", false, -1)
	k.driver = d
	k.startActor(d, fn)
	k.cur = d
	d.unpark()
	<-k.done
	K = nil
}

//go:norace
func (k *Kernel) newActor(site string, lib bool, parent int) *Actor {
	a := &Actor{ID: len(k.actors), Site: site, Lib: lib, Parent: parent, wake: make(chan struct{}, 1), st: stRunnable, kind: KStart, BornAt: k.Stats.Steps}
	k.actors = append(k.actors, a)
	k.Stats.Spawned++
	if k.cfg.Strategy != nil {
		k.cfg.Strategy.OnSpawn(k, a)
	}
	return a
}

//go:norace
func (k *Kernel) startActor(a *Actor, fn func()) {
	go func() {
		a.park()
		if a.die {
			a.st = stDone
			k.killAck <- struct{}{}
			return
		}
		a.started = true
		finished := false
		defer func() {
			r := recover()
			if r != nil {
				buf := make([]byte, 8192)
				n := runtime.Stack(buf, false)
				k.Escapes = append(k.Escapes, Escaped{Actor: a.ID, Site: a.Site, Lib: a.Lib, Value: r, Stack: string(buf[:n])})
				if !k.dying {
					k.Log(fmt.Sprintf("escaped-panic a%d %v", a.ID, r))
				}
			}
			a.st = stDone
			a.kind = KEnd
			if RaceMode {
				atomic.StoreUint32(&a.rel, 1)
			}
			if a.die || k.dying {
				// killed (Goexit) during shutdown
				if a == k.driver {
					k.shutdown()
					return
				}
				k.killAck <- struct{}{}
				return
			}
			_ = finished
			if a == k.driver {
				k.shutdown()
				return
			}
			k.resched()
		}()
		fn()
		finished = true
	}()
}

// shutdown kills every surviving actor (one at a time) and ends the run. Called on the driver's goroutine.
//
//go:norace
func (k *Kernel) shutdown() {
	if OnShutdown != nil {
		OnShutdown()
	}
	k.dying = true
	for _, a := range k.actors {
		if a == k.driver || a.st == stDone {
			continue
		}
		a.die = true
		a.unpark()
		<-k.killAck
	}
	close(k.done)
}

// Go starts f as a new actor. In pass-through mode it is a plain go statement.
//
//go:norace
func Go(site string, f func()) {
	k := K
	if k == nil {
		go f()
		return
	}
	if k.dying {
		return
	}
	k.spawn(site, true, f)
}

// GoHarness starts a harness actor (not counted as a library goroutine).
//
//go:norace
func GoHarness(site string, f func()) *Actor {
	k := K
	if k == nil || k.dying {
		panic("simrt: GoHarness outside a run")
	}
	return k.spawn(site, false, f)
}

//go:norace
func (k *Kernel) spawn(site string, lib bool, f func()) *Actor {
	a := k.newActor(site, lib, k.cur.ID)
	k.startActor(a, f)
	k.yield(KSpawn, 0)
	return a
}

// Yield is a plain scheduling point.
//
//go:norace
func Yield(kind Kind, key uintptr) {
	k := K
	if k == nil {
		if Jitter != nil {
			Jitter()
		}
		return
	}
	if k.dying {
		return
	}
	k.yield(kind, key)
}

//go:norace
func (k *Kernel) yield(kind Kind, key uintptr) {
	me := k.cur
	me.kind = kind
	k.logStep(me, kind, key)
	k.resched()
}

// Block parks the current actor until one of keys is notified. The caller retries its operation afterwards.
//
//go:norace
func (k *Kernel) Block(kind Kind, keys ...uintptr) {
	if k.dying {
		runtime.Goexit()
	}
	me := k.cur
	me.kind = kind
	me.st = stBlocked
	me.keys = append(me.keys[:0], keys...)
	if len(keys) > 0 {
		k.logStep(me, kind, keys[0])
	} else {
		k.logStep(me, kind, 0)
	}
	switch kind {
	case KLock, KRLock:
		k.Stats.LockContended++
	case KSend, KRecv, KSelect:
		k.Stats.ChanBlocked++
	}
	k.resched()
}

const keySpin = ^uintptr(0)

// Gosched models a spin-wait iteration: the actor is disabled until another actor has taken a step.
//
//go:norace
func (k *Kernel) Gosched() {
	if k.dying {
		runtime.Goexit()
	}
	me := k.cur
	me.kind = KGosched
	me.st = stBlocked
	if me.lastAtomic != 0 {
		// a spin-wait on an atomic word (ro's spinlock): event driven like a mutex waiter, re-enabled
		// when somebody modifies that word
		me.keys = append(me.keys[:0], me.lastAtomic)
		k.Stats.Goscheds++
		k.logStep(me, KGosched, me.lastAtomic)
		k.resched()
		return
	}
	me.keys = append(me.keys[:0], keySpin)
	k.spin++
	k.Stats.Goscheds++
	k.logStep(me, KGosched, 0)
	k.resched()
}

// NoteAtomic records the address of the atomic operation the current actor is about to perform.
//
//go:norace
func (k *Kernel) NoteAtomic(addr uintptr) {
	if k.cur != nil {
		k.cur.lastAtomic = addr
	}
}

// Notify re-enables the actors blocked on key.
//
//go:norace
func (k *Kernel) Notify(key uintptr) {
	for _, a := range k.actors {
		if a.st == stBlocked {
			for _, x := range a.keys {
				if x == key {
					a.st = stRunnable
					break
				}
			}
		}
	}
}

// wakeSelSenders re-enables the actors blocked in a select whose send case is on one of the given channels:
// a receiver is about to park there, which makes that case ready (unbuffered rendezvous).
//
//go:norace
func (k *Kernel) wakeSelSenders(keys ...uintptr) {
	for _, a := range k.actors {
		if a.st == stBlocked && a.selSend != 0 {
			for _, x := range keys {
				if x == a.selSend {
					a.st = stRunnable
					break
				}
			}
		}
	}
}

// NotifyAll re-enables every blocked actor (they retry and re-block if nothing changed).
//
//go:norace
func (k *Kernel) NotifyAll() {
	for _, a := range k.actors {
		if a.st == stBlocked {
			a.st = stRunnable
		}
	}
}

//go:norace
func (k *Kernel) wakeSpinners(except *Actor) {
	if k.spin == 0 {
		return
	}
	n := 0
	for _, a := range k.actors {
		if a.st == stBlocked && len(a.keys) == 1 && a.keys[0] == keySpin {
			if a == except {
				n++
				continue
			}
			a.st = stRunnable
		}
	}
	k.spin = n
}

// resched is the heart: called by the current actor at a scheduling point.
//
//go:norace
func (k *Kernel) resched() {
	me := k.cur
	me.Steps++
	k.Stats.Steps++
	k.Stats.KindCount[me.kind]++
	if me.kind != KGosched {
		// me did something other than (re-)entering a spin wait: spinners may retry. (Also when me is
		// about to block or sleep: it may have released what they are spinning on just before.)
		k.wakeSpinners(me)
	}
	if !k.capped && k.Stats.Steps > k.cfg.MaxSteps {
		k.capped = true
	}
	next := k.pick(me)
	if next == me {
		return
	}
	k.cur = next
	if next != nil {
		k.Stats.Switches++
		next.unpark()
	}
	if me.st == stDone {
		return
	}
	me.park()
	if me.die {
		runtime.Goexit()
	}
}

//go:norace
func (k *Kernel) pick(me *Actor) *Actor {
	if k.capped {
		// the run is over: hand control to the driver and let it finish
		d := k.driver
		if me == d && (me.st == stRunnable || me.st == stQuiesce) {
			me.st = stRunnable
			return me
		}
		if d.st == stRunnable || d.st == stQuiesce || d.st == stSleeping {
			d.st = stRunnable
			return d
		}
		// driver blocked on something held by a stalled actor: abort the run
		d.die = true
		if me == d {
			runtime.Goexit()
		}
		return d
	}
	var cands []*Actor
	for {
		cands = cands[:0]
		curFirst := false
		if me.st == stRunnable {
			cands = append(cands, me)
			curFirst = true
		}
		for _, a := range k.actors {
			if a != me && a.st == stRunnable {
				cands = append(cands, a)
			}
		}
		extra := 0
		if k.cfg.Stall && len(cands) > 0 && k.timerDue(k.limit) {
			extra = 1
		}
		if len(cands) == 0 {
			if k.timerDue(k.limit) {
				k.advance(false)
				continue
			}
			d := k.driver
			if d.st == stQuiesce {
				d.st = stRunnable
				return d
			}
			if d.st == stDone {
				return nil
			}
			// the driver itself is stuck and nothing can move: deadlock
			k.Deadlocked = true
			d.die = true
			if me == d {
				runtime.Goexit()
			}
			return d
		}
		if len(cands)+extra == 1 {
			return cands[0]
		}
		k.Stats.MultiPoints++
		idx := 0
		if k.cfg.Strategy != nil {
			idx = k.cfg.Strategy.Pick(k, cands, curFirst, extra)
		}
		if idx < 0 || idx >= len(cands)+extra {
			idx = 0
		}
		k.Decisions = append(k.Decisions, idx)
		k.Stats.Decisions++
		if idx >= len(cands) {
			// stall fault: time passes although somebody could run
			k.Stats.StallAdvances++
			k.ILHash = mix(k.ILHash, 0xfffe)
			k.advance(true)
			continue
		}
		c := cands[idx]
		k.ILHash = mix(k.ILHash, uint64(c.ID)<<8|uint64(c.kind))
		return c
	}
}

//go:norace
func (k *Kernel) timerDue(limit time.Duration) bool {
	e := k.peekEvent()
	return e != nil && e.at <= limit
}

//go:norace
func (k *Kernel) peekEvent() *event {
	var best *event
	for _, e := range k.events {
		if e.dead {
			continue
		}
		if best == nil || e.at < best.at || (e.at == best.at && e.seq < best.seq) {
			best = e
		}
	}
	return best
}

// advance moves the clock to the earliest event and fires exactly one event.
//
//go:norace
func (k *Kernel) advance(stall bool) {
	// compact
	live := k.events[:0]
	for _, e := range k.events {
		if !e.dead {
			live = append(live, e)
		}
	}
	k.events = live
	e := k.peekEvent()
	if e == nil {
		return
	}
	// several events at the same instant: the order is a decision
	var same []*event
	for _, x := range k.events {
		if !x.dead && x.at == e.at {
			same = append(same, x)
		}
	}
	if len(same) > 1 {
		sort.Slice(same, func(i, j int) bool { return same[i].seq < same[j].seq })
		k.Stats.SameInstant++
		idx := 0
		if k.cfg.Strategy != nil {
			idx = k.cfg.Strategy.Pick(k, nil, false, len(same))
		}
		if idx < 0 || idx >= len(same) {
			idx = 0
		}
		k.Decisions = append(k.Decisions, idx)
		k.Stats.Decisions++
		k.ILHash = mix(k.ILHash, 0xee00|uint64(idx))
		e = same[idx]
	}
	if e.at > k.now {
		delta := e.at - k.now
		k.now = e.at
		k.Stats.ClockAdvances++
		if k.cfg.SleepHook != nil {
			k.cfg.SleepHook(delta)
			if k.cfg.WaitHook != nil {
				k.cfg.WaitHook()
			}
			k.NotifyAll()
		}
	}
	k.Stats.TimerFired++
	k.LogHash = mix(k.LogHash, 0xabcd0000|uint64(e.kind))
	if k.cfg.Trace {
		k.TraceLog = append(k.TraceLog, fmt.Sprintf("%d t=%v fire %s kind=%d", k.Stats.Steps, k.now, e.site, e.kind))
	}
	if e.period > 0 {
		e.at += e.period
		k.seq++
		e.seq = k.seq
	} else {
		e.dead = true
	}
	e.fire(k)
}

// AddEvent schedules fire at now+d.
//
//go:norace
func (k *Kernel) addEvent(d time.Duration, period time.Duration, kind evKind, site string, fire func(k *Kernel)) *event {
	if d < 0 {
		d = 0
	}
	k.seq++
	e := &event{at: k.now + d, seq: k.seq, kind: kind, fire: fire, period: period, site: site}
	k.events = append(k.events, e)
	return e
}

// PendingTimers reports the number of live timer events and the earliest instant.
//
//go:norace
func (k *Kernel) PendingTimers() (int, time.Duration) {
	n := 0
	var at time.Duration = -1
	for _, e := range k.events {
		if !e.dead {
			n++
			if at < 0 || e.at < at {
				at = e.at
			}
		}
	}
	return n, at
}

// Settle lets everybody else run until nothing is enabled; the clock may advance up to `until`
// (absolute simulated time; pass k.Now() for "without advancing the clock"). Only the driver calls it.
//
//go:norace
func (k *Kernel) Settle(until time.Duration) {
	if k.cur != k.driver {
		panic("simrt: Settle from a non-driver actor")
	}
	if k.capped || k.dying {
		return
	}
	for {
		k.limit = until
		me := k.cur
		me.kind = KSettle
		me.st = stQuiesce
		k.logStep(me, KSettle, 0)
		k.resched()
		k.limit = k.now
		if RaceMode {
			// like a WaitGroup.Wait in the scenario's main goroutine: what the actors did so far
			// happens-before what the driver does next (one direction only, driver side only)
			for _, a := range k.actors {
				atomic.LoadUint32(&a.rel)
			}
		}
		if k.capped {
			return
		}
		// quiescent w.r.t. the limit; if the limit lies beyond the last event move the clock there
		if !k.timerDue(until) {
			if until > k.now && until < k.cfg.Horizon {
				delta := until - k.now
				k.now = until
				if k.cfg.SleepHook != nil {
					k.cfg.SleepHook(delta)
					if k.cfg.WaitHook != nil {
						k.cfg.WaitHook()
					}
					k.NotifyAll()
					if k.anyRunnable() {
						continue
					}
				}
			}
			return
		}
	}
}

//go:norace
func (k *Kernel) anyRunnable() bool {
	for _, a := range k.actors {
		if a != k.cur && a.st == stRunnable {
			return true
		}
	}
	return false
}

// Sleep parks the current actor for d of simulated time.
//
//go:norace
func (k *Kernel) Sleep(d time.Duration) {
	if k.dying {
		runtime.Goexit()
	}
	me := k.cur
	if d <= 0 {
		k.yield(KSleep, 0)
		return
	}
	me.st = stSleeping
	me.kind = KSleep
	k.addEvent(d, 0, evWake, "sleep", func(k *Kernel) {
		if me.st == stSleeping {
			me.st = stRunnable
		}
	})
	k.logStep(me, KSleep, 0)
	k.resched()
}

// Fatal records a condition that would have killed a real process (e.g. unlock of unlocked mutex).
//
//go:norace
func (k *Kernel) Fatal(msg string) {
	k.Fatals = append(k.Fatals, msg)
	k.Log("fatal " + msg)
}

// Survivors lists actors that have not finished, with what they are waiting for.
//
//go:norace
func (k *Kernel) Survivors() []string {
	var out []string
	for _, a := range k.actors {
		if a.st != stDone && a != k.driver {
			out = append(out, fmt.Sprintf("a%d[%s lib=%v %s %s]", a.ID, a.Site, a.Lib, a.State(), a.kind))
		}
	}
	return out
}

// Describe renders the actor table.
//
//go:norace
func (k *Kernel) Describe() string {
	var sb strings.Builder
	for _, a := range k.actors {
		fmt.Fprintf(&sb, "a%d %s lib=%v %s kind=%s steps=%d\n", a.ID, a.Site, a.Lib, a.State(), a.kind, a.Steps)
	}
	return sb.String()
}

// Permute returns a permutation of [0,n) decided by the strategy (a recorded decision per position).
//
//go:norace
func (k *Kernel) Permute(n int) []int {
	p := make([]int, n)
	for i := range p {
		p[i] = i
	}
	for i := n - 1; i > 0; i-- {
		j := 0
		if k.cfg.Strategy != nil {
			j = k.cfg.Strategy.Pick(k, nil, false, i+1)
		}
		if j < 0 || j > i {
			j = 0
		}
		k.Decisions = append(k.Decisions, j)
		k.Stats.Decisions++
		k.ILHash = mix(k.ILHash, 0xcc00|uint64(j))
		// j == 0 keeps position i unchanged so that an all-zero decision list means insertion order
		if j != 0 {
			p[i], p[i-j] = p[i-j], p[i]
		}
	}
	return p
}
