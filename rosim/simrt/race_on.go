//go:build race

package simrt

func init() { RaceMode = true }
