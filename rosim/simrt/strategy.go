package simrt

// PRNG: SplitMix64 — small, seedable, identical everywhere.
type Rng struct{ s uint64 }

//go:norace
func NewRng(seed uint64) *Rng { return &Rng{s: seed} }

//go:norace
func (r *Rng) Uint64() uint64 {
	r.s += 0x9e3779b97f4a7c15
	z := r.s
	z = (z ^ (z >> 30)) * 0xbf58476d1ce4e5b9
	z = (z ^ (z >> 27)) * 0x94d049bb133111eb
	return z ^ (z >> 31)
}

// Intn returns a value in [0,n).
//
//go:norace
func (r *Rng) Intn(n int) int {
	if n <= 1 {
		return 0
	}
	return int(r.Uint64() % uint64(n))
}

//go:norace
func (r *Rng) Float() float64 { return float64(r.Uint64()>>11) / float64(1<<53) }

//go:norace
func (r *Rng) Bool(p float64) bool { return r.Float() < p }

// Fork derives an independent stream.
//
//go:norace
func (r *Rng) Fork() *Rng { return NewRng(r.Uint64()) }

// Perm returns a permutation of [0,n).
//
//go:norace
func (r *Rng) Perm(n int) []int {
	p := make([]int, n)
	for i := range p {
		p[i] = i
	}
	for i := n - 1; i > 0; i-- {
		j := r.Intn(i + 1)
		p[i], p[j] = p[j], p[i]
	}
	return p
}

// RandomWalk: keep running the current actor with probability 1-P, else pick uniformly.
type RandomWalk struct {
	R *Rng
	P float64
}

//go:norace
func (s *RandomWalk) OnSpawn(k *Kernel, a *Actor) {}

//go:norace
func (s *RandomWalk) Pick(k *Kernel, cands []*Actor, curFirst bool, extra int) int {
	n := len(cands) + extra
	if cands == nil {
		return s.R.Intn(n)
	}
	if curFirst && !s.R.Bool(s.P) {
		return 0
	}
	if extra > 0 && s.R.Bool(0.85) {
		// stall faults are rarer than ordinary switches
		return s.R.Intn(len(cands))
	}
	return s.R.Intn(n)
}

// PCT: random priorities, highest enabled runs; at D change points the running actor's priority drops.
type PCT struct {
	R       *Rng
	Changes map[int]bool // decision indices at which the current priority drops
	low     float64
	n       int
}

//go:norace
func NewPCT(r *Rng, d int, expectedDecisions int) *PCT {
	p := &PCT{R: r, Changes: map[int]bool{}, low: 0}
	if expectedDecisions < 4 {
		expectedDecisions = 4
	}
	for i := 0; i < d; i++ {
		p.Changes[r.Intn(expectedDecisions)] = true
	}
	return p
}

//go:norace
func (s *PCT) OnSpawn(k *Kernel, a *Actor) { a.prio = 1 + s.R.Float() }

//go:norace
func (s *PCT) Pick(k *Kernel, cands []*Actor, curFirst bool, extra int) int {
	if cands == nil {
		return s.R.Intn(extra)
	}
	s.n++
	if s.Changes[s.n] && curFirst {
		s.low -= 1
		cands[0].prio = s.low
	}
	best := 0
	for i, c := range cands {
		if c.prio > cands[best].prio {
			best = i
		}
	}
	if extra > 0 && s.R.Bool(0.05) {
		return len(cands)
	}
	return best
}

// Starve: never schedule the victim while anybody else can run (for the first N decisions), else random walk.
type Starve struct {
	R      *Rng
	Victim int
	N      int
	n      int
}

//go:norace
func (s *Starve) OnSpawn(k *Kernel, a *Actor) {}

//go:norace
func (s *Starve) Pick(k *Kernel, cands []*Actor, curFirst bool, extra int) int {
	if cands == nil {
		return s.R.Intn(extra)
	}
	s.n++
	if s.n > s.N {
		if curFirst && !s.R.Bool(0.3) {
			return 0
		}
		return s.R.Intn(len(cands))
	}
	var ok []int
	for i, c := range cands {
		if c.ID != s.Victim {
			ok = append(ok, i)
		}
	}
	if len(ok) == 0 {
		return 0
	}
	if curFirst && cands[0].ID != s.Victim && !s.R.Bool(0.3) {
		return 0
	}
	return ok[s.R.Intn(len(ok))]
}

// Replay follows a recorded decision list; missing entries are 0 (keep running the current actor).
type Replay struct {
	List []int
	i    int
}

//go:norace
func (s *Replay) OnSpawn(k *Kernel, a *Actor) {}

//go:norace
func (s *Replay) Pick(k *Kernel, cands []*Actor, curFirst bool, extra int) int {
	n := len(cands) + extra
	if cands == nil {
		n = extra
	}
	v := 0
	if s.i < len(s.List) {
		v = s.List[s.i]
	}
	s.i++
	if n <= 0 {
		return 0
	}
	if v < 0 {
		v = 0
	}
	return v % n
}
