package simrt

import (
	"sync/atomic"
	"time"
)

// TimerHandle is a live timer in the event heap.
type TimerHandle struct {
	k *Kernel
	e *event
}

// AddChanTimer registers a timer whose firing performs send (a non-blocking send on its channel).
//
//go:norace
func (k *Kernel) AddChanTimer(d, period time.Duration, site string, send func(now time.Time), key uintptr) *TimerHandle {
	e := k.addEvent(d, period, evChan, site, func(k *Kernel) {
		send(k.Epoch.Add(k.now))
		k.Notify(key)
	})
	return &TimerHandle{k: k, e: e}
}

// AddFuncTimer registers a timer whose firing starts f as a new library actor.
//
//go:norace
func (k *Kernel) AddFuncTimer(d time.Duration, site string, f func()) *TimerHandle {
	// real AfterFunc: everything before the call happens-before the callback. The kernel starts the
	// callback from whichever goroutine advances the clock, so recreate that edge for the race detector.
	var hb uint32
	atomic.StoreUint32(&hb, 1)
	e := k.addEvent(d, 0, evFunc, site, func(k *Kernel) {
		a := k.newActor(site, true, -1)
		k.startActor(a, func() {
			atomic.LoadUint32(&hb)
			f()
		})
	})
	return &TimerHandle{k: k, e: e}
}

// AddExternal registers an instant at which something outside the kernel fires (a std context deadline):
// the clock must reach it; every blocked actor is re-enabled afterwards.
//
//go:norace
func (k *Kernel) AddExternal(d time.Duration, site string) *TimerHandle {
	e := k.addEvent(d, 0, evExternal, site, func(k *Kernel) { k.NotifyAll() })
	return &TimerHandle{k: k, e: e}
}

// Stop cancels the timer; it reports whether the timer was still pending.
//
//go:norace
func (h *TimerHandle) Stop() bool {
	if h.e.dead {
		return false
	}
	h.e.dead = true
	return true
}

// Reset re-arms a one-shot timer.
//
//go:norace
func (h *TimerHandle) Reset(d time.Duration) bool {
	was := !h.e.dead
	k := h.k
	h.e.dead = true
	ne := k.addEvent(d, 0, h.e.kind, h.e.site, h.e.fire)
	h.e = ne
	return was
}

// ResetPeriod changes a ticker's period.
//
//go:norace
func (h *TimerHandle) ResetPeriod(d time.Duration) {
	k := h.k
	h.e.dead = true
	ne := k.addEvent(d, d, h.e.kind, h.e.site, h.e.fire)
	h.e = ne
}
