// Package simruntime replaces runtime.Gosched (the spin-wait of ro's spinlock).
package simruntime

import (
	"runtime"

	"rosim/simrt"
)

//go:norace
func Gosched() {
	k := simrt.K
	if k == nil {
		runtime.Gosched()
		return
	}
	if !simrt.Active() {
		runtime.Goexit()
	}
	k.Gosched()
}
