// Package simsync replaces the parts of package sync that samber/ro uses.
// With no kernel installed every type behaves exactly like its sync counterpart.
package simsync

import (
	"runtime"
	"sync"
	"sync/atomic"
	"unsafe"

	"rosim/simrt"
)

// Mutex is sync.Mutex under the scheduler.
type Mutex struct {
	mu   sync.Mutex
	held int32
}

//go:norace
func (m *Mutex) key() uintptr { return uintptr(unsafe.Pointer(m)) }

//go:norace
func (m *Mutex) Lock() {
	k := simrt.K
	if k == nil {
		if simrt.Jitter != nil {
			simrt.Jitter()
		}
		m.mu.Lock()
		return
	}
	if !simrt.Active() {
		if m.held != 0 {
			runtime.Goexit()
		}
		m.held = 1
		return
	}
	simrt.Yield(simrt.KLock, m.key())
	for m.held != 0 {
		k.Block(simrt.KLock, m.key())
	}
	m.held = 1
	if simrt.RaceMode {
		m.mu.Lock() // uncontended: gives the race detector the library's own happens-before edges
	}
}

//go:norace
func (m *Mutex) TryLock() bool {
	k := simrt.K
	if k == nil {
		return m.mu.TryLock()
	}
	if simrt.Active() {
		simrt.Yield(simrt.KTryLock, m.key())
	}
	if m.held != 0 {
		return false
	}
	m.held = 1
	if simrt.RaceMode && simrt.Active() {
		m.mu.Lock()
	}
	return true
}

//go:norace
func (m *Mutex) Unlock() {
	k := simrt.K
	if k == nil {
		m.mu.Unlock()
		if simrt.Jitter != nil {
			simrt.Jitter()
		}
		return
	}
	if m.held == 0 {
		if simrt.Active() {
			k.Fatal("sync: unlock of unlocked mutex")
		}
		return
	}
	if simrt.RaceMode && simrt.Active() {
		m.mu.Unlock()
	}
	m.held = 0
	if simrt.Active() {
		k.Notify(m.key())
		simrt.Yield(simrt.KUnlock, m.key())
	}
}

// RWMutex is sync.RWMutex under the scheduler.
type RWMutex struct {
	mu      sync.RWMutex
	writer  int32
	readers int32
}

//go:norace
func (m *RWMutex) key() uintptr { return uintptr(unsafe.Pointer(m)) }

//go:norace
func (m *RWMutex) Lock() {
	k := simrt.K
	if k == nil {
		if simrt.Jitter != nil {
			simrt.Jitter()
		}
		m.mu.Lock()
		return
	}
	if !simrt.Active() {
		if m.writer != 0 || m.readers != 0 {
			runtime.Goexit()
		}
		m.writer = 1
		return
	}
	simrt.Yield(simrt.KLock, m.key())
	for m.writer != 0 || m.readers != 0 {
		k.Block(simrt.KLock, m.key())
	}
	m.writer = 1
	if simrt.RaceMode {
		m.mu.Lock()
	}
}

//go:norace
func (m *RWMutex) TryLock() bool {
	k := simrt.K
	if k == nil {
		return m.mu.TryLock()
	}
	if simrt.Active() {
		simrt.Yield(simrt.KTryLock, m.key())
	}
	if m.writer != 0 || m.readers != 0 {
		return false
	}
	m.writer = 1
	return true
}

//go:norace
func (m *RWMutex) Unlock() {
	k := simrt.K
	if k == nil {
		m.mu.Unlock()
		return
	}
	if m.writer == 0 {
		if simrt.Active() {
			k.Fatal("sync: Unlock of unlocked RWMutex")
		}
		return
	}
	if simrt.RaceMode && simrt.Active() {
		m.mu.Unlock()
	}
	m.writer = 0
	if simrt.Active() {
		k.Notify(m.key())
		simrt.Yield(simrt.KUnlock, m.key())
	}
}

//go:norace
func (m *RWMutex) RLock() {
	k := simrt.K
	if k == nil {
		if simrt.Jitter != nil {
			simrt.Jitter()
		}
		m.mu.RLock()
		return
	}
	if !simrt.Active() {
		if m.writer != 0 {
			runtime.Goexit()
		}
		m.readers++
		return
	}
	simrt.Yield(simrt.KRLock, m.key())
	for m.writer != 0 {
		k.Block(simrt.KRLock, m.key())
	}
	m.readers++
	if simrt.RaceMode {
		m.mu.RLock()
	}
}

//go:norace
func (m *RWMutex) TryRLock() bool {
	k := simrt.K
	if k == nil {
		return m.mu.TryRLock()
	}
	if m.writer != 0 {
		return false
	}
	m.readers++
	return true
}

//go:norace
func (m *RWMutex) RUnlock() {
	k := simrt.K
	if k == nil {
		m.mu.RUnlock()
		return
	}
	if m.readers == 0 {
		if simrt.Active() {
			k.Fatal("sync: RUnlock of unlocked RWMutex")
		}
		return
	}
	if simrt.RaceMode && simrt.Active() {
		m.mu.RUnlock()
	}
	m.readers--
	if simrt.Active() {
		k.Notify(m.key())
		simrt.Yield(simrt.KRUnlock, m.key())
	}
}

// Once is sync.Once under the scheduler (a second caller parks instead of blocking the token holder).
type Once struct {
	done uint32
	m    Mutex
}

//go:norace
func (o *Once) Do(f func()) {
	if atomic.LoadUint32(&o.done) == 1 {
		return
	}
	o.m.Lock()
	defer o.m.Unlock()
	if o.done == 0 {
		defer atomic.StoreUint32(&o.done, 1)
		f()
	}
}

// Map is sync.Map whose Range order is deterministic: insertion order, or a kernel-drawn permutation.
type Map struct {
	m     sync.Map
	mu    sync.Mutex
	order []interface{}
}

//go:norace
func (m *Map) note(key interface{}) {
	m.mu.Lock()
	m.order = append(m.order, key)
	m.mu.Unlock()
}

//go:norace
func (m *Map) forget(key interface{}) {
	m.mu.Lock()
	for i, k := range m.order {
		if k == key {
			m.order = append(m.order[:i:i], m.order[i+1:]...)
			break
		}
	}
	m.mu.Unlock()
}

//go:norace
func (m *Map) Load(key interface{}) (interface{}, bool) {
	simrt.Yield(simrt.KMap, 0)
	return m.m.Load(key)
}

//go:norace
func (m *Map) Store(key, value interface{}) {
	simrt.Yield(simrt.KMap, 0)
	if _, loaded := m.m.Swap(key, value); !loaded {
		m.note(key)
	}
}

//go:norace
func (m *Map) LoadOrStore(key, value interface{}) (interface{}, bool) {
	simrt.Yield(simrt.KMap, 0)
	a, loaded := m.m.LoadOrStore(key, value)
	if !loaded {
		m.note(key)
	}
	return a, loaded
}

//go:norace
func (m *Map) LoadAndDelete(key interface{}) (interface{}, bool) {
	simrt.Yield(simrt.KMap, 0)
	v, loaded := m.m.LoadAndDelete(key)
	if loaded {
		m.forget(key)
	}
	return v, loaded
}

//go:norace
func (m *Map) Delete(key interface{}) {
	m.LoadAndDelete(key)
}

//go:norace
func (m *Map) Swap(key, value interface{}) (interface{}, bool) {
	simrt.Yield(simrt.KMap, 0)
	p, loaded := m.m.Swap(key, value)
	if !loaded {
		m.note(key)
	}
	return p, loaded
}

//go:norace
func (m *Map) CompareAndSwap(key, old, new interface{}) bool {
	simrt.Yield(simrt.KMap, 0)
	return m.m.CompareAndSwap(key, old, new)
}

//go:norace
func (m *Map) CompareAndDelete(key, old interface{}) bool {
	simrt.Yield(simrt.KMap, 0)
	ok := m.m.CompareAndDelete(key, old)
	if ok {
		m.forget(key)
	}
	return ok
}

//go:norace
func (m *Map) Range(f func(key, value interface{}) bool) {
	simrt.Yield(simrt.KMap, 0)
	m.mu.Lock()
	keys := append([]interface{}(nil), m.order...)
	m.mu.Unlock()
	if k := simrt.K; k != nil && simrt.Active() && k.MapPermute() && len(keys) > 1 {
		perm := k.Permute(len(keys))
		out := make([]interface{}, len(keys))
		for i, p := range perm {
			out[i] = keys[p]
		}
		keys = out
	}
	for _, key := range keys {
		v, ok := m.m.Load(key)
		if !ok {
			continue
		}
		if !f(key, v) {
			break
		}
	}
}

//go:norace
func (m *Map) Clear() {
	m.m.Range(func(k, _ interface{}) bool { m.m.Delete(k); return true })
	m.mu.Lock()
	m.order = nil
	m.mu.Unlock()
}
