// Package simtime replaces the clock and timer functions of package time that samber/ro uses.
// Under a kernel, timers live in the kernel's event heap on simulated time; otherwise they are
// the real ones.
package simtime

import (
	"time"
	"unsafe"

	"rosim/simrt"
)

// InitDone is kept for compatibility with older harness code; it is not needed any more.
var InitDone bool

// BubbleEpoch is where testing/synctest starts its fake clock.
var BubbleEpoch = time.Date(2000, 1, 1, 0, 0, 0, 0, time.UTC)

// processUptime is how long the process has been "up" when a simulated run starts: ro's
// internal/xtime measures time.Since(<instant captured at package initialisation>), and that instant
// is a real wall-clock reading taken long before the simulated epoch.
const processUptime = time.Hour

var realishCutoff = time.Date(2010, 1, 1, 0, 0, 0, 0, time.UTC)

//go:norace
func Now() time.Time {
	if k := simrt.K; k != nil {
		return k.Epoch.Add(k.Now())
	}
	return time.Now()
}

//go:norace
func Since(t time.Time) time.Duration {
	if k := simrt.K; k != nil && t.After(realishCutoff) {
		// t was read from the real clock (package initialisation), the run lives on the simulated one
		return processUptime + k.Now()
	}
	return Now().Sub(t)
}

//go:norace
func Until(t time.Time) time.Duration { return t.Sub(Now()) }

//go:norace
func Sleep(d time.Duration) {
	k := simrt.K
	if k == nil {
		time.Sleep(d)
		return
	}
	k.Sleep(d)
}

// Timer mirrors time.Timer.
type Timer struct {
	C    <-chan time.Time
	c    chan time.Time
	real *time.Timer
	h    *simrt.TimerHandle
	k    *simrt.Kernel
	fn   func()
}

//go:norace
func NewTimer(d time.Duration) *Timer {
	k := simrt.K
	if k == nil || !simrt.Active() {
		rt := time.NewTimer(d)
		return &Timer{C: rt.C, real: rt}
	}
	c := make(chan time.Time, 1)
	t := &Timer{C: c, c: c, k: k}
	t.h = k.AddChanTimer(d, 0, "timer", func(now time.Time) {
		select {
		case c <- now:
		default:
		}
	}, *(*uintptr)(unsafe.Pointer(&c)))
	simrt.Yield(simrt.KTimer, 0)
	return t
}

//go:norace
func After(d time.Duration) <-chan time.Time { return NewTimer(d).C }

//go:norace
func AfterFunc(d time.Duration, f func()) *Timer {
	k := simrt.K
	if k == nil || !simrt.Active() {
		return &Timer{real: time.AfterFunc(d, f)}
	}
	t := &Timer{k: k, fn: f}
	t.h = k.AddFuncTimer(d, "afterfunc", f)
	simrt.Yield(simrt.KTimer, 0)
	return t
}

//go:norace
func (t *Timer) Stop() bool {
	if t.real != nil {
		return t.real.Stop()
	}
	simrt.Yield(simrt.KTimer, 0)
	return t.h.Stop()
}

//go:norace
func (t *Timer) Reset(d time.Duration) bool {
	if t.real != nil {
		return t.real.Reset(d)
	}
	simrt.Yield(simrt.KTimer, 0)
	return t.h.Reset(d)
}

// Ticker mirrors time.Ticker.
type Ticker struct {
	C    <-chan time.Time
	real *time.Ticker
	h    *simrt.TimerHandle
}

//go:norace
func NewTicker(d time.Duration) *Ticker {
	k := simrt.K
	if k == nil || !simrt.Active() {
		rt := time.NewTicker(d)
		return &Ticker{C: rt.C, real: rt}
	}
	if d <= 0 {
		panic("non-positive interval for NewTicker")
	}
	c := make(chan time.Time, 1)
	t := &Ticker{C: c}
	t.h = k.AddChanTimer(d, d, "ticker", func(now time.Time) {
		select {
		case c <- now:
		default:
		}
	}, *(*uintptr)(unsafe.Pointer(&c)))
	simrt.Yield(simrt.KTimer, 0)
	return t
}

//go:norace
func (t *Ticker) Stop() {
	if t.real != nil {
		t.real.Stop()
		return
	}
	simrt.Yield(simrt.KTimer, 0)
	t.h.Stop()
}

//go:norace
func (t *Ticker) Reset(d time.Duration) {
	if t.real != nil {
		t.real.Reset(d)
		return
	}
	if d <= 0 {
		panic("non-positive interval for Ticker.Reset")
	}
	t.h.ResetPeriod(d)
}
