#!/bin/bash
# Runs the repository's pinned baseline (guard off, no build tags) and compares with BASELINE.json's stable_pass list.
# usage: baseline.sh [outdir]   exit 0 iff every stable_pass test passed
OUT=${1:-/tmp/baseline-$$}
mkdir -p $OUT
: > $OUT/gotest.json
for m in $(cat /w/out/gomods.txt); do MF=$(cd /repo/$m && . /w/out/goenv.sh && gomodflag); (cd /repo/$m && go test $MF -json -vet=off -count=1 -timeout 25m ./... >> $OUT/gotest.json 2>/dev/null); done
python3 - $OUT/gotest.json <<'PY'
import json,sys
passed=set(); failed=set()
for line in open(sys.argv[1]):
    try: e=json.loads(line)
    except Exception: continue
    if e.get('Test') and e.get('Action') in('pass','fail'):
        k=e['Package']+'::'+e['Test']
        (passed if e['Action']=='pass' else failed).add(k)
base=json.load(open('/root/.vp/BASELINE.json'))
stable=set(base['stable_pass'])
missing=sorted(stable-passed)
print("passed",len(passed),"failed",len(failed),"stable",len(stable),"stable-not-passed",len(missing))
for m in missing[:40]: print("  NOT PASSED:",m, "(failed)" if m in failed else "(absent)")
sys.exit(1 if missing else 0)
PY
