#!/bin/bash
# build_worker.sh <scratch-dir> [race]
# Copies /repo's working tree to <scratch>/ro, instruments it, and builds the harness test binary
# <scratch>/worker.test against it. Exit 2 on any build trouble.
set -u
S="$1"; RACE="${2:-}"
export GOPROXY=off GOSUMDB=off GOTOOLCHAIN=local GOFLAGS=-mod=mod
V=/verif
REPO="${VERIF_REPO:-/repo}"
mkdir -p "$S" || exit 2
rm -rf "$S/ro"
rsync -a --exclude .git --exclude docs "$REPO"/ "$S/ro/" || exit 2
[ -x $V/bin/instr ] || (cd $V/instr && go build -o $V/bin/instr .) || exit 2
PKGS=". ./internal/..."
( cd "$S/ro" && GOFLAGS= $V/bin/instr -dir . $PKGS ) > "$S/instr.log" 2>&1 || { cat "$S/instr.log" >&2; echo "instrumenter failed" >&2; exit 2; }
# plugin modules used by the harness (each is its own module inside the workspace)
for m in plugins/ratelimit/native plugins/ratelimit/ulule plugins/stdio plugins/encoding/csv ee/plugins/prometheus; do
  if [ -d "$S/ro/$m" ]; then
    ( cd "$S/ro/$m" && GOFLAGS= $V/bin/instr -dir . . ) >> "$S/instr.log" 2>&1 || { cat "$S/instr.log" >&2; echo "instrumenter failed on $m" >&2; exit 2; }
  fi
done
# harness go.mod pointing at the scratch copy
sed -e "s#@SCRATCH@#$S#g" -e "s#@VERIF@#$V#g" $V/harness/go.mod.tmpl > "$S/harness.mod" || exit 2
cat "$REPO"/go.sum "$REPO"/go.work.sum "$REPO"/plugins/*/go.sum "$REPO"/plugins/*/*/go.sum "$REPO"/ee/go.sum "$REPO"/ee/plugins/*/go.sum $V/harness/extra.sum 2>/dev/null | sort -u > "$S/harness.sum"
TAGS="-tags verif"
RFLAG=""
[ "$RACE" = "race" ] && RFLAG="-race"
( cd $V/harness && GOWORK=off go1.26.8 test -c $RFLAG $TAGS -modfile="$S/harness.mod" -o "$S/worker.test" . ) > "$S/build.log" 2>&1 || { cat "$S/build.log" >&2; echo "harness build failed" >&2; exit 2; }
exit 0
