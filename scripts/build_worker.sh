#!/bin/bash
# build_worker.sh <scratch-dir> [race]
# Copies /repo's working tree to <scratch>/ro, instruments it, and builds the harness test binary
# <scratch>/worker.test against it (Go workspace: scratch copy + /verif/harness + /verif/rosim).
# Exit 2 on any build trouble.
set -u
S="$1"; RACE="${2:-}"
export GOPROXY=off GOSUMDB=off GOTOOLCHAIN=local GOFLAGS=
V=/verif
REPO="${VERIF_REPO:-/repo}"
mkdir -p "$S" || exit 2
rm -rf "$S/ro"
rsync -a --exclude .git --exclude docs "$REPO"/ "$S/ro/" || exit 2
[ -x $V/bin/instr ] || (cd $V/instr && GOFLAGS=-mod=mod go build -o $V/bin/instr .) || exit 2
MODS="plugins/ratelimit/native plugins/ratelimit/ulule plugins/stdio plugins/encoding/csv plugins/encoding/base64 plugins/encoding/json plugins/encoding/gob plugins/sort plugins/strconv plugins/regexp plugins/strings plugins/bytes plugins/time plugins/template ee/plugins/prometheus"
( cd "$S/ro" && $V/bin/instr -dir . . ./internal/... ) > "$S/instr.log" 2>&1 || { cat "$S/instr.log" >&2; echo "instrumenter failed" >&2; exit 2; }
for m in $MODS; do
  if [ -d "$S/ro/$m" ]; then
    # the type-checking load costs ~1 s per module: only load modules that contain something to rewrite
    if ls "$S/ro/$m"/*.go | grep -v _test.go | xargs grep -lE '"sync"|"sync/atomic"|\btime\.(Now|Since|Until|Sleep|After|AfterFunc|NewTimer|NewTicker|Tick)\b|\bgo (func|[a-zA-Z_.]+\()|<-|select \{|\bclose\(|context\.With(Cancel|Timeout|Deadline)|runtime\.Gosched' >/dev/null 2>&1; then
      ( cd "$S/ro/$m" && $V/bin/instr -dir . . ) >> "$S/instr.log" 2>&1 || { cat "$S/instr.log" >&2; echo "instrumenter failed on $m" >&2; exit 2; }
    else
      echo "instr: $m: nothing to rewrite (skipped by pre-filter)" >> "$S/instr.log"
    fi
  fi
done
H=${VERIF_HARNESS_DIR:-$V/harness} # development aid: build a copy of the harness that is being edited
if [ -n "${VERIF_HARNESS_EXCLUDE:-}" ]; then
  # development aid: build from a snapshot of the harness without some files (others are editing them)
  rm -rf "$S/harness"; mkdir -p "$S/harness"
  rsync -a $V/harness/ "$S/harness/"
  for pat in $VERIF_HARNESS_EXCLUDE; do rm -f "$S/harness/"$pat*.go; done
  H="$S/harness"
fi
{
  echo "go 1.26"
  echo "use ("
  echo "  $S/ro"
  for m in $MODS; do [ -d "$S/ro/$m" ] && echo "  $S/ro/$m"; done
  echo "  $H"
  echo "  $V/rosim"
  echo ")"
  echo "replace rosim v0.0.0 => $V/rosim"
  echo "replace github.com/samber/ro v0.0.0 => $S/ro"
  echo "replace github.com/samber/ro/ee v0.0.0 => $S/ro/ee"
  for m in $MODS; do [ -d "$S/ro/$m" ] && echo "replace github.com/samber/ro/$m v0.0.0 => $S/ro/$m"; done
} > "$S/go.work"
cat "$REPO"/go.work.sum $V/harness/extra.sum 2>/dev/null | sort -u > "$S/go.work.sum"
RFLAG=""
[ "$RACE" = "race" ] && RFLAG="-race"
( cd $H && GOWORK="$S/go.work" go1.26.8 test -c $RFLAG -tags verif -o "$S/worker.test" . ) > "$S/build.log" 2>&1 || { cat "$S/build.log" >&2; echo "harness build failed" >&2; exit 2; }
exit 0
