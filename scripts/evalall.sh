#!/bin/bash
for d in "$@"; do
  echo "=== $(basename $d)"
  SKIP_CONFIRM=1 /verif/scripts/mutant.sh $d 2>&1
done
