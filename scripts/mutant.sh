#!/bin/bash
# mutant.sh <mutant-dir> [props...]
# <mutant-dir> holds patch.diff, demo_test.go, meta.json. Step 1 confirms the mutant in a scratch worktree
# (applies, builds, existing tests of the touched package pass, demo fails with / passes without).
# Step 2 runs the quick checks of the given properties (default: the one in meta.json) against a scratch
# copy of /repo with the patch applied (VERIF_REPO), never against /repo itself.
set -u
D=$(readlink -f "$1"); shift
PROPS="$*"
[ -z "$PROPS" ] && PROPS=$(jq -r .property "$D/meta.json")
W=$(mktemp -d /tmp/mutchk-XXXX)
trap 'rm -rf "$W"' EXIT
rsync -a --exclude .git --exclude docs /repo/ "$W/repo/"
cd "$W/repo"
export GOPROXY=off GOSUMDB=off GOTOOLCHAIN=local GOFLAGS=
# every scratch copy has its own path, hence its own build-cache entries (~0.5 GB each): keep them out of the
# default cache and drop them when they pile up (400 evaluations filled the disk once)
export GOCACHE=/tmp/gocache-mut
# (never while another evaluation is using it)
if [ -d "$GOCACHE" ] && [ "$(pgrep -fc 'scripts/mutant.sh')" -le 1 ] && [ "$(du -sm "$GOCACHE" 2>/dev/null | cut -f1)" -gt 30000 ]; then rm -rf "$GOCACHE"; fi
mkdir -p "$GOCACHE"
patch -p1 --dry-run < "$D/patch.diff" > /dev/null 2>&1 || { echo "RESULT patch does not apply"; exit 3; }
FILES=$(grep '^+++ b/' "$D/patch.diff" | sed 's#^+++ b/##')
PKGDIR=$(dirname $(echo "$FILES" | head -1))
DEMOPKG=$(grep -m1 '^package ' "$D/demo_test.go" | awk '{print $2}')
run_demo() { (cd "$W/repo/$PKGDIR" && cp "$D/demo_test.go" ./zz_mutant_demo_test.go && timeout 300 go test -count=1 -vet=off -run 'TestMutantDemo' . > "$W/demo.log" 2>&1; rc=$?; rm -f ./zz_mutant_demo_test.go; return $rc); }
if [ "${SKIP_CONFIRM:-}" = "" ]; then
  run_demo; BASE=$?
  patch -p1 -s < "$D/patch.diff"
  (cd "$W/repo/$PKGDIR" && go build ./... > "$W/build.log" 2>&1) || { echo "RESULT does not build"; cat "$W/build.log" | tail -5; exit 3; }
  (cd "$W/repo/$PKGDIR" && timeout 900 go test -count=1 -vet=off . > "$W/suite.log" 2>&1); SUITE=$?
  FAILS=$(grep -E '^--- FAIL' "$W/suite.log" | grep -v ExampleFuture_ok | tr '\n' ' ')
  run_demo; MUT=$?
  echo "CONFIRM demo_on_unchanged_rc=$BASE demo_on_mutant_rc=$MUT suite_fails=[${FAILS}]"
else
  patch -p1 -s < "$D/patch.diff"
fi
cd /verif
for P in $PROPS; do
  VERIF_REPO="$W/repo" VERIF_BUDGET_S=${VERIF_BUDGET_S:-25} ./check $P --tier quick > "$W/check-$P.log" 2>&1; rc=$?
  echo "CHECK $P rc=$rc $(grep -c '^VIOLATION' "$W/check-$P.log") violations; $(grep '^check ' "$W/check-$P.log" | tail -1)"
  grep -A1 "^VIOLATION" "$W/check-$P.log" | grep fingerprint | head -3
  [ $rc -eq 2 ] && tail -5 "$W/check-$P.log"
done
