#!/bin/bash
# runall.sh [tier] : every check once, summary line each (development aid)
T=${1:-quick}
for n in $(seq -w 1 20); do
  P=C$n
  /verif/check $P --tier $T > /tmp/runall-$P.log 2>&1; rc=$?
  echo "$P rc=$rc $(grep '^check ' /tmp/runall-$P.log | tail -1) $(grep -c '^VIOLATION' /tmp/runall-$P.log) violations $(grep -c '^KNOWN-FINDING' /tmp/runall-$P.log) known"
done
