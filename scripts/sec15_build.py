#!/usr/bin/env python3
# sec15_build.py : rewrites DESIGN.md §15 from scripts/sec15_prose.md + seeded/*/meta.json (development aid)
import glob, json, os, re, subprocess
metas = {}
for d in glob.glob('/verif/seeded/C*-m*'):
    metas[os.path.basename(d)] = json.load(open(d + '/meta.json'))
total = len(metas)
caught = sum(1 for m in metas.values() if m.get('check_result', {}).get('caught'))
nots = sorted((k for k, m in metas.items() if not m.get('check_result', {}).get('caught')), key=lambda k: (k.split('-')[0], int(k.split('-m')[1])))
lines = []
for k in nots:
    why = metas[k].get('not_caught_because', 'NOT JUDGED YET')
    lines.append('* `%s`: %s' % (k, re.sub(r'\s+', ' ', why)))
prose = open('/verif/scripts/sec15_prose.md').read()
prose = prose.replace('@TOTAL@', str(total)).replace('@CAUGHT@', str(caught)).replace('@NOT@', str(len(nots))).replace('@NOTLIST@', '\n'.join(lines))
table = subprocess.check_output(['python3', '/verif/scripts/seeded_table.py']).decode()
s = open('/verif/DESIGN.md').read()
i = s.index('## 15. Seeded changes')
open('/verif/DESIGN.md', 'w').write(s[:i] + prose + table)
print('total', total, 'caught', caught, 'not', nots)
