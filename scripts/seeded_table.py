#!/usr/bin/env python3
# seeded_table.py : prints the markdown table of DESIGN.md §15 from /verif/seeded/*/meta.json
# (development aid; round = which wave of sub-agents produced the change)
import glob, json, os, re

def rnd(n):
    if n <= 2: return '1-2'
    if n <= 5: return '3'
    if n <= 8: return '4'
    if n <= 10: return '5'
    if n <= 12: return '6'
    if n <= 13: return '7'
    return '8'

rows = []
for d in sorted(glob.glob('/verif/seeded/C*-m*'), key=lambda p: (p.split('/')[-1].split('-')[0], int(p.split('-m')[-1]))):
    name = os.path.basename(d)
    m = json.load(open(d + '/meta.json'))
    n = int(name.split('-m')[1])
    cr = m.get('check_result', {})
    fps = cr.get('fingerprints', [])
    by = ''
    if fps:
        parts = fps[0].split('|')
        fam = parts[1].split('/')[0] if len(parts) > 1 else ''
        by = '%s `%s`' % (fam, parts[-1])
    caught = 'yes' if cr.get('caught') else 'no'
    if not cr.get('caught') and m.get('not_caught_because'):
        caught = 'no (see text)'
    what = re.sub(r'\s+', ' ', m.get('what', '')).replace('|', '\\|')[:170]
    files = ', '.join(m.get('files', []))
    rows.append('| %s | %s | %s | %s | %s | %s |' % (name, rnd(n), files, what, by, caught))
print('| id | round | files | change (first sentence of the author\'s description) | caught by (family, clause of the first fingerprint) | caught |')
print('|---|---|---|---|---|---|')
print('\n'.join(rows))
