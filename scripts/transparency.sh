#!/bin/bash
# transparency.sh <scratch>: ro's own test suite (core package + internal) on the INSTRUMENTED copy with the
# shims in pass-through mode (no kernel installed). Must pass exactly where the baseline passes.
set -u
S="$1"
export GOPROXY=off GOSUMDB=off GOTOOLCHAIN=local GOFLAGS=
V=/verif
mkdir -p "$S" && rm -rf "$S/ro" && rsync -a --exclude .git --exclude docs /repo/ "$S/ro/" || exit 2
( cd "$S/ro" && $V/bin/instr -tests -dir . . ./internal/... ) > "$S/instr.log" 2>&1 || { cat "$S/instr.log" >&2; exit 2; }
# workspace: the copy's own go.work plus rosim
( cd "$S/ro" && sed -i 's/^go 1\.18$/go 1.23/' go.work && printf '\nuse %s\nreplace rosim v0.0.0 => %s\n' "$V/rosim" "$V/rosim" >> go.work )
cd "$S/ro" || exit 2
go test -count=1 -vet=off -json . ./internal/... > "$S/transp.json" 2> "$S/transp.err"
python3 - "$S/transp.json" <<'PY'
import json,sys
passed=set(); failed=set()
for line in open(sys.argv[1]):
    try: e=json.loads(line)
    except Exception: continue
    if e.get('Test') and e.get('Action') in('pass','fail'):
        (passed if e['Action']=='pass' else failed).add(e['Package']+'::'+e['Test'])
base=json.load(open('/root/.vp/BASELINE.json'))
stable=set(t for t in base['stable_pass'] if t.startswith('github.com/samber/ro::') or t.startswith('github.com/samber/ro/internal/'))
missing=sorted(stable-passed)
print(f"selftest-transparency: instrumented copy in pass-through mode: {len(passed)} passed, {len(failed)} failed; baseline stable tests of these packages: {len(stable)}, not passed: {len(missing)}")
for m in missing[:30]: print("  NOT PASSED:", m)
sys.exit(1 if missing else 0)
PY
rc=$?
[ $rc -ne 0 ] && tail -5 "$S/transp.err" >&2
exit $rc
