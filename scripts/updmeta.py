import json,re,sys,glob,os
res={}
for f in sys.argv[1:]:
    name=None
    for line in open(f):
        line=line.rstrip('\n')
        if line.startswith('=== '):
            name=line[4:].strip(); res.setdefault(name,{'fingerprints':[]}); res[name]['fingerprints']=[]
        elif line.startswith('CONFIRM') and name:
            res[name]['confirm']=line
        elif line.startswith('CHECK') and name:
            m=re.match(r'CHECK (\S+) rc=(\d+) (\d+) violations; (.*)',line)
            res[name]['final']=line
            res[name]['caught']= m.group(2)=='1'
        elif line.startswith('RESULT') and name:
            res[name]['final']=line; res[name]['caught']=False
        elif 'fingerprint:' in line and name:
            res[name]['fingerprints'].append(line.split('fingerprint:')[1].strip())
n=0
for name,r in res.items():
    p=f'/verif/seeded/{name}/meta.json'
    if not os.path.exists(p) or 'final' not in r: continue
    m=json.load(open(p))
    cr=m.get('check_result',{})
    cr.update({'final':r['final'],'fingerprints':r['fingerprints'],'caught':r['caught']})
    m['check_result']=cr
    if 'confirm' in r:
        m['confirmed_by_us']=r['confirm']
    json.dump(m,open(p,'w'),indent=1)
    n+=1
print('updated',n)
