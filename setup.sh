#!/bin/bash
# Builds the framework from files on disk only (offline).
export GOPROXY=off GOSUMDB=off GOTOOLCHAIN=local GOFLAGS=-mod=mod
set -e
cd /verif
mkdir -p bin evidence replays
(cd instr && go build -o /verif/bin/instr .)
(cd driver && go build -o /verif/bin/driver .)
# warm the go1.26.8 build cache (std + harness deps) with one throw-away build
S=$(mktemp -d /tmp/rosim-setup-XXXX)
./scripts/build_worker.sh "$S" || { rm -rf "$S"; exit 2; }
./scripts/build_worker.sh "$S" race || { rm -rf "$S"; exit 2; }   # warms the -race build of std and deps (C13)
rm -rf "$S"
echo setup ok
